"""C25 — All-solutions predicates collect exactly the solutions.

One abstract *case* = a small fact/rule database + a few queries built around findall/3,4, bagof/3,
setof/3 (with ^, shared free variables, non-ground witnesses, nesting, exceptions inside the generator,
ill-typed arguments) and forall/2. From it we produce
  * Prolog text, consulted with an `L` line; each query is one more clause
    `q<k>_<id>(R) :- R = v(Vars…), Goal`, so the observed answer sequence (ALL answers on backtracking)
    is the sequence of bindings of `R`, plus the uncaught ball;
  * the same clause list in the harness' canonical term syntax for `drv_C25` (`Scryer.AllSol.solveX`:
    the reference interpreter `Scryer.Solve` extended by the all-solutions predicates whose list-level
    core `bagofGroups`/`setofGroups`/`witFixed` the theorems of Props/C25.lean are about).
The model is run twice: `fixed` (repaired witness computation = the oracle) and `pinned` (the
`append/3` of the pinned builtins.pl). A query on which the implementation differs from the oracle
but agrees with `pinned` is finding C25-1.
Answers are compared after renaming variables by first occurrence; `error(F, Ctx)` terms by `F`.
Sorts whose outcome depends on the order of two distinct variables are outside the model (dropped).

Terms are tuples: ('v',name) ('i',n) ('a',name) ('s',functor,[args]).
"""
import json
import os
import re
import select
import subprocess
import time
from concurrent.futures import ThreadPoolExecutor

from .. import core, diff

LEVEL = "proof"
TRUSTED_BASE = [
    "Scryer.Solve (Model/Solve.lean, C07) is taken as the definition of the answer sequence of the generator goal; Scryer.AllSol.solveX adds findall/3,4, bagof/3, setof/3, forall/2 in front of it",
    "vlib/props/C25.py renders one abstract clause list both as Prolog text (operators only for , ; -> :- and lists, everything else, also ^ and :, in functional notation) and in the canonical term syntax read by drv_C25",
    "keysort/2 and sort/2 (Rust) are modelled by the stable merge sort List.mergeSort over the standard order of C13 (Scryer.Order.termCompare); the lifted heap, its truncation on exception and the term copier are not modelled: they are tied to the reference only by differential execution",
    "answers are compared up to renaming of variables; the context argument of error/2 is ignored",
]
ASSUMPTIONS = [
    "a sort (keysort on witnesses, sort/2 on Witness-Template pairs) whose outcome depends on the relative order of two distinct variables is implementation defined; such queries are dropped and counted",
    "generator goals stay inside the domain of Scryer.Solve (no cyclic bindings, termination within the fuel schedule), flags at their defaults",
    "module qualification is only exercised with the module user",
]

MAXA = 14

# ------------------------------------------------------------------ terms


def V(n):
    return ('v', n)


def A(n):
    return ('a', n)


def I(n):
    return ('i', n)


def S(f, *args):
    return ('s', f, list(args))


NIL = A('[]')
TRUE = A('true')
FAIL = A('fail')
CUT = A('!')


def lst(xs, tail=NIL):
    t = tail
    for x in reversed(xs):
        t = S('.', x, t)
    return t


def conj(gs):
    if not gs:
        return TRUE
    t = gs[-1]
    for g in reversed(gs[:-1]):
        t = S(',', g, t)
    return t


def term_vars(t, acc):
    if t[0] == 'v':
        if t[1] not in acc:
            acc.append(t[1])
    elif t[0] == 's':
        for a in t[2]:
            term_vars(a, acc)
    return acc


def term_size(t):
    return 1 + (sum(term_size(a) for a in t[2]) if t[0] == 's' else 0)


def functors(t, acc):
    if t[0] == 's':
        acc.add("%s/%d" % (t[1], len(t[2])))
        for a in t[2]:
            functors(a, acc)
    elif t[0] == 'a':
        acc.add(t[1] + "/0")
    return acc


def to_tuple(t):
    """JSON round trip: lists -> tuples."""
    if t[0] == 's':
        return ('s', t[1], [to_tuple(a) for a in t[2]])
    return tuple(t)


# ------------------------------------------------------------------ rendering

def q_atom(a):
    return "'" + a.replace("\\", "\\\\").replace("'", "\\'") + "'"


def pl(t):
    """Prolog text. Operators only for the control constructs (always parenthesised) and lists."""
    k = t[0]
    if k == 'v':
        return t[1]
    if k == 'i':
        return str(t[1])
    if k == 'a':
        if t[1] in ('[]', '!'):
            return t[1]
        return q_atom(t[1]) if not re.fullmatch(r"[a-z][a-zA-Z0-9_]*", t[1]) else t[1]
    f, args = t[1], t[2]
    if len(args) == 2 and f in (',', ';', '->'):
        return "(" + pl(args[0]) + " " + f + " " + pl(args[1]) + ")"
    if f == '.' and len(args) == 2:
        items = [args[0]]
        tl = args[1]
        while tl[0] == 's' and tl[1] == '.' and len(tl[2]) == 2:
            items.append(tl[2][0])
            tl = tl[2][1]
        s = ",".join(pl(x) for x in items)
        return "[" + s + "]" if tl == NIL else "[" + s + "|" + pl(tl) + "]"
    if f == '\\+' and len(args) == 1:
        return "\\+(" + pl(args[0]) + ")"
    name = f if re.fullmatch(r"[a-z][a-zA-Z0-9_]*", f) else q_atom(f)
    return name + "(" + ",".join(pl(a) for a in args) + ")"


def canon(t):
    """canonical syntax of the harness (read by Drv/TermIO.parseTermStr)."""
    k = t[0]
    if k == 'v':
        return t[1]
    if k == 'i':
        return str(t[1])
    if k == 'a':
        return "[]" if t[1] == '[]' else q_atom(t[1])
    return q_atom(t[1]) + "(" + ",".join(canon(a) for a in t[2]) + ")"


def clause_pl(c):
    h, b = c
    return pl(h) + "." if b == TRUE else pl(h) + " :- " + pl(b) + "."


def clause_canon(c):
    h, b = c
    return canon(h) if b == TRUE else "':-'(%s,%s)" % (canon(h), canon(b))


# ------------------------------------------------------------------ answer parser / canonicaliser

class P:
    def __init__(self, s):
        self.s, self.i = s, 0

    def peek(self):
        return self.s[self.i] if self.i < len(self.s) else ""

    def quoted(self, q):
        self.i += 1
        out = []
        while True:
            c = self.s[self.i]
            if c == "\\":
                d = self.s[self.i + 1]
                if d == "x":
                    j = self.s.index("\\", self.i + 2)
                    out.append(chr(int(self.s[self.i + 2:j], 16)))
                    self.i = j + 1
                else:
                    out.append(d)
                    self.i += 2
            elif c == q:
                self.i += 1
                return "".join(out)
            else:
                out.append(c)
                self.i += 1

    def args(self, close):
        out = []
        while True:
            out.append(self.term())
            c = self.s[self.i]
            self.i += 1
            if c == close:
                return out
            if c != ",":
                raise ValueError("bad separator in %r at %d" % (self.s, self.i))

    NUM = re.compile(r"-?\d+")
    VAR = re.compile(r"[A-Za-z_][A-Za-z0-9_]*")
    OTHER = re.compile(r"r\(-?\d+,\d+\)|f\([0-9a-f]{16}\)")

    def term(self):
        c = self.peek()
        if c == "'":
            name = self.quoted("'")
            if self.peek() == "(":
                self.i += 1
                return ('s', name, self.args(")"))
            return ('a', name)
        if c == '"':
            return lst([A(ch) for ch in self.quoted('"')])
        if c == "[":
            self.i += 1
            if self.peek() == "]":
                self.i += 1
                return NIL
            return lst(self.args("]"))
        m = self.OTHER.match(self.s, self.i)
        if m:
            self.i = m.end()
            return ('o', m.group(0))
        m = self.NUM.match(self.s, self.i)
        if m:
            self.i = m.end()
            return ('i', int(m.group(0)))
        m = self.VAR.match(self.s, self.i)
        if m:
            self.i = m.end()
            return ('v', m.group(0))
        raise ValueError("cannot parse %r at %d" % (self.s, self.i))


def parse_canon(s):
    p = P(s)
    t = p.term()
    if p.i != len(s):
        raise ValueError("trailing text in %r at %d" % (s, p.i))
    return t


def normalise(t, names):
    """rename variables by first occurrence; blank the context of error/2 terms."""
    k = t[0]
    if k == 'v':
        if t[1] not in names:
            names[t[1]] = "_%d" % len(names)
        return names[t[1]]
    if k == 'i':
        return str(t[1])
    if k == 'a':
        return "[]" if t[1] == '[]' else q_atom(t[1])
    if k == 'o':
        return t[1]
    if t[1] == 'error' and len(t[2]) == 2:
        return "'error'(" + normalise(t[2][0], names) + ",*)"
    return q_atom(t[1]) + "(" + ",".join(normalise(a, names) for a in t[2]) + ")"


def norm_text(s):
    return normalise(parse_canon(s), {})


def split_items(s):
    return [x for x in s.split(" ;; ")] if s else []


def impl_items(res):
    """harness result -> (items, truncated) or None if the line is inconclusive (timeout etc.).
    item = ('ans', text) | ('exc', text). The query is `catch(q(_R),_B,true),copy_term(_R-_B,R-B)`:
    an answer binds R, a ball binds B (and is the last item)."""
    if res is None:
        return None
    its = split_items(res.strip())
    trunc = False
    if its and its[-1] == "...":
        trunc = True
        its = its[:-1]
    if its and its[-1] == "false":
        its = its[:-1]       # "no more answers" (a choice point was left): not an item
    out = []
    for x in its:
        if x in ("{}", "true"):
            out.append(('ans', '_0'))
            continue
        if not (x.startswith("{") and x.endswith("}")):
            return None      # timeout / panic / error outside the catch: not interpretable here
        try:
            b = parse_bindings(x[1:-1])
        except (ValueError, IndexError):
            return None
        if "B" in b:
            out.append(('exc', normalise(b["B"], {})))
        elif "R" in b:
            out.append(('ans', normalise(b["R"], {})))
        else:
            out.append(('ans', '_0'))
    return out, trunc


def parse_bindings(body):
    """`X=term,Y=term` -> {name: parsed term}."""
    p = P(body)
    out = {}
    while p.i < len(body):
        m = P.VAR.match(body, p.i)
        if not m or body[m.end():m.end() + 1] != "=":
            raise ValueError("bad binding in %r at %d" % (body, p.i))
        p.i = m.end() + 1
        out[m.group(0)] = p.term()
        if p.i < len(body):
            if body[p.i] != ",":
                raise ValueError("bad separator in %r at %d" % (body, p.i))
            p.i += 1
    return out


def model_items(res):
    """driver result -> (items, truncated) | 'oof' | None."""
    if res is None:
        return None
    if res.startswith("oof"):
        return 'oof'
    m = re.match(r"R (\d+) (\d+) ::(.*)$", res)
    if not m:
        return None
    its = split_items(m.group(3).strip())
    trunc = False
    if its and its[-1] == "...":
        trunc = True
        its = its[:-1]
    out = []
    for x in its:
        if x.startswith("exception(") and x.endswith(")"):
            out.append(('exc', norm_text(x[10:-1])))
        else:
            out.append(('ans', norm_text(x)))
    return out, trunc


# ------------------------------------------------------------------ generator
    return t


# ------------------------------------------------------------------ running the model (guarded)

def _run_guarded(binary, cases, per_line_timeout, env=None):
    """feeds the lines of `cases` (lists of lines, a case stays together) to one line-protocol process;
    a line that does not answer within the timeout gets `hang`, the process is killed and restarted
    with the NEXT case (the rest of the hanging case is marked `skipped`)."""
    import threading
    res = {}
    k = 0
    e = dict(os.environ)
    if env:
        e.update(env)
    while k < len(cases):
        lines = [(ci, l) for ci in range(k, len(cases)) for l in cases[ci]]
        p = subprocess.Popen([binary], stdin=subprocess.PIPE, stdout=subprocess.PIPE,
                             stderr=subprocess.DEVNULL, text=True, bufsize=1, env=e, errors="replace")

        def feed(proc=p, data="\n".join(l for _, l in lines) + "\n"):
            try:
                proc.stdin.write(data)
                proc.stdin.close()
            except Exception:
                pass
        threading.Thread(target=feed, daemon=True).start()
        done = 0
        ok = True
        while done < len(lines):
            r, _, _ = select.select([p.stdout], [], [], per_line_timeout)
            l = p.stdout.readline() if r else ""
            if not l:
                ok = False
                break
            i, _, v = l.rstrip("\n").partition("\t")
            if i != core.line_id(lines[done][1]):
                continue          # noise on stdout (warnings): not a result line
            res[i] = v
            done += 1
        died = None
        if not ok:
            time.sleep(0.05)
            died = p.poll()
        try:
            p.kill()
        except Exception:
            pass
        p.wait()
        if ok:
            break
        ci = lines[done][0]
        res[core.line_id(lines[done][1])] = "hang" if died is None else "crash(rc=%s)" % died
        for cj, l in lines[done + 1:]:
            if cj != ci:
                break
            res[core.line_id(l)] = "skipped"
        k = ci + 1
    return res


def run_guarded(binary, cases, per_line_timeout, jobs, env=None):
    chunks = [cases[i::jobs] for i in range(jobs)]
    out = {}
    with ThreadPoolExecutor(max_workers=jobs) as ex:
        for r in ex.map(lambda ch: _run_guarded(binary, ch, per_line_timeout, env) if ch else {}, chunks):
            out.update(r)
    return out


def run_model_guarded(lines, per_line_timeout=15.0, jobs=6):
    """the interpreter has a depth budget but no step budget: a line that takes too long is reported
    as `oof timeout`."""
    out = run_guarded(core.DRIVER_BIN, [[l] for l in lines], per_line_timeout, jobs)
    return {k: ("oof timeout" if v in ("hang", "skipped") or v.startswith("crash") else v) for k, v in out.items()}


def run_impl_guarded(cases, per_line_timeout=25.0, jobs=8, env=None):
    return run_guarded(core.HARNESS_BIN, cases, per_line_timeout, jobs, env)


# ------------------------------------------------------------------ judge


# ------------------------------------------------------------------ generator

ATOMS = ['a', 'b', 'c']
INTS = [1, 2]
POOL = ['X', 'Y', 'Z', 'W']


class Gen:
    def __init__(self, rng, cid):
        self.rng, self.cid = rng, cid
        self.features = set()
        self.nonground = rng.random() < 0.22

    def name(self, base):
        return "%s_%s" % (base, self.cid)

    def const(self):
        r = self.rng
        x = r.random()
        if x < 0.5:
            return A(r.choice(ATOMS))
        if x < 0.85:
            return I(r.choice(INTS))
        return S('h', A(r.choice(ATOMS)))

    def fact_arg(self, vs):
        r = self.rng
        if self.nonground and r.random() < 0.3:
            x = r.random()
            if x < 0.5:
                return V(r.choice(vs))
            if x < 0.8:
                return S('h', V(r.choice(vs)))
            return S('k', V(r.choice(vs)), V(r.choice(vs)))
        return self.const()

    def program(self):
        r = self.rng
        cl = []
        for _ in range(r.randint(4, 8)):
            cl.append((S(self.name('p'), self.fact_arg(['A', 'B']), self.fact_arg(['A', 'B'])), TRUE))
        for _ in range(r.randint(4, 8)):
            cl.append((S(self.name('r'), self.fact_arg(['A', 'B']), self.fact_arg(['A', 'B']),
                        self.fact_arg(['A', 'B'])), TRUE))
        p, rr, s = self.name('p'), self.name('r'), self.name('s')
        k = r.randint(0, 2)
        if k == 0:
            cl.append((S(s, V('X'), V('Y')), S(',', S(p, V('X'), V('Z')), S(rr, V('Z'), V('Y'), V('_U')))))
        elif k == 1:
            cl.append((S(s, V('X'), V('Y')), S(';', S(p, V('X'), V('Y')), S(p, V('Y'), V('X')))))
        else:
            cl.append((S(s, V('X'), V('Y')), S(p, V('X'), V('Y'))))
            cl.append((S(s, V('X'), V('Y')), S(rr, V('Y'), V('_U'), V('X'))))
        m = self.name('mem')
        cl.append((S(m, V('X'), S('.', V('X'), V('_T'))), TRUE))
        cl.append((S(m, V('X'), S('.', V('_H'), V('T'))), S(m, V('X'), V('T'))))
        return cl

    def arg(self, vs):
        r = self.rng
        if r.random() < 0.86:
            return V(r.choice(vs))
        return self.const()

    def lit(self, vs):
        r = self.rng
        x = r.random()
        if x < 0.4:
            return S(self.name('p'), self.arg(vs), self.arg(vs))
        if x < 0.7:
            return S(self.name('r'), self.arg(vs), self.arg(vs), self.arg(vs))
        if x < 0.85:
            return S(self.name('s'), self.arg(vs), self.arg(vs))
        items = [self.const() for _ in range(r.randint(1, 4))]
        if r.random() < 0.3:
            items.append(items[0])
        r.shuffle(items)
        self.features.add('member')
        return S(self.name('mem'), V(r.choice(vs)), lst(items))

    def test(self, vs):
        r = self.rng
        v = V(r.choice(vs))
        x = r.random()
        if x < 0.3:
            return S('\\==', v, self.const())
        if x < 0.45:
            return S('==', v, self.const())
        if x < 0.6:
            return S('\\=', v, self.const())
        if x < 0.75:
            return S('atom', v)
        if x < 0.9:
            return S('integer', v)
        return S('nonvar', v)

    def body(self, vs, throwing=False):
        r = self.rng
        x = r.random()
        l1 = self.lit(vs)
        if throwing:
            self.features.add('throw-in-generator')
            v = V(r.choice(vs))
            return S(',', l1, S(';', S('->', S('==', v, self.const()), S('throw', S('oops', v))), TRUE))
        if x < 0.3:
            return l1
        if x < 0.5:
            self.features.add('conj')
            return S(',', l1, self.lit(vs))
        if x < 0.62:
            self.features.add('disj')
            return S(';', l1, self.lit(vs))
        if x < 0.76:
            self.features.add('test')
            return S(',', l1, self.test(vs))
        if x < 0.84:
            self.features.add('naf')
            return S(',', l1, S('\\+', self.lit(vs + ['N'])))
        if x < 0.9:
            self.features.add('inner-findall')
            return S(',', l1, S('findall', V('F'), self.lit(vs + ['F']), V('_FL')))
        if x < 0.95:
            self.features.add('no-solution')
            return S(',', l1, FAIL)
        self.features.add('unify-goal')
        return S(';', S('=', V(r.choice(vs)), self.const()), S('=', V(r.choice(vs)), self.const()))

    def template(self, vs):
        r = self.rng
        x = r.random()
        if x < 0.4:
            return V(vs[0])
        if x < 0.6:
            return S('-', V(r.choice(vs)), V(r.choice(vs)))
        if x < 0.7:
            return S('f', V(r.choice(vs)), self.const(), V(r.choice(vs)))
        if x < 0.78:
            self.features.add('constant-template')
            return self.const()
        if x < 0.88:
            self.features.add('template-var-not-in-goal')
            return S('-', V(vs[0]), V('Q'))
        return V(r.choice(vs))

    def caret(self, body, tmpl):
        """-> goal with a ^ prefix (possibly none / module qualified)."""
        r = self.rng
        gv = term_vars(body, [])
        tv = term_vars(tmpl, [])
        free = [v for v in gv if v not in tv]
        x = r.random()
        if x < 0.3 or not gv:
            return body
        self.features.add('caret')
        if x < 0.5:
            qs = list(free)                       # everything quantified
        elif x < 0.8:
            qs = [v for v in free if r.random() < 0.5]
            if free and not qs:
                qs = [r.choice(free)]
            if len(qs) < len(free):
                self.features.add('caret-partial')
        else:
            cand = gv + ['Q', 'N2']                # also template variables and variables not in the goal
            qs = [v for v in cand if r.random() < 0.4] or [r.choice(cand)]
            self.features.add('caret-odd')
        if r.random() < 0.3:
            r.shuffle(qs)
        g = body
        shape = r.random()
        if qs and shape < 0.15 and len(qs) >= 2:
            self.features.add('caret-compound')
            g = S('^', S('f', *[V(v) for v in qs]), g)
        elif qs and shape < 0.25 and len(qs) >= 2:
            self.features.add('caret-compound')
            g = S('^', lst([V(v) for v in qs]), g)
        else:
            mid = r.randrange(len(qs)) if (qs and r.random() < 0.15) else None
            for i, v in enumerate(reversed(qs)):
                g = S('^', V(v), g)
                if mid is not None and i == mid and i < len(qs) - 1:
                    self.features.add('caret-module-inside')
                    g = S(':', A('user'), g)
        if r.random() < 0.12:
            self.features.add('module-qualified')
            g = S(':', A('user'), g)
        return g

    def allsol(self, vs, lvar, kind=None, throwing=False):
        """one bagof/setof/findall goal collecting into variable `lvar`."""
        r = self.rng
        kind = kind or r.choice(['bagof', 'bagof', 'setof', 'setof', 'findall'])
        b = self.body(vs, throwing)
        t = self.template(vs)
        self.features.add(kind)
        if kind == 'findall':
            return S('findall', t, b, V(lvar))
        return S(kind, t, self.caret(b, t), V(lvar))

    def query(self):
        r = self.rng
        vs = list(POOL[:r.randint(2, 4)])
        x = r.random()
        if x < 0.34:
            g = self.allsol(vs, 'L')
            form = g[1]
        elif x < 0.44:
            form = 'findall4'
            self.features.add('findall4')
            tail = r.choice([V('T'), NIL, lst([A('z')]), lst([A('z')], V('T')), lst([V('T1'), I(0)])])
            l = r.choice([V('L'), V('L'), lst([V('E1')], V('L2')), lst([V('E1'), V('E2')]), lst([self.const()], V('L2'))])
            g = S('findall', self.template(vs), self.body(vs), l, tail)
        elif x < 0.54:
            form = 'prebound'
            self.features.add('prebound-or-postfilter')
            k = r.random()
            inner = self.allsol(vs, 'L')
            if k < 0.4:
                g = S(',', S('=', V(r.choice(vs)), self.const()), inner)
            elif k < 0.7:
                g = S(',', inner, S('=', V('L'), lst([V('E1'), V('E2')], V('_LT'))))
            else:
                inner = inner[:2] + ([inner[2][0], inner[2][1],
                                      r.choice([lst([V('E1'), V('E2')]), lst([V('E1')], V('L2')), lst([self.const()], V('L2'))])],)
                g = inner
        elif x < 0.72:
            form = 'nested'
            self.features.add('nested')
            inner = self.allsol(vs, 'L1')
            outer_kind = r.choice(['bagof', 'setof', 'findall'])
            iv = term_vars(inner, [])
            k = r.random()
            if k < 0.5:
                t = S('-', V(r.choice(vs)), V('L1'))
            elif k < 0.8:
                t = V('L1')
            else:
                t = S('-', V('L1'), V(r.choice(vs)))
            if outer_kind == 'findall':
                g = S('findall', t, inner, V('L'))
            else:
                g = S(outer_kind, t, self.caret(inner, t), V('L'))
            self.features.add('nested-' + outer_kind + '-' + inner[1])
        elif x < 0.82:
            form = 'exception'
            self.features.add('exception')
            inner = self.allsol(vs, 'L', throwing=True)
            g = S(',', S('catch', inner, S('oops', V('E')), TRUE), self.allsol(vs, 'M', kind='findall'))
            k = r.random()
            if k < 0.25:
                g = S(',', inner, S('=', V('M'), A('not_reached')))
            elif k < 0.6:
                # the generator of an outer findall catches the ball of an inner all-solutions call
                # that had already collected some solutions (cleanup of the lifted heap)
                self.features.add('exception-inside-outer-findall')
                o = self.lit(['O', 'O2'])
                g = S('findall', S('-', V('O'), V('E')),
                      S(',', o, S('catch', inner, S('oops', V('E')), TRUE)), V('M'))
        elif x < 0.92:
            form = 'error'
            self.features.add('ill-typed')
            k = r.randrange(8)
            t, b = self.template(vs), self.body(vs)
            kind = r.choice(['bagof', 'setof'])
            bad = r.choice([A('foo'), I(1), lst([I(1)], A('foo')), S('g', V('L'))])
            if k == 0:
                g = S(kind, t, V('G'), V('L'))
            elif k == 1:
                g = S(kind, t, I(1), V('L'))
            elif k == 2:
                g = S(kind, t, b, bad)
            elif k == 3:
                g = S('findall', t, b, bad)
            elif k == 4:
                g = S('findall', t, b, V('L'), bad)
            elif k == 5:
                g = S(kind, t, S('^', V('Y'), V('G')), V('L'))
            elif k == 6:
                g = S('findall', t, b, bad, V('T'))
            else:
                g = S('findall', t, S(',', b, I(1)), V('L'))
        else:
            form = 'forall'
            self.features.add('forall')
            g = S('forall', self.body(vs), r.choice([self.test(vs), self.lit(vs), S('\\+', self.lit(vs))]))
        qv = term_vars(g, [])
        qv = [v for v in qv if not v.startswith('_')]
        return form, g, qv

    def queries(self, n):
        out = []
        for k in range(n):
            form, g, qv = self.query()
            h = S("q%d_%s" % (k, self.cid), V('R'))
            out.append(((h, S(',', S('=', V('R'), S('v', *[V(v) for v in qv])), g)), form))
        return out


def make_case(cid, clauses, queries, forms, meta=None):
    """clauses, queries: lists of (head, body). The query clauses are part of the program."""
    allc = list(clauses) + list(queries)
    text = "\n".join(clause_pl(c) for c in allc)
    prog = " ;; ".join(clause_canon(c) for c in allc)
    impl = ["Q\t%s_u\t1\tuse_module(library(iso_ext))." % cid,
            "L\t%s_l\tuser\t%s" % (cid, text.replace("\\", "\\\\").replace("\n", "\\n"))]
    model = []
    qids = []
    for k, (h, _b) in enumerate(queries):
        qid = "%s_q%d" % (cid, k)
        qids.append(qid)
        impl.append("Q\t%s\t%d\tcatch(%s,_B,true),copy_term(_R-_B,R-B)." % (qid, MAXA, pl(h).replace("(R)", "(_R)")))
        model.append("run\t%s\tfixed\t%s\t%s\t%s\t%d" % (qid, prog, canon(h), "R", MAXA))
        model.append("run\t%s\tpinned\t%s\t%s\t%s\t%d" % (qid + "p", prog, canon(h), "R", MAXA))
    c = {"id": cid, "clauses": allc, "nq": len(queries), "qids": qids, "text": text, "forms": forms,
         "impl": impl, "model": model}
    if meta:
        c.update(meta)
    return c


def rebuild_case(c):
    allc = [(to_tuple(h), to_tuple(b)) for h, b in c["clauses"]]
    nq = c["nq"]
    return make_case(c["id"], allc[:len(allc) - nq], allc[len(allc) - nq:], c.get("forms", ["?"] * nq),
                     {k: c[k] for k in ("family", "features", "corpus") if k in c})


def gen_case(rng, cid):
    g = Gen(rng, cid)
    clauses = g.program()
    qs = g.queries(4)
    return make_case(cid, clauses, [q for q, _ in qs], [f for _, f in qs],
                     {"family": "allsol", "features": sorted(g.features), "nonground": g.nonground})


def directed_cases():
    """the shapes the theorems single out: empty solution list, one group, duplicates, variant
    witnesses, ^ with and without remaining free variables, findall/4 tails."""
    X, Y, Z, L = V('X'), V('Y'), V('Z'), V('L')
    cid = "d0"

    def n(b):
        return "%s_%s" % (b, cid)
    f = n('f')
    g = n('g')
    cl = [(S(f, I(1), A('a'), A('p')), TRUE), (S(f, I(2), A('b'), A('p')), TRUE),
          (S(f, I(3), A('a'), A('q')), TRUE), (S(f, I(4), A('b'), A('q')), TRUE),
          (S(f, I(1), A('a'), A('p')), TRUE),
          (S(g, I(1), V('_A')), TRUE), (S(g, I(2), S('h', V('_A'))), TRUE), (S(g, I(3), V('_A')), TRUE),
          (S(g, I(4), S('h', V('A'), V('A'))), TRUE), (S(g, I(6), S('h', V('B'), V('B'))), TRUE),
          (S(g, I(7), A('a')), TRUE)]
    fx = S(f, X, Y, Z)
    goals = [
        S('bagof', X, fx, L), S('setof', X, fx, L),
        S('bagof', X, S('^', Y, fx), L), S('setof', X, S('^', Z, fx), L),
        S('bagof', X, S('^', Y, S('^', Z, fx)), L), S('setof', X, S('^', Z, S('^', Y, fx)), L),
        S('bagof', X, S('^', X, fx), L), S('bagof', X, S('^', S('f', X, Y), fx), L),
        S('bagof', X, S('^', Y, S(':', A('user'), S('^', Z, fx))), L),
        S('bagof', X, S(':', A('user'), S('^', Y, fx)), L),
        S('bagof', X, S(',', fx, FAIL), L), S('setof', X, S(',', fx, FAIL), L),
        S('findall', X, S(',', fx, FAIL), L),
        S('findall', X, fx, L, V('T')), S('findall', X, fx, L, lst([A('z')], V('T'))),
        S('findall', X, fx, lst([V('E1'), V('E2')], V('L2')), NIL),
        S('bagof', X, S(g, X, Y), L), S('setof', Y, S('^', X, S(g, X, Y)), L), S('setof', X, S(g, X, Y), L),
        S('findall', X, S(',', fx, FAIL), L, lst([A('z')], V('T'))),
        S('findall', S('-', X, V('E')), S(',', S(g, X, A('a')),
                                          S('catch', S('findall', Y, S(',', fx, S(';', S('->', S('==', Z, A('q')), S('throw', S('oops', Y))), TRUE)), V('_I')),
                                            S('oops', V('E')), TRUE)), L),
        S('bagof', S('-', X, Y), S(g, X, Y), L),
        S('bagof', X, S('^', Y, V('G')), L),
        S('bagof', S('-', Y, V('L1')), S('setof', X, S('^', Z, fx), V('L1')), L),
        S('findall', S('-', Z, V('L1')), S('bagof', X, S('^', Y, fx), V('L1')), L),
        S('forall', fx, S('atom', Y)), S('forall', fx, S('==', Y, A('a'))),
    ]
    qs = []
    forms = []
    for k, gl in enumerate(goals):
        qv = [v for v in term_vars(gl, []) if not v.startswith('_')]
        h = S("q%d_%s" % (k, cid), V('R'))
        qs.append((h, S(',', S('=', V('R'), S('v', *[V(v) for v in qv])), gl)))
        forms.append('directed')
    return [make_case(cid, cl, qs, forms, {"family": "directed", "features": ["directed"]})]


# ------------------------------------------------------------------ judge

IMPL_ENV = {"SV_TIMEOUT_MS": "8000"}


def impl_items2(res):
    if res == "hang" or (res or "").startswith("crash"):
        return 'hang'
    return impl_items(res)


def compare(mi, ii):
    """model items/trunc vs implementation items/trunc -> None if they agree, else (kind, detail)."""
    if ii == 'hang':
        return "no-termination-or-crash", "the implementation did not answer or died (the reference terminates)"
    mits, mtr = mi
    iits, itr = ii
    n = min(len(mits), len(iits))
    for k in range(n):
        if mits[k] != iits[k]:
            if mits[k][0] != iits[k][0]:
                kind = "answer-vs-exception"
            elif mits[k][0] == 'exc':
                kind = "different-exception"
            else:
                kind = "different-answer"
            return kind, "item %d: reference %s, implementation %s" % (k, mits[k][1], iits[k][1])
    if itr:
        if len(iits) > len(mits):
            return "extra-items", "implementation has %d items, reference %d" % (len(iits), len(mits))
        if len(iits) < MAXA - 1 and len(iits) < len(mits):
            return "missing-items", "implementation truncated after %d items" % len(iits)
        return None
    if len(iits) != len(mits) or mtr:
        return ("missing-items" if len(iits) < len(mits) else "extra-items",
                "implementation has %d items, reference %d%s" % (len(iits), len(mits), "+" if mtr else ""))
    return None


def goal_constructs(t, acc):
    if t[0] == 's':
        if t[1] in ('bagof', 'setof', 'findall', 'forall', '^', ':', '\\+', 'throw', 'catch'):
            acc.add("%s/%d" % (t[1], len(t[2])))
        for a in t[2]:
            goal_constructs(a, acc)
    return acc


def run(ctx):
    rng, tier = ctx["rng"], ctx["tier"]
    t_start = time.time()
    rep = diff.replay_case(ctx)
    if rep is not None:
        cases = [rebuild_case(c) for c in rep]
    else:
        cases = [rebuild_case(c) for c in diff.load_corpus("C25")]
        cases += directed_cases()
        n = 220 if tier == "quick" else 2500
        n = int(os.environ.get("C25_N", n))
        cases += [gen_case(rng, "c%d" % i) for i in range(n)]
    # 1. the model first (both witness computations)
    model = run_model_guarded([l for c in cases for l in c["model"]])
    t_model = time.time() - t_start
    oof = 0
    runnable = []
    for c in cases:
        keep = []
        for qid in c["qids"]:
            mv = model.get(qid)
            if mv is None or mv.startswith("oof") or mv.startswith("bad"):
                oof += 1
            else:
                keep.append(qid)
        c["run_qids"] = keep
        if keep:
            ic = dict(c)
            ic["impl"] = c["impl"][:2] + [l for l in c["impl"][2:] if core.line_id(l) in keep]
            runnable.append(ic)
    # 2. the implementation on the decided queries
    impl = run_impl_guarded([c["impl"] for c in runnable], per_line_timeout=15.0, env=IMPL_ENV)
    t_impl = time.time() - t_start - t_model
    retried = 0
    for c in runnable:
        rs = [impl.get(c["id"] + "_l")] + [impl.get(q) for q in c["run_qids"]]
        if any(r is None or r == "hang" or r.startswith("timeout") or r.startswith("skipped") or r.startswith("abort")
               for r in rs):
            retried += 1
            impl.update(run_impl_guarded([c["impl"]], per_line_timeout=75.0, jobs=1, env={"SV_TIMEOUT_MS": "60000"}))
    # 3. judge
    agree = 0
    evaluations = 0
    distinct = set()
    forms = {}
    feat = {}
    groups_hist = {}
    caret_divergent = 0
    kinds = {"answers": 0, "no-answer": 0, "exception": 0}
    findings = []
    failing = 0
    for c in runnable:
        for f in c.get("features", []):
            feat[f] = feat.get(f, 0) + 1
        loaded = impl.get(c["id"] + "_l")
        poisoned = False
        for qid in c["run_qids"]:
            k = c["qids"].index(qid)
            form = c["forms"][k] if k < len(c.get("forms", [])) else "?"
            if rep is not None:
                print("replay %s query %d (%s)\n%s" % (c["id"], k, form, c["text"]))
                print("  reference (repaired): %s" % model.get(qid))
                print("  reference (pinned)  : %s" % model.get(qid + "p"))
                print("  implementation      : %s (load: %s)" % (impl.get(qid), loaded))
            if poisoned:
                continue
            evaluations += 1
            mi = model_items(model[qid])
            mp = model_items(model.get(qid + "p"))
            if not isinstance(mi, tuple):
                continue
            mits, _ = mi
            na = sum(1 for x in mits if x[0] == 'ans')
            ne = sum(1 for x in mits if x[0] == 'exc')
            kinds["exception" if ne else ("answers" if na else "no-answer")] += 1
            forms[form] = forms.get(form, 0) + 1
            groups_hist[str(na)] = groups_hist.get(str(na), 0) + 1
            if mits:
                distinct.add((c["text"], k))
            divergent = isinstance(mp, tuple) and mp != mi
            if divergent or mp == 'oof' or mp is None:
                caret_divergent += 1
            if loaded != "loaded":
                problem = ("load-failed", "consulting the program gave: %s" % loaded)
                ii = None
            else:
                ii = impl_items2(impl.get(qid))
                if ii is None:
                    problem = ("uninterpretable", "implementation result: %s" % impl.get(qid))
                else:
                    problem = compare(mi, ii)
            if problem is None:
                agree += 1
                continue
            failing += 1
            r0 = impl.get(qid) or ""
            if r0 == "hang" or r0.startswith("panic") or r0.startswith("crash"):
                poisoned = True
            qbody = c["clauses"][len(c["clauses"]) - c["nq"] + k][1]
            cons = " ".join(sorted(goal_constructs(to_tuple(qbody), set())))
            detail = "query %d of\n%s\n%s\nreference (repaired witness computation): %s\nreference (pinned append/3)            : %s\nimplementation: %s" % (
                k, c["text"], problem[1], model.get(qid), model.get(qid + "p"), impl.get(qid))
            stored = {"id": c["id"], "clauses": c["clauses"], "nq": c["nq"], "forms": c.get("forms"),
                      "family": c.get("family"), "features": c.get("features"), "query": k, "text": c["text"],
                      "model_result": model.get(qid), "impl_result": impl.get(qid)}
            pinned_agrees = (ii is not None and ii != 'hang' and isinstance(mp, tuple) and compare(mp, ii) is None)
            if divergent or mp == 'oof':
                # the pinned lists:append/3 witness computation takes another route than the repaired
                # one on this query (otherwise the two model runs are identical): finding C25-1
                sig = {"family": "allsol", "defect": "caret-witnesses-by-append",
                       "agrees_with_pinned_model": "yes" if pinned_agrees else ("out-of-model" if mp == 'oof' else "no")}
                detail += "\nthe pinned lists:append/3 witness computation differs from the repaired one on this query (finding C25-1); implementation agrees with the pinned model: " + sig["agrees_with_pinned_model"]
            else:
                sig = {"family": "allsol", "defect": "unclassified", "kind": problem[0], "constructs": cons}
            if rep is not None:
                print("  PROBLEM %s: %s" % (sig, problem[1]))
            findings.append(core.Finding("violation", sig, detail, stored))
    return {
        "evaluations": evaluations,
        "distinct_nontrivial": len(distinct),
        "rule": "random fact/rule databases (p/2, r/3: 3-7 facts over atoms, small integers, h(_) terms, 22% of the databases with non-ground facts; a rule s/2; member) and 4 queries each: findall/3, findall/4 with partial result lists and tails, bagof/3 and setof/3 with templates sharing variables with the goal, ^ prefixes (all / some / none of the free variables, template variables, variables not in the goal, compound left sides, user: qualification inside), pre-bound witnesses and pre-bound result lists, two-level nesting of the three predicates, exceptions thrown by the generator after k solutions followed by another findall, ill-typed goal and list arguments, forall/2; plus a directed case (empty solution list, duplicates, variant witnesses, ^ shapes, findall/4 tails). non-trivial = the reference gives at least one answer or a ball; distinct by program text + query. ALL answers on backtracking are compared",
        "samples": [{"program": c["text"], "reference": [model.get(q) for q in c["qids"]],
                     "implementation": [impl.get(q) for q in c["qids"]]} for c in (runnable[1:3] + runnable[-1:])],
        "traces_validated_against_impl": agree,
        "disagreements_checked": failing,
        "programs": len(cases),
        "queries_dropped_model_out_of_fuel_or_variable_order_dependent": oof,
        "queries_where_pinned_and_repaired_witness_computation_differ": caret_divergent,
        "reference_result_kinds": kinds,
        "reference_answer_count_histogram": groups_hist,
        "query_forms": forms,
        "features_generated": feat,
        "cases_rerun_serially": retried,
        "failing_queries_by_defect": {d: sum(1 for f in findings if f.sig.get("defect") == d)
                                      for d in set(f.sig.get("defect") for f in findings)},
        "wall_seconds": round(time.time() - t_start, 1),
        "model_seconds": round(t_model, 1),
        "impl_seconds": round(t_impl, 1),
        "exhaustive": False,
        "findings": findings,
    }
