"""C19 — Stream I/O round-trips and reports positions consistently.

One abstract *case* = how a stream is opened (file or in-memory, text/binary, eof_action,
reposition) plus a script of builtin calls. From it we render
  * one Prolog query for the implementation (every call wrapped so that its result or its error
    term is a binding of the answer), and
  * the `RUN` line of drv_C19 (Model/Stream.lean),
and compare the two result sequences token by token.

Families
  file    input files written by this module under build/tmp/C19/ (text with multi-byte characters,
          CRLF, no final newline, empty, U+FEFF; files of `atom.` clauses for read/2; binary with all
          byte values), random interleavings of get/peek char/code/byte, get_n_chars,
          at_end_of_stream, stream_property(position/end_of_stream), set_stream_position, read/2,
          for the three eof_actions, running past the end
  write   put_char/put_code/nl/write/format/put_byte to a fresh file, close, reopen, read back
  memory  the same read scripts on an in-memory `user_input` (harness op MS, notes/hooks/fam_c19.rs;
          skipped with a count when the harness does not know the op)
"""
import os
import shutil

from .. import core, diff

LEVEL = "proof"
TRUSTED_BASE = [
    "vlib/props/C19.py renders one abstract script both as a Prolog query and as the token line of drv_C19, and maps answer bindings / error terms to the model's result tokens",
    "the operating system's file semantics (a file read back holds the bytes written; File::metadata().len(); seek)",
    "the character level of the model is the specification of the buffered reader proved in C18 (Utf8.decodeFirst on the unread bytes)",
    "read/2 is modelled only for text made of `atom.` units (the term text up to the end token, the dot and a directly following newline are consumed)",
]
ASSUMPTIONS = [
    "text contents are valid UTF-8 (invalid input is C18's subject); set_stream_position targets are character boundaries or beyond the end",
    "eof_action(reset) on a file or in-memory stream rewinds to the start (Stream::reset); this implementation-defined choice is mirrored, not judged",
    "set_stream_position/2 ignores the line component of the position term (mirrored; line counts are only claimed for scripts without repositioning)",
    "a read/2 that finds only layout before the end of the file is C17's finding (incomplete_reduction); such steps end the judged part of a script",
    "format/2,3 on a stream of the wrong direction raises existence_error instead of permission_error (recorded in notes/findings-misc.md, not judged)",
]

IMPL_ENV = {"SV_TIMEOUT_MS": "60000"}
TMP_ROOT = os.path.join(core.BUILD, "tmp", "C19")


def transient(r):
    return r == "missing" or r.startswith("timeout") or r.startswith("abort") or r.startswith("skipped") or r.startswith("panic")


# ---------------------------------------------------------------- harness canonical syntax

class CanonError(Exception):
    pass


def parse_canon_term(s, i=0):
    c = s[i]
    if c == "'":
        name, i = _quoted(s, i + 1, "'")
        if i < len(s) and s[i] == "(":
            args = []
            i += 1
            while True:
                a, i = parse_canon_term(s, i)
                args.append(a)
                if s[i] == ",":
                    i += 1
                    continue
                if s[i] == ")":
                    return ("cmp", name, args), i + 1
                raise CanonError("bad compound at %d" % i)
        return ("atom", name), i
    if c == '"':
        txt, i = _quoted(s, i + 1, '"')
        return ("chars", [ord(x) for x in txt]), i
    if c == "[":
        if s[i + 1] == "]":
            return ("list", []), i + 2
        items = []
        i += 1
        while True:
            a, i = parse_canon_term(s, i)
            items.append(a)
            if s[i] == ",":
                i += 1
                continue
            if s[i] == "]":
                return ("list", items), i + 1
            raise CanonError("bad list at %d" % i)
    if c == "-" or c.isdigit():
        j = i + 1
        while j < len(s) and s[j].isdigit():
            j += 1
        return ("int", int(s[i:j])), j
    j = i
    while j < len(s) and (s[j].isalnum() or s[j] == "_" or s[j] == "$"):
        j += 1
    if j == i:
        raise CanonError("unexpected %r at %d" % (c, i))
    return ("var", s[i:j]), j


def _quoted(s, i, q):
    out = []
    while True:
        c = s[i]
        if c == q:
            return "".join(out), i + 1
        if c == "\\":
            d = s[i + 1]
            if d == "x":
                j = s.index("\\", i + 2)
                out.append(chr(int(s[i + 2:j], 16)))
                i = j + 1
            elif d == "n":
                out.append("\n"); i += 2
            elif d == "t":
                out.append("\t"); i += 2
            elif d == "r":
                out.append("\r"); i += 2
            else:
                out.append(d)
                i += 2
        else:
            out.append(c)
            i += 1


def parse_bindings(ans):
    if ans == "true":
        return {}
    if not (ans.startswith("{") and ans.endswith("}")):
        raise CanonError("not a binding set: " + ans[:80])
    s = ans[1:-1]
    out, i = {}, 0
    while i < len(s):
        j = s.index("=", i)
        name = s[i:j]
        t, i = parse_canon_term(s, j + 1)
        out[name] = t
        if i < len(s):
            if s[i] != ",":
                raise CanonError("bad separator")
            i += 1
    return out


# ---------------------------------------------------------------- rendering

def pl_char(cp):
    return "'\\x%x\\'" % cp


def pl_chars(cps):
    return "[" + ",".join(pl_char(c) for c in cps) + "]"


def pl_path(p):
    return '"%s"' % p


def render_op(tok, i, sv):
    """Prolog goal for script token `tok` (index i) on stream variable/alias `sv`."""
    R, E = "R%d" % i, "E%d" % i

    def wrap(g):
        return "catch(%s,error(%s,_),true)" % (g, E)
    op = tok[0]
    simple = {"gc": "get_char", "pc": "peek_char", "gk": "get_code", "pk": "peek_code", "gb": "get_byte", "pb": "peek_byte"}
    if op in simple:
        return wrap("%s(%s,%s)" % (simple[op], sv, R))
    if op == "n":
        return wrap("get_n_chars(%s,%d,%s)" % (sv, tok[1], R))
    if op == "ae":
        return wrap("(at_end_of_stream(%s)->%s=true;%s=false)" % (sv, R, R))
    if op == "es":
        return wrap("stream_property(%s,end_of_stream(%s))" % (sv, R))
    if op == "po":
        return wrap("(stream_property(%s,position(%s))->true;%s=none)" % (sv, R, R))
    if op == "sp":
        return wrap("(set_stream_position(%s,position_and_lines_read(%d,0))->%s=ok;%s=failed)" % (sv, tok[1], R, R))
    if op == "rt":
        return wrap("read(%s,%s)" % (sv, R))
    if op == "wc":
        return wrap("(put_char(%s,%s)->%s=ok;%s=failed)" % (sv, pl_char(tok[1]), R, R))
    if op == "wk":
        return wrap("(put_code(%s,%d)->%s=ok;%s=failed)" % (sv, tok[1], R, R))
    if op == "nl":
        return wrap("(nl(%s)->%s=ok;%s=failed)" % (sv, R, R))
    if op == "wb":
        return wrap("(put_byte(%s,%d)->%s=ok;%s=failed)" % (sv, tok[1], R, R))
    if op == "ww":   # write/2 of an atom
        return wrap("(atom_chars(A%d,%s),write(%s,A%d)->%s=ok;%s=failed)" % (i, pl_chars(tok[1]), sv, i, R, R))
    if op == "wf":   # format/3 ~s
        return wrap("(format(%s,\"~s\",[%s])->%s=ok;%s=failed)" % (sv, pl_chars(tok[1]), R, R))
    if op == "wa":   # format/3 ~a
        return wrap("(atom_chars(A%d,%s),format(%s,\"~a\",[A%d])->%s=ok;%s=failed)" % (i, pl_chars(tok[1]), sv, i, R, R))
    raise ValueError(tok)


def model_tok(tok):
    op = tok[0]
    if op in ("gc", "pc", "gk", "pk", "gb", "pb", "ae", "es", "po", "rt"):
        return op
    if op == "n":
        return "n%d" % tok[1]
    if op == "sp":
        return "sp%d" % tok[1]
    if op in ("wc", "wk"):
        return "wc%x" % tok[1]
    if op == "nl":
        return "wca"
    if op == "wb":
        return "wb%x" % tok[1]
    if op in ("ww", "wf", "wa"):
        return "ws" + ",".join("%x" % c for c in tok[1])
    if op == "RO":
        return "RO:%s:%s:%d" % (tok[1], tok[2], 1 if tok[3] else 0)
    raise ValueError(tok)


ERRMAP = {
    ("input", "stream"): "input_stream", ("input", "binary_stream"): "input_binary_stream",
    ("input", "text_stream"): "input_text_stream", ("input", "past_end_of_stream"): "input_past_end_of_stream",
    ("output", "stream"): "output_stream", ("output", "binary_stream"): "output_binary_stream",
    ("output", "text_stream"): "output_text_stream", ("reposition", "stream"): "reposition",
}


def err_token(t):
    if t[0] == "cmp" and t[1] == "permission_error" and len(t[2]) == 3 and t[2][0][0] == "atom" and t[2][1][0] == "atom":
        k = (t[2][0][1], t[2][1][1])
        if k in ERRMAP:
            return "E:" + ERRMAP[k]
    if t == ("cmp", "syntax_error", [("atom", "input_output_error")]):
        return "E:io_error"
    return "E:other(%r)" % (t,)


def chars_of(t):
    """a canonical char list -> code points, or None"""
    if t[0] == "chars":
        return list(t[1])
    if t[0] == "list":
        out = []
        for x in t[1]:
            if x[0] == "atom" and len(x[1]) == 1:
                out.append(ord(x[1]))
            else:
                return None
        return out
    if t == ("atom", "[]"):
        return []
    if t[0] == "cmp" and t[1] == "." and len(t[2]) == 2:
        h, tl = t[2]
        rest = chars_of(tl)
        if rest is not None and h[0] == "atom" and len(h[1]) == 1:
            return [ord(h[1])] + rest
    return None


def impl_token(tok, i, b):
    """result token of script token `tok` from the answer bindings `b`."""
    R, E = "R%d" % i, "E%d" % i
    op = tok[0]
    if E in b:
        return err_token(b[E])
    r = b.get(R)
    if r is None:
        return "unbound"
    if op in ("gc", "pc"):
        if r == ("atom", "end_of_file"):
            return "eof"
        if r[0] == "atom" and len(r[1]) == 1:
            return "c%x" % ord(r[1])
    elif op in ("gk", "pk"):
        if r == ("int", -1):
            return "eof"
        if r == ("atom", "end_of_file"):
            return "eofatom"
        if r[0] == "int":
            return "c%x" % r[1]
    elif op in ("gb", "pb"):
        if r == ("int", -1):
            return "eof"
        if r[0] == "int":
            return "b%x" % r[1]
    elif op == "n":
        cs = chars_of(r)
        if cs is not None:
            return "s" + ",".join("%x" % c for c in cs)
    elif op == "ae":
        if r == ("atom", "true"):
            return "T"
        if r == ("atom", "false"):
            return "F"
    elif op == "es":
        if r[0] == "atom":
            return "e:" + r[1]
    elif op == "po":
        if r == ("atom", "none"):
            return "fail"
        if r[0] == "cmp" and r[1] == "position_and_lines_read" and all(x[0] == "int" for x in r[2]):
            return "p%d,%d" % (r[2][0][1], r[2][1][1])
    elif op == "rt":
        if r == ("atom", "end_of_file"):
            return "eof"
        if r[0] == "atom":
            return "t" + r[1].encode("utf-8").hex()
    else:
        if r == ("atom", "ok"):
            return "ok"
    return "other(%r)" % (r,)


# ---------------------------------------------------------------- generators

MB = [0xE9, 0xDF, 0x80, 0x7FF, 0x800, 0x20AC, 0xFFFD, 0xFFFF, 0x10000, 0x1F600, 0x10FFFF, 0x3BB]
ASCII = [ord(c) for c in "abcxyzAZ019 .,;%'\"\\\t"]


def rand_text(rng, kind):
    """code points of a text content"""
    n = rng.choice([0, 1, 2, 3, 5, 8, 12, 20])
    if kind == "empty":
        return []
    cps = []
    for _ in range(max(n, 1)):
        x = rng.random()
        if x < 0.45:
            cps.append(rng.choice(ASCII))
        elif x < 0.70:
            cps.append(rng.choice(MB))
        elif x < 0.85:
            cps.append(10)
        elif x < 0.93:
            cps += [13, 10]
        else:
            cps.append(rng.choice([0, 1, 0x7F, 32]))
    if kind == "nl_end":
        cps.append(10)
    elif kind == "no_nl_end" and cps and cps[-1] == 10:
        cps.append(rng.choice(ASCII[:8]))
    elif kind == "bom":
        k = rng.choice(["start", "mid", "end", "only", "twice"])
        if k == "start":
            cps = [0xFEFF] + cps
        elif k == "mid":
            j = rng.randint(1, len(cps))
            cps = cps[:j] + [0xFEFF] + cps[j:]
        elif k == "end":
            cps = cps + [0xFEFF]
        elif k == "only":
            cps = [0xFEFF]
        else:
            cps = [0xFEFF, 0xFEFF] + cps
    return cps


LETTERS = [ord(c) for c in "abcdefghijklmnopqrstuvwxyz"] + [0xE9, 0xDF, 0x3BB]


def rand_terms(rng):
    """code points of a file of `atom.` units; the file ends right after an end token (plus newline)."""
    n = rng.choice([1, 2, 3, 4, 6])
    cps = []
    for k in range(n):
        if rng.random() < 0.25:
            cps += rng.choice([[10], [32], [10, 10], [9, 10], [32, 32]])
        cps += [rng.choice(LETTERS[:26])] + [rng.choice(LETTERS) for _ in range(rng.randint(0, 4))]
        cps.append(46)
        last = k == n - 1
        x = rng.random()
        if last:
            if x < 0.7:
                cps.append(10)
        else:
            if x < 0.75:
                cps.append(10)
            elif x < 0.9:
                cps.append(32)
            else:
                cps += [13, 10]
    return cps


def enc(cps):
    return "".join(chr(c) for c in cps).encode("utf-8")


def char_boundaries(data):
    out = [i for i, b in enumerate(data) if (b & 0xC0) != 0x80]
    return out + [len(data)]


def rand_read_script(rng, data, ty, terms, memory=False):
    n = rng.choice([3, 5, 8, 12, 16, 24])
    bounds = char_boundaries(data) if ty == "text" else list(range(len(data) + 1))
    toks = []
    textual = ty == "text"
    for _ in range(n):
        x = rng.random()
        wrong = rng.random() < 0.04
        use_text = textual != wrong
        if x < 0.30:
            toks.append((rng.choice(["gc", "gk"]) if use_text else "gb",))
        elif x < 0.50:
            toks.append((rng.choice(["pc", "pk"]) if use_text else "pb",))
        elif x < 0.60:
            toks.append(("n", rng.choice([0, 1, 2, 3, 5, 40])))
        elif x < 0.68:
            toks.append(("ae",))
        elif x < 0.76:
            toks.append(("es",))
        elif x < 0.88:
            toks.append(("po",))
        elif x < 0.93:
            if terms:
                toks.append(("rt",))
            else:
                toks.append(("gc",) if textual else ("gb",))
        else:
            if memory:
                toks.append(("po",))
            else:
                p = rng.choice(bounds) if rng.random() < 0.8 else len(data) + rng.randint(1, 3)
                toks.append(("sp", p))
    if terms and rng.random() < 0.5:
        toks = [("rt",) if t[0] in ("gc", "gk") and rng.random() < 0.6 else t for t in toks]
    # run past the end
    tail = rng.choice([0, 2, 3, 4])
    if rng.random() < 0.3:
        toks.append(("n", 1000))
    for _ in range(tail):
        toks.append((rng.choice(["gc", "pc", "gk", "ae", "es", "po"]) if textual else rng.choice(["gb", "pb", "ae", "es", "po"]),))
    return toks


def rand_write_script(rng, ty):
    n = rng.choice([0, 1, 2, 4, 7, 12])
    toks = []
    for _ in range(n):
        wrong = rng.random() < 0.06
        if (ty == "text") != wrong:
            x = rng.random()
            if x < 0.3:
                toks.append(("wc", rng.choice(ASCII + MB + [10, 0xFEFF] if rng.random() < 0.1 else ASCII + MB + [10])))
            elif x < 0.45:
                toks.append(("wk", rng.choice(ASCII + MB + [10])))
            elif x < 0.6:
                toks.append(("nl",))
            else:
                cps = [rng.choice(ASCII[:13] + MB + [10]) for _ in range(rng.randint(1, 5))]
                toks.append((rng.choice(["ww", "wf", "wa"]), cps))
        else:
            toks.append(("wb", rng.choice([0, 1, 10, 13, 0x7F, 0x80, 0xC3, 0xFF, rng.randint(0, 255)])))
    if ty == "binary":
        # format/3 does not check the stream type (not judged): wrong-type text output is put_char/put_code/nl/write
        toks = [t if t[0] not in ("wf", "wa") else ("ww", t[1]) for t in toks]
    return toks


EOFS = ["eof_code", "eof_code", "error", "reset"]


def open_opts(ty, eof, repos):
    return "[type(%s),eof_action(%s),reposition(%s)]" % (ty, eof, "true" if repos else "false")


def mk_case(cid, fam, spec, toks, data, path):
    """spec: dict(ty,eof,repos) for input families; toks: script tokens (may contain an RO token)."""
    goals = []
    sv = "S0"
    k = 0
    if fam == "file":
        goals.append("open(%s,read,S0,%s)" % (pl_path(path), open_opts(spec["ty"], spec["eof"], spec["repos"])))
        mspec = "in:%s:%s:%s:%d" % (data.hex(), spec["ty"], spec["eof"], 1 if spec["repos"] else 0)
    elif fam == "memory":
        sv = "user_input"
        mspec = "in:%s:text:eof_code:0" % data.hex()
    else:
        goals.append("open(%s,write,S0,[type(%s)])" % (pl_path(path), spec["ty"]))
        mspec = "out:%s" % spec["ty"]
    for i, t in enumerate(toks):
        if t[0] == "RO":
            k += 1
            goals.append("close(%s),open(%s,read,S%d,%s)" % (sv, pl_path(path), k, open_opts(t[1], t[2], t[3])))
            sv = "S%d" % k
        else:
            goals.append(render_op(t, i, sv))
    if fam != "memory":
        goals.append("close(%s)" % sv)
    q = "use_module(library(charsio)), " + ", ".join(goals) + "."
    impl = []
    if fam == "memory":
        impl.append("MS\t%s_m\t%s" % (cid, data.hex()))
    impl.append("Q\t%s\t2\t%s" % (cid, q))
    script = " ".join(model_tok(t) for t in toks)
    return {"id": cid, "family": fam, "spec": mspec, "script": script, "toks": [list(t) for t in toks],
            "path": path, "data": data.hex() if fam != "write" else "",
            "impl": impl, "model": ["RUN\t%s\t%s\t%s" % (cid, mspec, script)]}


def gen_cases(rng, tier, tmpdir):
    cases = []
    nfile, nwrite, nmem = (260, 130, 24) if tier == "quick" else (6000, 3000, 600)
    i = 0
    # fixed boundary cases first
    fixed = [
        ("text", b"", "eof_code"), ("text", b"", "error"), ("text", b"", "reset"),
        ("text", b"a", "eof_code"), ("text", "hé€\U0001F600\r\nz".encode(), "eof_code"),
        ("text", b"ab\ncd", "reset"), ("text", b"ab\ncd\n", "error"),
        ("binary", bytes(range(256)), "eof_code"), ("binary", b"", "error"), ("binary", b"\n\n", "reset"),
    ]
    for ty, data, eof in fixed:
        n = len(enc([]))  # noqa
        if ty == "text":
            nchars = len(data.decode())
            toks = [("po",), ("pc",), ("ae",)] + [("gc",), ("po",)] * (nchars + 1) + [("es",), ("pc",), ("gc",), ("es",), ("po",), ("gk",)]
        else:
            toks = [("po",), ("pb",), ("ae",)] + [("gb",)] * (len(data) + 1) + [("po",), ("es",), ("pb",), ("gb",), ("es",), ("po",), ("gb",)]
        cases.append(("file", {"ty": ty, "eof": eof, "repos": True}, toks, data))
    # files larger than the reader's 8 KiB chunk: the position must account for what is buffered
    big = ("abcdefg\n" * 700 + "h\u00e9\u20ac\n" * 900).encode()
    for eof in ("eof_code", "reset"):
        toks = [("n", 10), ("po",), ("gc",), ("po",), ("pc",), ("n", 5000), ("po",), ("gk",), ("po",), ("sp", 8190), ("gc",), ("po",),
                ("n", 9000), ("po",), ("es",), ("gc",), ("es",), ("gc",), ("po",)]
        cases.append(("file", {"ty": "text", "eof": eof, "repos": True}, toks, big))
    cases.append(("file", {"ty": "binary", "eof": "eof_code", "repos": True},
                  [("gb",), ("po",), ("n", 300), ("po",), ("pb",), ("gb",), ("po",), ("sp", 8190), ("gb",), ("gb",), ("gb",), ("po",), ("sp", 3), ("gb",), ("po",)], bytes(range(256)) * 40))
    for _ in range(nfile):
        x = rng.random()
        terms = False
        if x < 0.55:
            ty = "text"
            kind = rng.choice(["any", "any", "nl_end", "no_nl_end", "empty", "bom"])
            data = enc(rand_text(rng, kind))
        elif x < 0.75:
            ty, terms = "text", True
            data = enc(rand_terms(rng))
        else:
            ty = "binary"
            data = bytes(rng.choice([0, 10, 13, 0x41, 0x80, 0xC3, 0xFF, rng.randint(0, 255)]) for _ in range(rng.choice([0, 1, 2, 5, 9, 17])))
        spec = {"ty": ty, "eof": rng.choice(EOFS), "repos": rng.random() < 0.6}
        cases.append(("file", spec, rand_read_script(rng, data, ty, terms), data))
    for _ in range(nwrite):
        ty = "text" if rng.random() < 0.7 else "binary"
        w = rand_write_script(rng, ty)
        rty = ty if rng.random() < 0.85 else ("binary" if ty == "text" else "text")
        # what will have been written (to choose sensible read scripts)
        written = b""
        for t in w:
            if ty == "text" and t[0] in ("wc", "wk"):
                written += enc([t[1]])
            elif ty == "text" and t[0] == "nl":
                written += b"\n"
            elif ty == "text" and t[0] in ("ww", "wf", "wa"):
                written += enc(t[1])
            elif ty == "binary" and t[0] == "wb":
                written += bytes([t[1]])
        valid = True
        try:
            written.decode("utf-8")
        except UnicodeDecodeError:
            valid = False
        if rty == "text" and not valid:
            rty = "binary"
        # no eof_action(reset) here: if (under a defect) the written bytes are not valid UTF-8, get_char
        # with eof_action(reset) loops forever inside the builtin, where the watchdog cannot reach it
        ro = ("RO", rty, rng.choice(["eof_code", "eof_code", "error"]), rng.random() < 0.5)
        if rng.random() < 0.5:
            # read everything back
            if rty == "text":
                nchars = len(written.decode("utf-8"))
                r = [(rng.choice(["gc", "gk"]),) for _ in range(nchars + 2)] if rng.random() < 0.6 else [("n", nchars + 3), ("gc",), ("po",)]
            else:
                r = [("gb",)] * (len(written) + 2) if rng.random() < 0.6 else [("n", len(written) + 3), ("gb",), ("po",)]
        else:
            r = rand_read_script(rng, written, rty, False)
        cases.append(("write", {"ty": ty}, w + [ro] + r, written))
    for _ in range(nmem):
        terms = rng.random() < 0.3
        data = enc(rand_terms(rng)) if terms else enc(rand_text(rng, rng.choice(["any", "nl_end", "no_nl_end", "empty"])))
        cases.append(("memory", {"ty": "text", "eof": "eof_code", "repos": False}, rand_read_script(rng, data, "text", terms, memory=True), data))
    out = []
    for fam, spec, toks, data in cases:
        cid = "k%d" % i
        path = os.path.join(tmpdir, "%s.dat" % cid)
        if fam == "file":
            with open(path, "wb") as fh:
                fh.write(data)
        out.append(mk_case(cid, fam, spec, toks, data, path))
        i += 1
    return out


# ---------------------------------------------------------------- judging

ABSTRACTED = ("E:bad_encoding", "E:no_term")


def strip_lines(tok):
    if tok.startswith("p") and "," in tok:
        return tok.split(",")[0]
    return tok


def judge(c, ires, mres):
    """returns (status, detail): status in agree / skipped / lines / bom / memory / other / transient"""
    if c["family"] == "memory" and ires.get(c["id"] + "_m", "").startswith("bad-op"):
        return "skipped", "harness has no MS op (notes/hooks/fam_c19.rs not applied)"
    r = ires.get(c["id"], "missing")
    if transient(r):
        return "transient", r
    m = mres.get(c["id"], "missing").split(" ") if mres.get(c["id"], "") else []
    toks = [tuple(t) for t in c["toks"]]
    try:
        ans = r.split(" ;; ")[0]
        b = parse_bindings(ans)
    except Exception as e:  # whole query failed / raised
        return "other", "implementation answered %s (%s)" % (r[:300], e)
    it = []
    for i, t in enumerate(toks):
        it.append("reopened" if t[0] == "RO" else impl_token(t, i, b))
    # the judged prefix ends before the first abstracted model step (and before an empty term text)
    n = len(m)
    for k, x in enumerate(m):
        if x in ABSTRACTED or x == "t":
            n = k
            break
    it, mm = it[:n], m[:n]
    c["_impl_tokens"], c["_model_tokens"] = it, mm
    if len(m) != len(toks):
        return "other", "model produced %d tokens for %d operations: %s" % (len(m), len(toks), " ".join(m))
    if it == mm:
        return "agree", ""
    k = next(j for j in range(n) if it[j] != mm[j])
    detail = "operation %d (%s): implementation %s, model %s" % (k, " ".join(str(x) for x in toks[k]), it[k], mm[k])
    if c["family"] == "memory":
        return "memory", detail
    # known symptom classes: which normalisations make the sequences equal?
    for names in (("lines",), ("eofatom",), ("lines", "eofatom")):
        a, bb = it, mm
        for nm in names:
            a, bb = [NORMALISE[nm](x) for x in a], [NORMALISE[nm](x) for x in bb]
        if a == bb:
            return "+".join(names), detail
    if "efbbbf" in c.get("data", "") or any(t[0] in ("wc", "wk") and t[1] == 0xFEFF for t in toks):
        return "bom", detail
    return "other", detail


NORMALISE = {"lines": strip_lines, "eofatom": lambda x: "eof" if x == "eofatom" else x}

CLASS_TEXT = {
    "eofatom": ("violation", "get_code/peek_code on a text stream that is past its end with eof_action(eof_code) yield the atom end_of_file instead of -1"),
    "lines": ("violation", "lines_read (second component of stream_property position) does not count the newlines consumed by get_char/get_code/get_n_chars; only read_term advances it"),
    "bom": ("violation", "character input skips U+FEFF (open_parsing_stream at every get_char/get_code/get_n_chars): a written U+FEFF is not read back and get_char does not return what peek_char showed"),
    "memory": ("violation", "in-memory stream: position / end_of_stream look at the underlying cursor, which is at the end as soon as the reader has buffered the text; get_char returns end_of_file while characters are unread"),
}


def run(ctx):
    rng, tier = ctx["rng"], ctx["tier"]
    rep = diff.replay_case(ctx)
    tmpdir = os.path.join(TMP_ROOT, "s%d_%d" % (ctx["seed"], os.getpid()))
    os.makedirs(tmpdir, exist_ok=True)
    try:
        if rep is not None:
            cases = rep
            for c in cases:
                c["path"] = os.path.join(tmpdir, os.path.basename(c["path"]))
                # re-render against the new scratch path
                old = None
                for l in c["impl"]:
                    if l.startswith("Q\t"):
                        old = l
                if c["family"] == "file":
                    with open(c["path"], "wb") as fh:
                        fh.write(bytes.fromhex(c["data"]))
                if old is not None:
                    import re
                    c["impl"] = [re.sub(r'"/[^"]*/(k\d+\.dat)"', lambda m: pl_path(os.path.join(tmpdir, m.group(1))), l) for l in c["impl"]]
        else:
            cases = gen_cases(rng, tier, tmpdir)
            for c in diff.load_corpus("C19"):
                cases.append(c)
        impl, model = diff.run_cases(cases, impl_env=IMPL_ENV)
        flaky = [c for c in cases if transient(impl.get(c["id"], "missing"))]
        retried = len(flaky)
        for c in flaky[:500]:
            if c["family"] == "write" and os.path.exists(c["path"]):
                os.remove(c["path"])
            impl2 = core.run_impl(c["impl"], env=IMPL_ENV)
            impl.update(impl2)
    finally:
        shutil.rmtree(tmpdir, ignore_errors=True)
    findings, agree, skipped = [], 0, 0
    distinct = set()
    classes = {}
    ops_hit = {}
    fam_count = {}
    for c in cases:
        st, detail = judge(c, impl, model)
        classes[st] = classes.get(st, 0) + 1
        fam_count[c["family"]] = fam_count.get(c["family"], 0) + 1
        toks = [tuple(t) for t in c["toks"]]
        for t in toks:
            ops_hit[t[0]] = ops_hit.get(t[0], 0) + 1
        if rep is not None:
            print("replay %s family=%s spec=%s\n script: %s\n impl  : %s\n model : %s\n status: %s %s" % (
                c["id"], c["family"], c["spec"], c["script"], " ".join(c.get("_impl_tokens", [])),
                " ".join(c.get("_model_tokens", [])), st, detail))
        if st == "skipped":
            skipped += 1
            continue
        kinds = {t[0] for t in toks}
        if (kinds & {"pc", "pk", "pb", "po", "ae", "es"}) and (kinds & {"gc", "gk", "gb", "n", "rt"}):
            distinct.add((c["spec"], c["script"]))
        if st == "agree":
            agree += 1
            continue
        cc = {k: c[k] for k in ("id", "family", "spec", "script", "toks", "path", "data", "impl", "model")}
        if all(x in CLASS_TEXT for x in st.split("+")):
            for x in st.split("+"):
                kind, text = CLASS_TEXT[x]
                findings.append(core.Finding(kind, {"family": c["family"], "class": x}, text + " — e.g. " + detail, cc))
        elif st == "transient":
            findings.append(core.Finding("disagreement", {"family": c["family"], "class": "no-answer", "id": c["id"]},
                                         "the implementation gave no answer twice: " + detail, cc))
        else:
            findings.append(core.Finding("disagreement", {"family": c["family"], "class": "other", "id": c["id"], "what": detail[:160]},
                                         "model and implementation differ: " + detail, cc))
    judged = len(cases) - skipped
    return {
        "evaluations": judged,
        "distinct_nontrivial": len(distinct),
        "rule": "random scripts of stream builtins on input files (text incl. multi-byte, CRLF, empty, no final newline, U+FEFF; `atom.` clause files; binary with all byte values) for every eof_action, write-then-read-back scripts, and the same read scripts on an in-memory user_input; non-trivial = the script has a peek/position/end-of-stream observation and a consuming read; distinct by (open spec with content, script)",
        "samples": [{"family": c["family"], "spec": c["spec"][:80], "script": c["script"][:120]} for c in cases[10:14]],
        "traces_validated_against_impl": agree,
        "disagreements_checked": judged - agree,
        "retried_after_timeout": retried,
        "families": fam_count,
        "status_counts": classes,
        "memory_cases_skipped_no_hook": skipped,
        "operations_hit": ops_hit,
        "findings": findings,
    }
