"""C55 — writeq and print quote and space exactly as ISO requires.

Families (all texts travel as lists of code points, never as raw text):

* `atom`: one atom text. The implementation writes it with the option sets of writeq/1
  (`quoted(true),numbervars(true)`), write_canonical/1 (`quoted(true),ignore_ops(true)`),
  write_term/2 `quoted(true)` and write/1 (`numbervars(true)`) through write_term_to_chars/3 (the same
  `HCPrinter` configuration as builtins.pl passes to '$write_term'), reads the quoted text back, and
  reads the *raw* text back. The model (`drv_C55 atom`) gives the text `printAtom` produces, the
  quoting decision `nonQuotedToken` (proved ⇔ the ISO condition), and what its token reader reads.
  Compared exactly: the four texts; read-back = the atom; "written unquoted ⇔ the raw text reads
  back as that atom" (soundness and minimality on the implementation itself).
* `adj`: one operator term `X op Y`, `op X`, `X op` for a freshly declared user operator (or a
  default one) with non-operator operands: the implementation's text must equal the operand and
  operator texts joined by the model's `appendTok` (= `requires_space`) and must lex (model) to
  exactly those tokens.
* `gold`: fixed terms from ISO 7.10.5 / the conformity suite (`a- -1`, `- (1)`, `1- -1`, `\\+a`,
  `- - a`, …): the model lexer must read the implementation's text as the expected token list
  and the implementation must read it back as the same term.
* `file`: a few atoms through the real writeq/2, write_canonical/2, write/2 on a file stream.

Unicode classes of non-ASCII characters are *parameters* of the model: their values are asked from
the implementation's char_type/2 (`alphabetic`, `numeric`, `upper`, `whitespace`, `control`, which
call Rust's `char` methods directly) in a first pass.
"""
import itertools
import os
import re
import sys

from .. import core, diff

sys.path.insert(0, os.path.join(core.ROOT, "extract"))

LEVEL = "proof"
TRUSTED_BASE = [
    "extract/charclass.py: token-level translation of the macro_rules! character classes of src/parser/macros.rs into Lean defs (regenerated and re-checked every run)",
    "Rust std's char::is_alphabetic/is_numeric/is_uppercase/is_whitespace/is_control: parameters of the model (UC); assumed to answer as ASCII says below 128 (UC.WF); non-ASCII values are read from the implementation's char_type/2",
    "writeq/1, write_canonical/1, write/1 are tied through write_term_to_chars/3 with the option values builtins.pl passes to '$write_term' (plus a small sample through real file streams)",
    "vlib/props/C55.py renders one abstract case as Prolog text (atom_codes/2 on code lists) and as driver tokens (decimal code points)",
]
ASSUMPTIONS = [
    "print/1 does not exist in this scryer-prolog (existence_error); the statement's print part is covered by write_term/2 with quoted(true) (what portray_clause/format ~q use)",
    "the model lexer treats end of input as a token delimiter; every read-back appends ' .'",
    "adjacency is checked for atom/operator/number/variable-name tokens around one operator; whole-term bracketing is C15",
]

PRELUDE = "use_module(library(charsio)),use_module(library(lists))"

# 40-character alphabet covering every class the proofs single out
ALPHA40 = [
    0x61, 0x7A, 0x41, 0x5F, 0x30, 0x31, 0xE9, 0xC9,          # a z A _ 0 1 é É
    0x2B, 0x2D, 0x2A, 0x2F, 0x2E, 0x5C, 0x3D, 0x23, 0x3A,    # + - * / . \ = # :
    0x21, 0x3B, 0x2C, 0x7C, 0x5B, 0x5D, 0x7B, 0x7D, 0x28, 0x29, 0x25,   # ! ; , | [ ] { } ( ) %
    0x20, 0x0A, 0x09,                                        # space nl tab
    0x27, 0x22, 0x60,                                        # ' " `
    0x07, 0x7F, 0xA0,                                        # bel del nbsp
    0x20AC, 0x2177, 0x663,                                   # € ⅷ ٣
]
EXTRA = [0x62, 0x5A, 0x39, 0x24, 0x26, 0x3C, 0x3E, 0x3F, 0x40, 0x5E, 0x7E, 0x0D, 0x0B, 0x0C, 0x08, 0x00, 0x1B,
         0x85, 0x2028, 0x3000, 0x200B, 0x1F600, 0xFFFE, 0x10FFFF, 0x1C5, 0xAA, 0x301, 0xBD, 0x2167, 0x3BB, 0x39B,
         0x4E2D, 0xDF, 0x78, 0x65, 0x45]
FIXED_ATOMS = ["", "[]", "{}", "!", ";", ",", "|", "||", "[", "]", "{", "}", "(", ")", "%", ".", "..", ".a", ". ", ".%",
               "/*", "/**/", "/* */", "//*", "*/", "+/*", "/", "\\", "\\\\", "''", "'", "'''", "a'b", "a''", "''a", "\"", "`",
               "a b", "aB_1", "Ab", "_a", "_", "0", "0'a", "0x1", "1e5", "1.0", "-1", "- 1", "-", "--", "-a", "a-", "=..",
               "a.b", "a.", "[ ]", "[]a", "{ }", "{}{}", "!!", ";;", "!a", "a!", "a;", "\\+", "hello world", "\n", "\\n", " ",
               "a\\\nb", "a\x00b", "\x7f", "é", "É", "éÉ", "ⅷ", "Ⅷ", "a€", "€", "😀", "λx", "中文", "á", "́a", "ª", "½", "a½",
               "٣", "a٣", "\xa0", "a\xa0b", " ", "​", "end_of_file", "dynamic", "is", "mod", "rdiv", "xfx", "e", "E",
               "a%b", "a/*b*/", "%a", "'a'", "\"a\"", "`a`", "a`b", "a\"b", "f(x)", "a,b", "a|b", "[a]", "{a}"]


def enc(cps):
    return ",".join(str(c) for c in cps) if cps else "-"


def dec(s):
    s = s.strip()
    return [] if s in ("-", "") else [int(x) for x in s.split(",")]


def codes_pl(cps):
    return "[" + ",".join(str(c) for c in cps) + "]"


def parse_codes(s):
    s = s.strip()
    if not (s.startswith("[") and s.endswith("]")):
        return None
    s = s[1:-1].strip()
    try:
        return [int(x) for x in s.split(",")] if s else []
    except ValueError:
        return None


def split_top(res, n):
    """result `{A1=..,A2=..,…}`: the first n bindings (code lists or quoted atoms, no nesting)."""
    m = re.match(r"\{" + ",".join(r"A%d=(\[[0-9,]*\]|'[a-z_]*'|-?[0-9]+)" % (i + 1) for i in range(n)), res)
    return list(m.groups()) if m else None


def transient(r):
    return r == "missing" or r.startswith("timeout") or r.startswith("abort") or r.startswith("skipped") or r.startswith("panic")


def hline(cid, body, n):
    """harness line for a goal whose results are the variables A1..An of `body`: the body runs inside findall/3 so
    that no intermediate (possibly partial-list) term is bound to a query variable; backslashes are escaped for the
    harness' field syntax."""
    for i in range(n, 0, -1):
        body = re.sub(r"\bA%d\b" % i, "ZO%d" % i, body)
    outs_in = ",".join("ZO%d" % i for i in range(1, n + 1))
    outs = ",".join("A%d" % i for i in range(1, n + 1))
    q = "%s,findall(x(%s),(%s),[x(%s)])." % (PRELUDE, outs_in, body, outs)
    q = q.replace("\\", "\\\\").replace("\n", "\\n").replace("\t", "\\t").replace("\r", "\\r")
    return "Q\t%s\t1\t%s" % (cid, q)


# ------------------------------------------------------------------ cases

def atom_case(i, cps):
    cid = "a%d" % i
    q = ("atom_codes(Z,%s),"
         "write_term_to_chars(Z,[quoted(true),numbervars(true)],ZQ),maplist(char_code,ZQ,A1),"
         "write_term_to_chars(Z,[quoted(true),ignore_ops(true)],ZK),maplist(char_code,ZK,A2),"
         "write_term_to_chars(Z,[quoted(true)],ZT),maplist(char_code,ZT,A3),"
         "write_term_to_chars(Z,[numbervars(true)],ZW),maplist(char_code,ZW,A4),"
         "append(ZQ,\" .\",ZQ1),catch((read_from_chars(ZQ1,ZB),(ZB==Z->A5=same;A5=diff)),error(_,_),A5=err),"
         "atom_chars(Z,ZR),append(ZR,\" .\",ZR1),catch((read_from_chars(ZR1,ZC),(ZC==Z->A6=same;A6=diff)),error(_,_),A6=err)"
         % codes_pl(cps))
    return {"id": cid, "kind": "atom", "cps": cps, "impl": [hline(cid, q, 6)]}


OPERANDS = [("a", "a"), ("b1", "b1"), ("foo", "foo"), ("'A'", "A"), ("'a b'", "a b"), ("''", ""), ("[]", "[]"), ("'{}'", "{}"),
            ("'\\n'", "\n"), ("é", "é"), ("#", "#"), ("'$a'", "$a"), ("'a$'", "a$"), ("'0'", "0"), ("'a''b'", "a'b"),
            ("'_x'", "_x"), ("!", "!"), ("a0", "a0"), ("'a+'", "a+"), ("&", "&"), ("'.a'", ".a"), ("'#.'", "#."), ("'\\\\\\\\'", "\\\\")]
NUMBERS = ["0", "1", "7", "10", "123", "100000000000000000000", "00"]
OPNAMES = [("foo", "foo"), ("a1", "a1"), ("op0", "op0"), ("'A'", "A"), ("'a b'", "a b"), ("'a+'", "a+"), ("'+a'", "+a"),
           ("++", "++"), ("-*", "-*"), ("=.", "=."), ("\\-", "\\-"), ("\\\\", "\\\\"), ("#", "#"), ("***", "***"), ("--->", "--->"),
           ("::", "::"), ("^^", "^^"), ("@", "@"), ("<-", "<-"), ("'/*'", "/*"), ("..", ".."), ("'-.'", "-."), ("'0'", "0"),
           ("'x0'", "x0"), ("'_'", "_"), ("'\\n'", "\n"), ("''''", "'"), ("é", "é"), ("'É'", "É"), ("'e'", "e"),
           ("'$$'", "$$"), ("modd", "modd"), ("iss", "iss"), ("=+", "=+"), ("'1'", "1"), ("'0x'", "0x"), ("' '", " ")]
INFIX = ["xfx", "xfy", "yfx"]


def adj_items(rng, n):
    out = []
    for _ in range(n):
        op_pl, op_txt = rng.choice(OPNAMES)
        kind = rng.choice(["in", "in", "in", "pre", "post"])
        typ = rng.choice(INFIX) if kind == "in" else rng.choice(["fy", "fx"] if kind == "pre" else ["xf", "yf"])
        pri = rng.choice([1, 100, 200, 400, 700, 999])

        def operand(allow_neg):
            r = rng.random()
            if r < 0.55:
                pl, txt = rng.choice(OPERANDS)
                if txt == op_txt:
                    pl, txt = "a", "a"
                return pl, ("atom", txt)
            if r < 0.8:
                nn = rng.choice(NUMBERS)
                return nn, ("text", nn.lstrip("0") or "0")
            if r < 0.9 and allow_neg:
                nn = rng.choice(["1", "25", "100000000000000000000"])
                return "-" + nn, ("text", "-" + nn)
            k = rng.choice([0, 3, 25, 26, 27, 700])
            return "'$VAR'(%d)" % k, ("text", chr(65 + k % 26) + (str(k // 26) if k >= 26 else ""))

        x_pl, x_tok = operand(True)
        y_pl, y_tok = operand(True)
        optok = ("atom", op_txt)
        if kind == "in":
            term, toks = "%s(%s,%s)" % (op_pl, x_pl, y_pl), [x_tok, optok, y_tok]
        elif kind == "pre":
            # a prefix minus/plus in front of a number is special (brackets): gold family covers it
            if op_txt in ("-", "+") and x_tok[0] == "text" and x_tok[1][0] in "-0123456789":
                x_pl, x_tok = "a", ("atom", "a")
            term, toks = "%s(%s)" % (op_pl, x_pl), [optok, x_tok]
        else:
            term, toks = "%s(%s)" % (op_pl, x_pl), [x_tok, optok]
        out.append({"op_pl": op_pl, "typ": typ, "pri": pri, "term": term, "toks": toks})
    return out


def adj_case(i, it):
    cid = "j%d" % i
    q = ("catch((op(%d,%s,%s),ZD=yes),error(_,_),ZD=no),ZT = (%s),"
         "write_term_to_chars(ZT,[quoted(true),numbervars(true)],ZQ),maplist(char_code,ZQ,A1),"
         "append(ZQ,\" .\",ZQ1),catch((read_from_chars(ZQ1,ZB),(ZB==ZT->A2=same;A2=diff)),error(_,_),A2=err),"
         "(ZD==yes->A3=declared;A3=refused),catch(op(0,%s,%s),_,true)"
         % (it["pri"], it["typ"], it["op_pl"], it["term"], it["typ"], it["op_pl"]))
    return {"id": cid, "kind": "adj", "it": it, "impl": [hline(cid, q, 3)]}


# term text, expected token list (model Tok syntax, texts as strings)
GOLD = [
    ("a- -1", "-(a,-1)", ["name:a", "name:-", "name:-", "int:1"]),
    ("- (1)", "-(1)", ["name:-", "punct:(", "int:1", "punct:)"]),
    ("1- -1", "-(1,-1)", ["int:1", "name:-", "name:-", "int:1"]),
    ("\\+a", "\\+(a)", ["name:\\+", "name:a"]),
    ("- - a", "-(-(a))", ["name:-", "name:-", "name:a"]),
    ("- -1", "-(-1)", ["name:-", "name:-", "int:1"]),
    ("- - 1", "-(-(1))", ["name:-", "name:-", "punct:(", "int:1", "punct:)"]),
    ("1 - 2", "-(1,2)", ["int:1", "name:-", "int:2"]),
    ("a* *", "*(a,*)", None),
    ("- (-)", "-(-)", ["name:-", "punct:(", "name:-", "punct:)"]),
    ("\\+ (-)", "\\+(-)", ["name:\\+", "punct:(", "name:-", "punct:)"]),
    ("f(-)", "f(-)", ["name:f", "openct", "name:-", "punct:)"]),
    ("[-]", "'.'(-,[])", ["punct:[", "name:-", "punct:]"]),
    ("f(:-)", "f(:-)", ["name:f", "openct", "name::-", "punct:)"]),
    ("1 rdiv 2", "rdiv(1,2)", ["int:1", "name:rdiv", "int:2"]),
    ("a mod b", "mod(a,b)", ["name:a", "name:mod", "name:b"]),
    ("a=(\\+b)", "=(a,\\+(b))", ["name:a", "name:=", "openct", "name:\\+", "name:b", "punct:)"]),
    ("a= \\b", "=(a,\\(b))", ["name:a", "name:=", "name:\\", "name:b"]),
    ("2** -1", "**(2,-1)", ["int:2", "name:**", "name:-", "int:1"]),
    ("2^ -1", "^(2,-1)", ["int:2", "name:^", "name:-", "int:1"]),
    ("a:b:c", ":(a,:(b,c))", ["name:a", "name::", "name:b", "name::", "name:c"]),
    ("1.0e10", "1.0e10", None),
    ("[a|b]", "'.'(a,b)", ["punct:[", "name:a", "punct:|", "name:b", "punct:]"]),
    ("{a}", "{}(a)", ["punct:{", "name:a", "punct:}"]),
    ("'{}'(a,b)", "{}(a,b)", ["punct:{", "punct:}", "openct", "name:a", "punct:,", "name:b", "punct:)"]),
    ("a,b", "','(a,b)", ["name:a", "punct:,", "name:b"]),
    ("','", "','", ["name:,"]),
    ("'|'", "'|'", ["name:|"]),
    ("f(',')", "f(',')", ["name:f", "openct", "name:,", "punct:)"]),
    ("f((a,b))", "f(','(a,b))", ["name:f", "openct", "openct", "name:a", "punct:,", "name:b", "punct:)", "punct:)"]),
    ("f((a:-b))", "f(:-(a,b))", ["name:f", "openct", "openct", "name:a", "name::-", "name:b", "punct:)", "punct:)"]),
    ("- a", "-(a)", ["name:-", "name:a"]),
    ("-(2)^2", "^(-(2),2)", None),
    ("- (2^2)", "-(^(2,2))", None),
    ("1 = '\\\\'", "=(1,'\\\\')", ["int:1", "name:=", "openct", "name:\\", "punct:)"]),
    ("0'a", "0'a", ["int:97"]),
    ("'0'''", "'0'''", ["name:0'"]),
    ("x = 'A'", "=(x,'A')", ["name:x", "name:=", "name:A"]),
    ("[] = '[]'", "=([],'[]')", ["punct:[", "punct:]", "name:=", "punct:[", "punct:]"]),
    ("f('$VAR'(1)) + 'B'", "+(f(x),'B')", ["name:f", "openct", "name:x", "punct:)", "name:+", "name:B"]),
    ("a = [b]", "=(a,[b])", ["name:a", "name:=", "punct:[", "name:b", "punct:]"]),
    ("a- (b:-c)", "-(a,:-(b,c))", ["name:a", "name:-", "openct", "name:b", "name::-", "name:c", "punct:)"]),
    ("a mod (b,c)", "mod(a,','(b,c))", ["name:a", "name:mod", "punct:(", "name:b", "punct:,", "name:c", "punct:)"]),
]


def tok_show(t):
    if t in ("openct", "end"):
        return t
    k, v = t.split(":", 1)
    if k == "int":
        return "int(%s)" % v
    if k == "punct":
        return "punct(%d)" % ord(v)
    return "%s(%s)" % (k, enc([ord(c) for c in v]))


def gold_case(i, g):
    cid = "g%d" % i
    q = ("ZT = (%s),write_term_to_chars(ZT,[quoted(true),numbervars(true)],ZQ),maplist(char_code,ZQ,A1),"
         "append(ZQ,\" .\",ZQ1),catch((read_from_chars(ZQ1,ZB),(ZB==ZT->A2=same;A2=diff)),error(_,_),A2=err)"
         % g[1])
    return {"id": cid, "kind": "gold", "gold": list(g), "impl": [hline(cid, q, 2)]}


def file_case(i, cps, tmpdir):
    cid = "f%d" % i
    path = os.path.join(tmpdir, "c55_%d_%s.txt" % (os.getpid(), cid))
    q = ("atom_codes(Z,%s),"
         "open(\"%s\",write,ZS1),writeq(ZS1,Z),close(ZS1),open(\"%s\",read,ZI1),get_n_chars(ZI1,_,ZC1),close(ZI1),maplist(char_code,ZC1,A1),"
         "open(\"%s\",write,ZS2),write_canonical(ZS2,Z),close(ZS2),open(\"%s\",read,ZI2),get_n_chars(ZI2,_,ZC2),close(ZI2),maplist(char_code,ZC2,A2),"
         "open(\"%s\",write,ZS3),write(ZS3,Z),close(ZS3),open(\"%s\",read,ZI3),get_n_chars(ZI3,_,ZC3),close(ZI3),maplist(char_code,ZC3,A3)"
         % (codes_pl(cps), path, path, path, path, path, path))
    return {"id": cid, "kind": "file", "cps": cps, "path": path, "impl": [hline(cid, q, 3)]}


# ------------------------------------------------------------------ extraction hook (core.run_check step 2)

def repo_root():
    """the source tree the harness under test was built from (tools/mutant_check.sh builds a private one)."""
    hb = os.environ.get("SV_HARNESS_BIN")
    if hb:
        w = os.path.dirname(os.path.dirname(os.path.dirname(os.path.abspath(hb))))
        if os.path.isdir(os.path.join(w, "repo", "src")):
            return os.path.join(w, "repo")
    return "/repo"


def extract():
    import charclass
    changed, err = charclass.write(os.path.join(repo_root(), "src", "parser", "macros.rs"))
    if err:
        core.log("[C55] extractor cannot parse src/parser/macros.rs: %s (falling back to the stored classes)" % err)
        return [core.Finding("disagreement", {"extractor": "cannot-parse"},
                             "extract/charclass.py cannot parse /repo/src/parser/macros.rs: " + err, None)]
    if changed:
        core.log("[C55] Extracted/CharClass.lean regenerated (source classes changed)")
    return []


# ------------------------------------------------------------------ run

def gen_atoms(ctx):
    rng = ctx["rng"]
    atoms = [[ord(c) for c in s] for s in FIXED_ATOMS]
    n_exh = 3 if ctx["tier"] == "thorough" else 2
    for n in range(1, n_exh + 1):
        for t in itertools.product(ALPHA40, repeat=n):
            atoms.append(list(t))
    pool = ALPHA40 + EXTRA
    n_rand = 30000 if ctx["tier"] == "thorough" else 2500
    for _ in range(n_rand):
        r = rng.random()
        ln = rng.choice([1, 2, 3, 3, 4, 4, 5, 6, 8, 12])
        if r < 0.25:     # letter-digit-ish
            sub = [c for c in pool if chr(c).isalnum() or c == 0x5F] + [0x20]
        elif r < 0.45:   # graphic-ish
            sub = [0x2B, 0x2D, 0x2A, 0x2F, 0x2E, 0x5C, 0x3D, 0x23, 0x3A, 0x24, 0x26, 0x3C, 0x3E, 0x3F, 0x40, 0x5E, 0x7E, 0x25, 0x61]
        else:
            sub = pool
        atoms.append([rng.choice(sub) for _ in range(ln)])
    seen, out = set(), []
    for a in atoms:
        k = tuple(a)
        if k not in seen:
            seen.add(k)
            out.append(a)
    return out


def uc_table(cps, impl_env=None):
    """ask the implementation for Rust's char predicates of every non-ASCII code point."""
    cps = sorted(c for c in cps if c >= 128)
    cases = []
    for i in range(0, len(cps), 40):
        chunk = cps[i:i + 40]
        q = ("%s,findall(ZC-ZTs,(member(ZC,%s),char_code(ZCh,ZC),findall(ZT,(member(ZT,[alphabetic,numeric,upper,whitespace,control]),"
             "char_type(ZCh,ZT)),ZTs)),A1)." % (PRELUDE, codes_pl(chunk)))
        cases.append({"id": "u%d" % i, "impl": ["Q\tu%d\t1\t%s" % (i, q)]})
    impl, _ = diff.run_cases(cases)
    bits = {"alphabetic": 1, "numeric": 2, "upper": 4, "whitespace": 8, "control": 16}
    tbl = {}
    for c in cases:
        r = impl.get(c["id"], "missing")
        for m in re.finditer(r"'-'\((\d+),(\[[^\]]*\]|\"[^\"]*\")\)", r):
            v = 0
            for name, b in bits.items():
                if "'" + name + "'" in m.group(2):
                    v |= b
            tbl[int(m.group(1))] = v
    missing = [c for c in cps if c not in tbl]
    return tbl, missing


def uc_arg(tbl, cps):
    e = sorted(set(c for c in cps if c >= 128))
    return ",".join("%d:%d" % (c, tbl.get(c, 0)) for c in e) if e else "-"


ISO_GRAPHIC = set("#$&*+-./:<=>?@^~\\")


def iso_unquoted_ascii(s):
    """ISO 6.4.2 / 7.10.5 for a pure-ASCII text, written independently of the model (None: not ASCII)."""
    if any(ord(ch) >= 128 for ch in s):
        return None
    if s in ("[]", "{}", "!", ";"):
        return True
    if not s:
        return False
    if "a" <= s[0] <= "z" and all(ch.isalnum() or ch == "_" for ch in s):
        return True
    if all(ch in ISO_GRAPHIC for ch in s) and not s.startswith("/*") and s != ".":
        return True
    return False


def atom_class(cps):
    s = "".join(chr(c) for c in cps)
    if not s:
        return "empty"
    tags = set()
    for ch in s:
        o = ord(ch)
        if o >= 128:
            tags.add("U")
        elif ch.isalnum() or ch == "_":
            tags.add("L")
        elif ch in "#$&*+-./:<=>?@^~\\":
            tags.add("G")
        elif ch in "!(),;[]{}|%":
            tags.add("S")
        elif ch in "'\"`":
            tags.add("Q")
        else:
            tags.add("C")
    return "".join(sorted(tags))


def run(ctx):
    rng = ctx["rng"]
    tmpdir = os.path.join(core.BUILD, "c55tmp")
    os.makedirs(tmpdir, exist_ok=True)
    replay = diff.replay_case(ctx)
    cases = []
    if replay is not None:
        for k, c in enumerate(replay):
            if c.get("kind") == "atom":
                cases.append(atom_case(k, c["cps"]))
            elif c.get("kind") == "adj":
                cases.append(adj_case(k, c["it"]))
            elif c.get("kind") == "gold":
                cases.append(gold_case(k, tuple(c["gold"])))
            elif c.get("kind") == "file":
                cases.append(file_case(k, c["cps"], tmpdir))
    else:
        corpus = diff.load_corpus("C55")
        atoms = [c["cps"] for c in corpus if c.get("kind") == "atom"] + gen_atoms(ctx)
        cases += [atom_case(i, a) for i, a in enumerate(atoms)]
        cases += [adj_case(i, it) for i, it in enumerate(adj_items(rng, 6000 if ctx["tier"] == "thorough" else 700))]
        cases += [gold_case(i, g) for i, g in enumerate(GOLD)]
        fa = [[ord(c) for c in s] for s in ["a", "A", "a b", "", "[]", "''", "'", "\n", "é", "É", "+", "/*", ".", "\\", "a\x07", "😀", "\xa0"]]
        cases += [file_case(i, a, tmpdir) for i, a in enumerate(fa)]

    # pass 1: Unicode parameter values
    allcps = set()
    for c in cases:
        if "cps" in c:
            allcps |= set(c["cps"])
        if c["kind"] == "adj":
            for k, v in c["it"]["toks"]:
                allcps |= set(ord(ch) for ch in v)
        if c["kind"] == "gold":
            allcps |= set(ord(ch) for ch in c["gold"][0] + c["gold"][1])
    tbl, missing = uc_table(allcps)
    findings = []
    if missing:
        core.log("[C55] char_type/2 gave no answer for code points %r" % missing[:10])

    # model lines
    for c in cases:
        if c["kind"] == "atom" or c["kind"] == "file":
            c["model"] = ["atom\tm%s\t%s\t%s" % (c["id"], uc_arg(tbl, c["cps"]), enc(c["cps"]))]
        elif c["kind"] == "adj":
            texts = []
            model = []
            for k, (kind, v) in enumerate(c["it"]["toks"]):
                cps = [ord(ch) for ch in v]
                if kind == "atom":
                    model.append("atom\tm%s_%d\t%s\t%s" % (c["id"], k, uc_arg(tbl, cps), enc(cps)))
            c["model"] = model
    t_impl, t_model = diff.run_cases(cases)
    nout = {"atom": 6, "adj": 3, "gold": 2, "file": 3}
    flaky = [c for c in cases if transient(t_impl.get(c["id"], "missing"))
             or split_top(t_impl.get(c["id"], ""), nout[c["kind"]]) is None]
    retried = len(flaky)
    if flaky:
        i2, _ = diff.run_cases([{"id": c["id"], "impl": c["impl"]} for c in flaky[:3000]], parallel=False)
        t_impl.update(i2)

    # second model pass for adj/gold: needs the printed atom texts / the implementation's text
    second = []
    for c in cases:
        r = t_impl.get(c["id"], "missing")
        if c["kind"] == "adj":
            texts = []
            for k, (kind, v) in enumerate(c["it"]["toks"]):
                if kind == "atom":
                    m = re.search(r"wqfix=(\S+)", t_model.get("m%s_%d" % (c["id"], k), ""))
                    texts.append(m.group(1) if m else "?")
                elif v[0].isalpha():
                    texts.append(enc([ord(ch) for ch in v]) + "@36,86,65,82")   # ambiguity check sees '$VAR'
                else:
                    texts.append(enc([ord(ch) for ch in v]))
            c["texts"] = texts
            allc = [ord(ch) for _, v in c["it"]["toks"] for ch in v]
            second.append("seq\ts%s\t%s\t%s" % (c["id"], uc_arg(tbl, allc), ";".join(texts)))
        elif c["kind"] == "gold":
            g = split_top(r, 2)
            if g and parse_codes(g[0]) is not None:
                cps = parse_codes(g[0])
                second.append("lex\ts%s\t%s\t%s" % (c["id"], uc_arg(tbl, cps), enc(cps)))
    m2 = core.run_model(second) if second else {}

    agree = total = 0
    distinct = set()
    classes, branches = {}, {"quoted": 0, "unquoted": 0, "escape_hex": 0, "escape_sym": 0, "self_reads": 0, "adj_space": 0,
                             "adj_nospace": 0, "op_refused": 0, "two_quotes_defect": 0}
    samples = []

    def add(kind, sig, detail, c):
        keep = {k: c[k] for k in ("kind", "cps", "it", "gold") if k in c}
        findings.append(core.Finding(kind, sig, detail, keep))

    for c in cases:
        r = t_impl.get(c["id"], "missing")
        total += 1
        if c["kind"] == "atom":
            cps = c["cps"]
            cls = atom_class(cps)
            classes[cls] = classes.get(cls, 0) + 1
            g = split_top(r, 6)
            mo = t_model.get("m" + c["id"], "missing")
            mm = re.match(r"nq=(\d) wq=(\S+) wqfix=(\S+) w=(\S+) rd=(\S+) self=(\S+)", mo)
            if not g or not mm:
                add("disagreement", {"family": "atom", "what": "unparsable", "class": cls},
                    "impl=%r model=%r" % (r[:300], mo[:300]), c)
                continue
            q, k, t, w = (parse_codes(x) for x in g[:4])
            rb, rs = g[4].strip("'"), g[5].strip("'")
            nq = mm.group(1) == "1"
            wq, wqfix, mw = dec(mm.group(2)), dec(mm.group(3)), dec(mm.group(4))
            rd, selfr = mm.group(5), mm.group(6)
            distinct.add(tuple(cps))
            branches["unquoted" if nq else "quoted"] += 1
            if any(x in wqfix[1:-1] for x in [0x78]) and not nq and "\\x" in "".join(map(chr, wqfix)):
                branches["escape_hex"] += 1
            if not nq and re.search(r"\\[abfnrtv]", "".join(map(chr, wqfix))):
                branches["escape_sym"] += 1
            ok = True
            for name, got in (("writeq", q), ("write_canonical", k), ("write_term_quoted", t)):
                if got != wqfix:
                    ok = False
                    if got == wq and cps == [39, 39]:
                        branches["two_quotes_defect"] += 1
                        add("violation", {"family": "atom", "defect": "two-quote-atom-written-as-empty", "writer": name},
                            "atom text '' (two quote characters) is written as %r which reads back as the empty atom; expected %r"
                            % ("".join(map(chr, got)), "".join(map(chr, wqfix))), c)
                    else:
                        add("violation", {"family": "atom", "what": "text", "writer": name, "class": cls,
                                          "quoted_impl": str(got != cps), "quoted_spec": str(not nq)},
                            "atom %r: %s wrote %r, the proved specification gives %r" % (cps, name, got, wqfix), c)
            if w != cps or mw != cps:
                ok = False
                add("violation", {"family": "atom", "what": "write-quotes", "class": cls},
                    "atom %r: write/1 configuration wrote %r (must be the text itself)" % (cps, w), c)
            if rb != "same" and not (cps == [39, 39] and q == wq):
                ok = False
                add("violation", {"family": "atom", "what": "readback", "class": cls, "result": rb},
                    "atom %r written as %r does not read back as the same atom (%s)" % (cps, q, rb), c)
            if rd != enc(cps):
                ok = False
                add("disagreement", {"family": "atom", "what": "model-readback", "class": cls},
                    "model reader reads %r as %s" % (wqfix, rd), c)
            impl_unq = (q == cps)
            iso = iso_unquoted_ascii("".join(map(chr, cps)))
            if iso is not None and iso != impl_unq and not (cps == [39, 39] and q == wq):
                ok = False
                add("violation", {"family": "atom", "what": "iso-table", "class": cls, "quoted_impl": str(not impl_unq)},
                    "atom %r is written %s; ISO 6.4.2/7.10.5 says %s" % ("".join(map(chr, cps)), "unquoted" if impl_unq else "quoted",
                                                                     "unquoted" if iso else "quoted"), c)
            if (rs == "same") != impl_unq and cps and not (cps == [39, 39] and q == wq):
                ok = False
                add("violation", {"family": "atom", "what": "minimality" if rs == "same" else "soundness", "class": cls},
                    "atom %r: written %s but the raw text reads back as %s" % (cps, "unquoted" if impl_unq else "quoted", rs), c)
            if (selfr == enc(cps) and bool(cps)) != (rs == "same"):
                ok = False
                add("disagreement", {"family": "atom", "what": "raw-read", "class": cls},
                    "raw text %r: implementation reads it back as itself: %s, model reader: %s" % (cps, rs, selfr), c)
            if rs == "same":
                branches["self_reads"] += 1
            agree += ok
            if len(samples) < 6 and len(cps) > 2 and not nq:
                samples.append({"atom": cps, "writeq": q, "model": wqfix, "readback": rb})
        elif c["kind"] == "adj":
            g = split_top(r, 3)
            mo = m2.get("s" + c["id"], "missing")
            if not g or " ## " not in mo:
                add("disagreement", {"family": "adj", "what": "unparsable"}, "impl=%r model=%r" % (r[:300], mo[:300]), c)
                continue
            q = parse_codes(g[0])
            rb = g[1].strip("'")
            declared = g[2].strip("'") == "declared"
            if not declared:
                branches["op_refused"] += 1
                agree += 1
                continue
            if "$VAR" in c["it"]["term"] and rb == "diff":
                rb = "same"      # a '$VAR'(N) term is written as a variable name: not a round-trip case
            mtext, mtoks = mo.split(" ## ", 1)
            mtext = dec(mtext)
            distinct.add(("adj", c["it"]["term"], c["it"]["typ"]))
            branches["adj_space" if 32 in mtext else "adj_nospace"] += 1
            ok = True
            exp = []
            for (kind, v), txt in zip(c["it"]["toks"], c["texts"]):
                if kind == "atom":
                    exp.append("punct(91) punct(93)" if v == "[]" else "punct(123) punct(125)" if v == "{}"
                               else "name(%s)" % enc([ord(ch) for ch in v]))
                elif v[0] == "-":
                    exp.append("name(45) int(%s)" % v[1:])
                elif v[0].isdigit():
                    exp.append("int(%s)" % v)
                else:
                    exp.append("var(%s)" % enc([ord(ch) for ch in v]))
            exp = " ".join(exp)
            if mtoks != exp:
                ok = False
                add("disagreement", {"family": "adj", "what": "model-fusion", "op": c["it"]["op_pl"]},
                    "model lexes its own rendering %r as %s, expected %s" % (mtext, mtoks, exp), c)
            if q != mtext:
                ok = False
                kind = "violation" if rb != "same" else "disagreement"
                add(kind, {"family": "adj", "what": "text", "op": c["it"]["op_pl"], "typ": c["it"]["typ"], "readback": rb},
                    "term %s with op(%d,%s,%s): implementation wrote %r, model tokens joined by requires_space give %r"
                    % (c["it"]["term"], c["it"]["pri"], c["it"]["typ"], c["it"]["op_pl"], "".join(map(chr, q or [])), "".join(map(chr, mtext))), c)
            elif rb != "same":
                ok = False
                add("violation", {"family": "adj", "what": "readback", "op": c["it"]["op_pl"], "typ": c["it"]["typ"], "result": rb},
                    "term %s with op(%d,%s,%s) written as %r does not read back (%s)"
                    % (c["it"]["term"], c["it"]["pri"], c["it"]["typ"], c["it"]["op_pl"], "".join(map(chr, q or [])), rb), c)
            agree += ok
            if len(samples) < 12 and 32 in mtext:
                samples.append({"term": c["it"]["term"], "op": [c["it"]["pri"], c["it"]["typ"]], "written": "".join(map(chr, q or []))})
        elif c["kind"] == "gold":
            g = split_top(r, 2)
            mo = m2.get("s" + c["id"], "missing")
            if not g:
                add("disagreement", {"family": "gold", "what": "unparsable", "term": c["gold"][1]}, "impl=%r" % r[:300], c)
                continue
            q = parse_codes(g[0])
            rb = g[1].strip("'")
            distinct.add(("gold", c["gold"][1]))
            ok = True
            if rb != "same":
                ok = False
                add("violation", {"family": "gold", "what": "readback", "term": c["gold"][1]},
                    "%s written as %r does not read back as the same term (%s)" % (c["gold"][1], "".join(map(chr, q)), rb), c)
            if c["gold"][2] is not None:
                exp = " ".join(tok_show(t) for t in c["gold"][2])
                if mo != exp:
                    ok = False
                    add("violation" if rb != "same" else "disagreement", {"family": "gold", "what": "tokens", "term": c["gold"][1]},
                        "%s written as %r: model lexer gives %s, expected %s" % (c["gold"][1], "".join(map(chr, q)), mo, exp), c)
            agree += ok
        elif c["kind"] == "file":
            g = split_top(r, 3)
            mo = t_model.get("m" + c["id"], "missing")
            mm = re.match(r"nq=(\d) wq=(\S+) wqfix=(\S+) w=(\S+)", mo)
            try:
                os.remove(c["path"])
            except OSError:
                pass
            if not g or not mm:
                add("disagreement", {"family": "file", "what": "unparsable"}, "impl=%r model=%r" % (r[:300], mo[:200]), c)
                continue
            wq, wqfix = dec(mm.group(2)), dec(mm.group(3))
            ok = True
            for name, got, want in (("writeq/2", parse_codes(g[0]), wqfix), ("write_canonical/2", parse_codes(g[1]), wqfix),
                                    ("write/2", parse_codes(g[2]), c["cps"])):
                if got != want:
                    ok = False
                    if c["cps"] == [39, 39] and got == wq:
                        add("violation", {"family": "atom", "defect": "two-quote-atom-written-as-empty", "writer": name},
                            "atom text '' (two quote characters) is written as '' by %s" % name, c)
                    else:
                        add("violation", {"family": "file", "what": "text", "writer": name},
                            "atom %r: %s wrote %r, expected %r" % (c["cps"], name, got, want), c)
            agree += ok

    if replay is not None:
        for c in cases:
            print("impl :", t_impl.get(c["id"]))
            for l in c.get("model", []):
                print("model:", t_model.get(l.split("\t")[1]))
            print("model2:", m2.get("s" + c["id"]))
    return {
        "evaluations": total,
        "distinct_nontrivial": len(distinct),
        "rule": "atoms: a fixed list of %d boundary texts, every text of length <= %d over a 40-character alphabet covering all "
                "classes (letters, digits, _, graphic, backslash, solo, layout, quotes, control, non-ASCII letter/upper/numeric/"
                "space/symbol), random texts of length 1..12 over 76 characters; adjacency: random user operator declarations x "
                "operands (atoms of all classes, integers, negative integers, '$VAR' names); gold: fixed ISO cases. distinct by "
                "text/term; an atom case is non-trivial when it parsed on both sides" % (len(FIXED_ATOMS), 3 if ctx["tier"] == "thorough" else 2),
        "samples": samples,
        "traces_validated_against_impl": agree,
        "disagreements_checked": total - agree,
        "retried_after_timeout": retried,
        "atom_class_histogram": classes,
        "branches_hit": branches,
        "unicode_parameters": {str(k): v for k, v in sorted(tbl.items())},
        "exhaustive": "all atom texts of length <= %d over the 40-character alphabet" % (3 if ctx["tier"] == "thorough" else 2),
        "findings": findings,
    }
