"""C50 — In-memory reading and writing match stream reading and writing.

The property's oracle is the equality of the two routes ON THE IMPLEMENTATION:

read items   text -> (a) read_term_from_chars/3 on the text, (b) read_from_chars/2 on the text,
             (c) K successive read_term/3 on a file stream holding the text, (d) read_term_from_chars/3
             on every suffix that, according to the Lean scanner (drv_C50 `seg`), remains after 1, 2, …
             clauses.  Required: (a) == first read of (c), term of (b) == term of (a), j-th read of (c) ==
             (d) on the (j-1)-th suffix (as long as the earlier stream reads were not errors).
write items  term, options -> (a) write_term_to_chars/3, (b) write_term/3 on a file stream, file read back
             here.  Required: same text (names of unnamed variables up to a consistent renaming), or the
             same error.

The Lean model (Model/CharStream.lean) supplies the clause boundaries for (d) — they are also compared
with the boundaries the generator knows by construction — and the theorems say that a read from a
positioned stream is the read from chars of what remains.
"""
import os
import re
import shutil
import time

from .. import core, diff
from . import C45 as G

LEVEL = "proof"
TRUSTED_BASE = [
    "vlib/props/C50.py: generation of texts/terms/options, rendering of the two routes' queries, comparison of the answers (variables renumbered by first occurrence inside each sub-answer; names of unnamed variables in written text renamed consistently)",
    "the file written by write_term/3 is read back by Python after close/1 (UTF-8)",
    "the scanner of Model/CharStream.lean is used only to cut a multi-clause text into the suffixes given to the chars route; its boundaries are cross-checked against the generator's by construction",
]
ASSUMPTIONS = [
    "variable names of UNNAMED variables cannot be equal between the routes (a stream prints _<heap address>): written texts are compared after renaming variable tokens consistently by first occurrence; named variables (variable_names/1) and '$VAR' names must be literally equal",
    "after a syntax error on a stream the position where the next read resumes is not compared (the chars route has no counterpart)",
    "the trailing part of a text after its last clause (layout/comments) is not compared between a positioned stream and the chars route: a stream that has read lines reports end_of_file where a fresh text of layout reports syntax_error(incomplete_reduction) (reader matter, see notes/findings-misc.md); the same trailing text through a FRESH stream and through chars is compared (as its own item)",
    "atom tails of partial lists are avoided in answers (the library API's answer conversion panics on them)",
]

IMPL_ENV = {"SV_TIMEOUT_MS": "60000"}
TMP = os.path.join(core.BUILD, "tmp", "C50")

HELPER = r"""
c50_opt(v, Vs, _, _, variables(Vs)).
c50_opt(n, _, VNs, _, variable_names(VNs)).
c50_opt(s, _, _, Ss, singletons(Ss)).
c50_opts([], _, _, _, []).
c50_opts([C|Cs], Vs, VNs, Ss, [O|Os]) :- c50_opt(C, Vs, VNs, Ss, O), c50_opts(Cs, Vs, VNs, Ss, Os).
c50_chars(Cs, Pc, R) :- c50_opts(Pc, Vs, VNs, Ss, Os),
    catch((read_term_from_chars(Cs, T, Os), R = r(T,Vs,VNs,Ss)), error(E,_), R = e(E)).
c50_rfc(Cs, R) :- catch((read_from_chars(Cs, T), R = t(T)), error(E,_), R = e(E)).
c50_file(F, N, Pc, Rs) :- open(F, read, S),
    catch(c50_rd(N, S, Pc, Rs), Ex, (close(S), throw(Ex))), close(S).
c50_rd(0, _, _, []) :- !.
c50_rd(N, S, Pc, [R|Rs]) :- c50_opts(Pc, Vs, VNs, Ss, Os),
    catch((read_term(S, T, Os), R = r(T,Vs,VNs,Ss)), error(E,_), R = e(E)),
    N1 is N-1, c50_rd(N1, S, Pc, Rs).
c50_sufs([], _, []).
c50_sufs([X|Xs], Pc, [R|Rs]) :- c50_chars(X, Pc, R), c50_sufs(Xs, Pc, Rs).
c50_read(Text, File, K, P, Sufs, all(A, B, Fs, Cs)) :- atom_chars(P, Pc),
    c50_chars(Text, Pc, A), c50_rfc(Text, B), c50_file(File, K, Pc, Fs), c50_sufs(Sufs, Pc, Cs).
c50_write(T, Os, F, Os2, F2, w(A, B)) :-
    catch((write_term_to_chars(T, Os, Cs), A = ok(Cs)), error(E,_), A = e(E)),
    open(F, write, S), catch((write_term(S, T, Os), B = ok), error(E2,_), B = e(E2)), close(S),
    open(F2, write, S2), catch(write_term(S2, T, Os2), _, true), close(S2).
"""


def transient(r):
    return (r == "missing" or r.startswith("timeout") or r.startswith("abort") or r.startswith("skipped")
            or r.startswith("panic") or "existence_error('procedure'" in r)


# ------------------------------------------------------------------ read items

BROKEN = ["a b.", "f(.", "foo(a,.", "X = 'abc.", "\"abc.", "f(a)) .", "[a,b.", "{a.", "a :- .", "0'", "foo", "foo(X)",
          "/* open", "foo. /* open", "foo. 'q", "a. b", "a.b.", ". a.", "f(A,,B).", "X = Y = Z.", "- - .", "f(A) :- g(A)",
          "foo.bar. baz.", "a:-b:-c.", "[a|b|c].", "'\\q'.", "\"\\q\".", "0'ab.", "1.e.", "f(a b).", ")", "foo).", "a. )",
          "\u00e9(.", "X. Y", "_", "a.%", "a.\n", "a. ", "a.\n\n", " a.", "\na.", "a. % c", "a. % c\n", "a./* c */", "a. /* c */\n"]


def gen_read_item(rng, depth):
    k = rng.choice([1, 2, 2, 3, 4, 6])
    names = rng.sample(G.NAMED_POOL, k)
    nclauses = rng.choice([1, 1, 2, 2, 3])
    clauses = [G.frag_text(G.gen_clause(rng, names, rng.choice([1, 2, 2, 3, depth]))) for _ in range(nclauses)]
    seps = [rng.choice([" ", "\n", " % X _\n", "\n/* Y. */\n", "\n\n", "\t"]) for _ in range(nclauses - 1)]
    trail = rng.choice(["", "", "\n", " ", " % A.\n", "\n% _\n", " /* z */", "\n\n"])
    text = "".join(c + s for c, s in zip(clauses, seps + [trail]))
    segs = []
    for j, c in enumerate(clauses):
        segs.append(len(c) + (len(seps[j - 1]) if j else 0))
    kind = "valid"
    r = rng.random()
    if r < 0.12:
        kind = "noend"
        text = "".join(c + s for c, s in zip(clauses, seps + [""]))
        text = text[:-1] + rng.choice(["", " ", "\n"])
        segs = segs[:-1]
    elif r < 0.2:
        kind = "truncate"
        text = text[:rng.randint(0, len(text))]
        segs = None
    elif r < 0.28:
        kind = "delchar"
        p = rng.randrange(len(text))
        text = text[:p] + text[p + 1:]
        segs = None
    elif r < 0.36:
        kind = "insert"
        p = rng.randint(0, len(text))
        text = text[:p] + rng.choice(list(")('\"`.,|]}[{ %")) + text[p:]
        segs = None
    elif r < 0.42:
        kind = "broken"
        text = rng.choice(BROKEN)
        if rng.random() < 0.4:
            text = clauses[0] + " " + text
        segs = None
    if "\x00" in text:
        text = text.replace("\x00", "")
    opts = rng.choice(["vns", "vns", "", "n", "v", "s", "snv", "ns"])
    return {"kind": "read", "text": text, "opts": opts, "variant": kind, "gen_segs": segs}


def fixed_read_items():
    out = []
    for t in BROKEN + ["", " ", "\n", "% c", "% c\n", "/* c */", "foo.", "foo. bar.", "f(X,Y,X).", "f(_,_).", "_.", "X.",
                       "foo.bar.", "f(A). g(A). h(B,_).", "a.\nb.\nc.\n", "a. b. c.", "'x.y'. \"p. q\". 0'.. end.", "a :- b, c.\n\n% done\n"]:
        out.append({"kind": "read", "text": t, "opts": "vns", "variant": "fixed", "gen_segs": None})
    return out


# ------------------------------------------------------------------ write items

W_ATOMS = ["a", "foo", "'hello world'", "[]", "'{}'", "'it''s'", "(+)", "(-)", "'\u00e9'", "'a\\nb'", "'\\\\'", "(;)", "(',')",
           "('|')", "!", "'[]'", "''", "'a.b'", "e", "(*)", "'$VAR'", "'/*'", "'%'", "x_1", "(:-)", "'\\t'", "(\\+)", "'.'"]
W_CAP_ATOMS = ["'A'", "'_x'", "'X1'", "'_'", "'_G1'"]
W_NUMS = ["0", "42", "-7", "3.14", "1.0e10", "-0.0", "123456789012345678901234567890", "-1", "1.0", "0.1", "1.0e-10", "97"]
W_STRS = ['"abc"', '""', '"a\\"b"', '"hello world"', '"a\\nb"', '"x"', '"it\'s"', '"[]"', '"\u00e9\u00e8"']
W_FUN = ["f", "g", "'F'", "'hello world'", "+", "-", "*", "/", "','", ";", ":-", "->", "=", "\\+", "'{}'", "'$VAR'", "^",
         "is", "mod", "'[]'", "'.'", ":", "-->", "?-", "@<", "**", "dynamic", "\u00e9"]
W_VARNAMES = ["'X'", "'Foo'", "'_Y'", "'A'", "'B'", "'_'", "'_1'", "'x'", "'Hello World'", "'A1'"]


def gen_wterm(rng, depth, vars_, allow_cap):
    r = rng.random()
    if depth <= 0 or r < 0.3:
        k = rng.random()
        if k < 0.3:
            return rng.choice(vars_) if vars_ else "a"
        if k < 0.6:
            return rng.choice(W_ATOMS + (W_CAP_ATOMS if allow_cap else []))
        if k < 0.8:
            return rng.choice(W_NUMS)
        if k < 0.92:
            return rng.choice(W_STRS)
        return "'$VAR'(%s)" % rng.choice(["0", "1", "25", "26", "27", "51", "52", "100", "-1", "x", "1.0", "'A'"] + (vars_[:1]))
    if r < 0.5:
        n = rng.choice([0, 1, 2, 3, 4])
        items = [gen_wterm(rng, depth - 1, vars_, allow_cap) for _ in range(n)]
        if n and rng.random() < 0.25 and vars_:
            return "[" + ",".join(items) + "|" + rng.choice(vars_) + "]"
        return "[" + ",".join(items) + "]"
    f = rng.choice(W_FUN)
    n = rng.choice([1, 2, 2, 2, 3])
    return "%s(%s)" % (f if re.match(r"^[a-z\u00e9'\[]", f) else "'%s'" % f.replace("\\", "\\\\"),
                       ",".join(gen_wterm(rng, depth - 1, vars_, allow_cap) for _ in range(n)))


def gen_write_item(rng, depth):
    nv = rng.choice([0, 0, 1, 2, 3])
    vars_ = ["V%d" % i for i in range(nv)]
    named = [v for v in vars_ if rng.random() < 0.5]
    unnamed = len(named) < len(vars_)
    term = gen_wterm(rng, rng.choice([1, 2, 3, depth]), vars_, allow_cap=not unnamed)
    opts = []
    pool = ["quoted(true)", "quoted(false)", "ignore_ops(true)", "ignore_ops(false)", "numbervars(true)", "numbervars(false)",
            "max_depth(0)", "max_depth(1)", "max_depth(2)", "max_depth(3)", "max_depth(5)", "double_quotes(true)",
            "double_quotes(false)"]
    for _ in range(rng.choice([0, 1, 2, 2, 3, 4])):
        opts.append(rng.choice(pool))
    pairs = []
    if named:
        names = rng.sample(W_VARNAMES, len(named))
        pairs = [[n, v] for n, v in zip(names, named)]
        vn = "variable_names([%s])" % ",".join("%s=%s" % (n, v) for n, v in pairs)
        opts.insert(rng.randint(0, len(opts)), vn)
    variant = "valid"
    if rng.random() < 0.08:
        variant = "badopt"
        opts.insert(rng.randint(0, len(opts)), rng.choice(["foo(bar)", "quoted(maybe)", "max_depth(a)", "variable_names(x)", "quoted",
                                                            "max_depth(-1)", "variable_names([x])",
                                                            "variable_names([1=_])", "numbervars(1)", "_"]))
    optl = "[" + ",".join(opts) + "]"
    if variant == "badopt" and rng.random() < 0.15:
        optl = rng.choice(["foo", "_", "[quoted(true)|foo]"])
    return {"kind": "write", "term": term, "optl": optl, "variant": variant, "unnamed": unnamed,
            "vars": " ".join(vars_), "pairs": pairs}


def fixed_write_items():
    out = []
    for term, optl, unnamed in [
            ("f(V0,'$VAR'(0),V1,'$VAR'(27))", "[numbervars(true),quoted(true)]", True),
            ("f(V0,V1,V0)", "[variable_names(['A'=V1])]", True),
            ("f(V0,V1,V0)", "[]", True), ("g(V0)", "[quoted(true)]", True),
            ("\"abc\"", "[double_quotes(true)]", False), ("\"abc\"", "[]", False), ("f(g(h(i(j))))", "[max_depth(2)]", False),
            ("'\u00e9\\n\u00f6'", "[quoted(true)]", False), ("''", "[]", False), ("''", "[quoted(true)]", False),
            ("[1,2,3,4,5,6,7,8,9,10]", "[max_depth(3)]", False), ("1+2*3-(4-5)", "[ignore_ops(true)]", False),
            ("- (1)", "[]", False), ("-(-(1))", "[]", False), ("1 - -1", "[]", False), ("a:b:c", "[quoted(true)]", False),
            ("f(',', (a,b), '|', [])", "[quoted(true)]", False), ("{a,b}", "[]", False),
            ("'$VAR'(1)", "[numbervars(true)]", False), ("'$VAR'(1)", "[quoted(true)]", False),
            ("f(V0)", "[variable_names(['X'=V0,'Y'=V0])]", False)]:
        pairs = [[m.group(1), m.group(2)] for m in re.finditer(r"('[^']*')=(V\d)", optl)]
        out.append({"kind": "write", "term": term, "optl": optl, "variant": "fixed", "unnamed": unnamed, "vars": "",
                    "pairs": pairs})
    return out


def fabricated_options(it):
    """the option list with variable_names/1 extended the way charsio.pl (pinned) extends it: the
    variables of the term that the list does not name get A, B, …, Z, A1, … (names already used in
    the list are skipped), in term_variables/2 order."""
    pairs = it.get("pairs") or []
    named = {v for _, v in pairs}
    used = {n.strip("'") for n, _ in pairs}
    order = []
    for m in re.finditer(r"(?<![A-Za-z0-9_'])V\d(?![A-Za-z0-9_])", G.strip_quoted(it["term"])):
        if m.group(0) not in order:
            order.append(m.group(0))
    extra, n = [], 0
    fab = lambda k: chr(65 + k % 26) + (str(k // 26) if k // 26 else "")
    for v in order:
        if v in named:
            continue
        while fab(n) in used:
            n += 1
        extra.append(["'%s'" % fab(n), v])
        n += 1
    vn = "variable_names([%s])" % ",".join("%s=%s" % (a, b) for a, b in pairs + extra)
    optl = it["optl"].strip()
    if not (optl.startswith("[") and optl.endswith("]")) or "|" in optl or it.get("variant") == "badopt":
        return optl, False
    if "variable_names(" in optl:
        return re.sub(r"variable_names\(\[[^\]]*\]\)", lambda m: vn, optl, count=1), bool(extra)
    inner = optl[1:-1].strip()
    return "[" + (inner + "," if inner else "") + vn + "]", bool(extra)


# ------------------------------------------------------------------ lines

def drop_private(it):
    return {k: v for k, v in it.items() if k in ("kind", "text", "opts", "variant", "gen_segs", "term", "optl", "unnamed", "vars", "pairs")}


def model_line(lid, it):
    return "seg\t%s_m\t%s" % (lid, G.hesc(it["text"]))


def parse_segs(mtext):
    parts = mtext.split()
    ns = [int(p) for p in parts if p.isdigit()]
    end = [p[4:] for p in parts if p.startswith("end=")]
    src = [p[4:] for p in parts if p.startswith("src=")]
    return ns, (end[0] if end else "?"), (src[0] if src else "?")


def impl_line(lid, it, tmpdir):
    os.makedirs(tmpdir, exist_ok=True)
    path = os.path.join(tmpdir, lid + ".txt")
    it["file"] = path
    if it["kind"] == "read":
        with open(path, "w", encoding="utf-8") as fh:
            fh.write(it["text"])
        ns = it["segs"][:3]
        sufs, off = [], 0
        for n in ns:
            off += n
            sufs.append(it["text"][off:])
        # suffix j (after j clauses) is compared with stream read j+1; the last suffix is the trailing part
        it["sufs"] = sufs
        k = len(ns) + 1
        it["k"] = k
        goal = "use_module(library(charsio)), c50_read(%s, %s, %d, '%s', [%s], R)" % (
            G.pl_string(it["text"]), G.pl_string(path), k, it["opts"], ",".join(G.pl_string(s) for s in sufs))
    else:
        optl2, it["has_unnamed"] = fabricated_options(it)
        it["file2"] = path + "2"
        goal = "use_module(library(charsio)), c50_write(%s, %s, %s, %s, %s, R)" % (
            it["term"], it["optl"], G.pl_string(path), optl2, G.pl_string(it["file2"]))
    it["prolog"] = goal + "."
    return "Q\t%s\t1\t%s." % (lid, G.hesc(goal))


# ------------------------------------------------------------------ answers

VAR_RE = re.compile(r"_G(\d+)")


def renumber(text):
    """rename _G<k> by first occurrence inside this text, outside quoted items."""
    out, i, n, ren = [], 0, len(text), {}
    while i < n:
        c = text[i]
        if c in "'\"":
            j = G.skip_quoted(text, i)
            out.append(text[i:j + 1])
            i = j + 1
            continue
        m = VAR_RE.match(text, i)
        if m and (i == 0 or not (text[i - 1].isalnum() or text[i - 1] == "_")):
            g = m.group(1)
            if g not in ren:
                ren[g] = len(ren)
            out.append("_V%d" % ren[g])
            i = m.end()
            continue
        out.append(c)
        i += 1
    return "".join(out)


def unquote_canon_string(s):
    """canonical harness string "…" (or [] for the empty list) -> python str; None if it is something else."""
    s = s.strip()
    if s == "[]":
        return ""
    if not (len(s) >= 2 and s[0] == '"' and s[-1] == '"'):
        return None
    body, out, i = s[1:-1], [], 0
    while i < len(body):
        c = body[i]
        if c == "\\":
            d = body[i + 1]
            if d == "x":
                j = body.index("\\", i + 2)
                out.append(chr(int(body[i + 2:j], 16)))
                i = j + 1
                continue
            out.append(d)
            i += 2
            continue
        out.append(c)
        i += 1
    return "".join(out)


TOK_RE = re.compile(r"(?<![A-Za-z0-9_])[A-Z_][A-Za-z0-9_]*")


def canon_vars(text, skip_quotes):
    """rename variable-looking tokens consistently by first occurrence."""
    ren = {}

    def sub(m):
        t = m.group(0)
        if t not in ren:
            ren[t] = "V%d" % len(ren)
        return ren[t]

    if not skip_quotes:
        return TOK_RE.sub(sub, text), len(ren)
    out, i, n = [], 0, len(text)
    plain = []
    while i < n:
        c = text[i]
        if c in "'\"":
            out.append(TOK_RE.sub(sub, "".join(plain)))
            plain = []
            j = i + 1
            while j < n:
                if text[j] == "\\":
                    j += 2
                    continue
                if text[j] == c:
                    if j + 1 < n and text[j + 1] == c:
                        j += 2
                        continue
                    break
                j += 1
            out.append(text[i:j + 1])
            i = j + 1
            continue
        plain.append(c)
        i += 1
    out.append(TOK_RE.sub(sub, "".join(plain)))
    return "".join(out), len(ren)


def top_args(text, functor):
    t = text.strip()
    pre = "'%s'(" % functor
    if not (t.startswith(pre) and t.endswith(")")):
        return None
    return G.split_top(t[len(pre):-1])


def list_items(text):
    t = text.strip()
    if t == "[]":
        return []
    if not (t.startswith("[") and t.endswith("]")):
        return None
    return G.split_top(t[1:-1])


def effective_bool(optl, name, default):
    vals = re.findall(name + r"\((true|false)\)", optl)
    return (vals[-1] == "true") if vals else default


# ------------------------------------------------------------------ judge

def judge_read(it, itext, stats):
    t = itext.split(" ;; ")[0].strip()
    if not (t.startswith("{R=") and t.endswith("}")):
        return [("disagreement", {"part": "impl-output", "impl": t[:160]}, "unparsable implementation answer")]
    args = top_args(t[3:-1], "all")
    if args is None or len(args) != 4:
        return [("disagreement", {"part": "impl-output", "impl": t[:160]}, "unparsable implementation answer")]
    a, b, fs, cs = args
    fs, cs = list_items(fs), list_items(cs)
    if fs is None or cs is None or len(fs) != it["k"] or len(cs) != len(it["sufs"]):
        return [("disagreement", {"part": "impl-output", "impl": t[:160]}, "unparsable implementation answer")]
    out = []
    A = renumber(a)
    F = [renumber(x) for x in fs]
    C = [renumber(x) for x in cs]
    is_err = lambda x: x.startswith("'e'(")
    stats["first_read_" + ("error" if is_err(A) else ("eof" if A.startswith("'r'('end_of_file'") else "term"))] += 1
    if A != F[0]:
        out.append(("violation", {"part": "first-read", "chars": A[:200], "stream": F[0][:200]},
                    "read_term_from_chars/3 and the first read_term/3 of a stream on the same text differ"))
    # read_from_chars/2
    B = renumber(b)
    if is_err(A):
        ok = (B == A)
    else:
        ta = top_args(a, "r")
        tb = top_args(b, "t")
        ok = ta is not None and tb is not None and renumber(ta[0]) == renumber(tb[0])
    if not ok:
        out.append(("violation", {"part": "read_from_chars", "chars3": A[:200], "chars2": B[:200]},
                    "read_from_chars/2 and read_term_from_chars/3 differ on the same text"))
    # later reads of the stream against the chars route on the remaining text
    nseg = len(it["segs"][:3])
    for j in range(1, it["k"]):
        if is_err(F[j - 1]):
            break
        if j >= nseg:
            # trailing part: not compared (see ASSUMPTIONS); statistics only
            stats["trailing_" + ("same" if C[j - 1] == F[j] else "different")] += 1
            break
        stats["later_reads_compared"] += 1
        if C[j - 1] != F[j]:
            out.append(("violation", {"part": "later-read", "index": str(j + 1), "chars": C[j - 1][:200], "stream": F[j][:200]},
                        "read %d of the stream differs from read_term_from_chars/3 on the text that remains after %d clause(s)" % (j + 1, j)))
            break
    # the model's boundaries against the generator's
    if it.get("gen_segs") is not None and it["gen_segs"][:3] != it["segs"][:len(it["gen_segs"][:3])]:
        out.append(("disagreement", {"part": "model-boundaries", "model": str(it["segs"]), "generator": str(it["gen_segs"])},
                    "the scanner of the model cuts the text differently from the generator (model defect)"))
    if it["variant"] in ("valid",) and is_err(A):
        out.append(("disagreement", {"part": "syntax", "impl": A[:160]}, "a text generated as valid was rejected"))
    return out


def judge_write(it, itext, stats):
    t = itext.split(" ;; ")[0].strip()
    if not (t.startswith("{R=") and t.endswith("}")):
        return [("disagreement", {"part": "impl-output", "impl": t[:160]}, "unparsable implementation answer")]
    args = top_args(t[3:-1], "w")
    if args is None or len(args) != 2:
        return [("disagreement", {"part": "impl-output", "impl": t[:160]}, "unparsable implementation answer")]
    a, b = args
    try:
        with open(it["file"], encoding="utf-8", newline="") as fh:
            ftext = fh.read()
    except Exception as ex:
        ftext = None
    if a.startswith("'e'(") or b.startswith("'e'("):
        stats["write_errors"] += 1
        if renumber(a) != renumber(b):
            return [("violation", {"part": "write-error", "chars": a[:160], "stream": b[:160]},
                     "write_term_to_chars/3 and write_term/3 do not raise the same error for the same options")]
        return []
    oa = top_args(a, "ok")
    ctext = unquote_canon_string(oa[0]) if oa else None
    if ctext is None or ftext is None:
        return [("disagreement", {"part": "impl-output", "impl": t[:160]}, "unparsable implementation answer / missing file")]
    if ctext == ftext:
        stats["write_literally_equal"] += 1
        return []
    quoted = effective_bool(it["optl"], "quoted", False)
    ca, na = canon_vars(ctext, quoted)
    cf, nf = canon_vars(ftext, quoted)
    if ca == cf and it["unnamed"]:
        stats["write_equal_up_to_variable_names"] += 1
        return []
    # root cause attribution: is the chars text exactly what the STREAM route writes when the unnamed
    # variables are given the names charsio.pl makes up for them (A, B, …)?
    try:
        with open(it["file2"], encoding="utf-8", newline="") as fh:
            f2 = fh.read()
    except Exception:
        f2 = None
    if it.get("has_unnamed") and f2 is not None and f2 == ctext:
        return [("violation", {"part": "write-text", "defect": "write_term_to_chars-invents-names-for-unnamed-variables"},
                 "write_term_to_chars/3 writes the term as if its unnamed variables had been named A, B, … by variable_names/1: "
                 "the text differs from the stream route beyond a renaming of variables (%r vs stream %r)" % (ctext[:80], ftext[:80]))]
    return [("violation", {"part": "write-text", "chars": ctext[:160], "stream": ftext[:160]},
             "write_term_to_chars/3 and write_term/3 on a stream produce different text for the same term and options")]


def run(ctx):
    rng, tier = ctx["rng"], ctx["tier"]
    rep = diff.replay_case(ctx)
    tmpdir = os.path.join(TMP, "%d" % os.getpid())
    if rep is not None:
        items = [drop_private(it) for c in rep for it in c["items"]]
    else:
        items = [drop_private(it) for c in diff.load_corpus("C50") for it in c["items"]]
        items += fixed_read_items() + fixed_write_items()
        nr, nw = (700, 1000) if tier == "quick" else (6000, 12000)
        items += [gen_read_item(rng, 3 if tier == "quick" else 4) for _ in range(nr)]
        items += [gen_write_item(rng, 3 if tier == "quick" else 4) for _ in range(nw)]
    for i, it in enumerate(items):
        it["id"] = "i%d" % i
    t0 = time.time()
    # phase 1: the model cuts the read texts
    reads = [it for it in items if it["kind"] == "read"]
    model = core.run_model([model_line(it["id"], it) for it in reads]) if reads else {}
    src_bad = 0
    for it in reads:
        ns, end, src = parse_segs(model.get(it["id"] + "_m", ""))
        it["segs"], it["end"] = ns, end
        if src != "ok":
            src_bad += 1
    # phase 2: the implementation, both routes
    retried = 0
    try:
        cases = []
        for i in range(0, len(items), 40):
            chunk = items[i:i + 40]
            cid = "c%d" % (i // 40)
            cases.append({"id": cid, "impl": ["L\t%s_h\tuser\t%s" % (cid, G.hesc(HELPER))] +
                          [impl_line(it["id"], it, tmpdir) for it in chunk]})
        impl, _ = diff.run_cases(cases, impl_env=IMPL_ENV)
        flaky = [it for it in items if transient(impl.get(it["id"], "missing"))]
        retried = len(flaky)
        if flaky:
            # once more, sequentially, in one process; the helper is reloaded before every query so that a
            # query that really kills the machine does not take the following ones with it
            lines = []
            for k, it in enumerate(flaky[:400]):
                lines.append("L\ty%d_h\tuser\t%s" % (k, G.hesc(HELPER)))
                lines.append(impl_line(it["id"], it, tmpdir))
            impl2, _ = diff.run_cases([{"id": "y", "impl": lines}], impl_env=IMPL_ENV, parallel=False)
            for it in flaky[:400]:
                impl[it["id"]] = impl2.get(it["id"], "missing")
        core.log("[C50] correspondence run: %d items, %.1fs, %d retried" % (len(items), time.time() - t0, retried))
        findings, agree = [], 0
        stats = {k: 0 for k in ("first_read_term", "first_read_error", "first_read_eof", "later_reads_compared", "trailing_same",
                                "trailing_different", "write_errors", "write_literally_equal", "write_equal_up_to_variable_names")}
        variants, distinct = {}, set()
        for it in items:
            variants[it["kind"] + ":" + it["variant"]] = variants.get(it["kind"] + ":" + it["variant"], 0) + 1
            itext = impl.get(it["id"], "missing")
            res = judge_read(it, itext, stats) if it["kind"] == "read" else judge_write(it, itext, stats)
            if it["kind"] == "read" and len(it["text"]) > 3:
                distinct.add("r" + it["text"])
            if it["kind"] == "write" and len(it["term"]) > 3:
                distinct.add("w" + it["term"] + it["optl"])
            if rep is not None:
                print("replay %s\n  impl = %s\n  -> %s" % (it["prolog"], itext, res if res else "agree"))
                if it["kind"] == "write":
                    try:
                        print("  file = %r" % open(it["file"], encoding="utf-8", newline="").read())
                    except Exception:
                        pass
            if not res:
                agree += 1
                continue
            for kind, extra, detail in res:
                sig = {"family": "charsio", "route": it["kind"]}
                sig.update(extra)
                if "defect" not in extra:
                    sig["input"] = (it.get("text") if it["kind"] == "read" else it["term"] + " " + it["optl"])[:120]
                findings.append(core.Finding(kind, sig, detail,
                                             {"items": [drop_private(it)], "query": it["prolog"], "observed": itext[:2000]}))
        if src_bad:
            findings.append(core.Finding("disagreement", {"family": "charsio", "part": "model-sources"},
                                         "list, position and push-back sources disagree in the model driver (theorem C50_read_refines contradicted)", None))
    finally:
        shutil.rmtree(tmpdir, ignore_errors=True)
    samples = [it["prolog"][:300] for it in items[-3:]] + [it["prolog"][:300] for it in reads[-3:]]
    return {
        "evaluations": len(items),
        "distinct_nontrivial": len(distinct),
        "rule": "read items: 1..3 generated clauses (C45 generator: operators, lists, {}-terms, quoted atoms/strings/0'c containing end "
                "characters, comments containing '.') with random separators and trailing layout/comments, 58% unchanged, the rest without "
                "final end token / truncated / one character deleted / one character inserted / hand-made broken texts; options in every "
                "subset; + 64 fixed texts. write items: random terms (atoms needing quotes, operators as atoms and functors, numbers, strings, "
                "'$VAR'(N), lists with variable tails, 0..3 variables of which a random subset is named) with 0..4 options drawn from quoted, "
                "ignore_ops, numbervars, max_depth, double_quotes (repetitions allowed) + variable_names, 8% with an invalid option or option "
                "list; + 19 fixed. non-trivial = text/term longer than 3 characters; distinct by text resp. term+options",
        "samples": samples,
        "traces_validated_against_impl": agree,
        "disagreements_checked": len(items) - agree,
        "retried_after_timeout": retried,
        "variants": variants,
        "route_statistics": stats,
        "exhaustive": False,
        "findings": findings,
    }
