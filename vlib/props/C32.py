"""C32 — Concurrent machines intern atoms consistently.

Tie (needs the hook notes/hooks/C32-repo.diff and the harness family notes/hooks/fam_c32.rs):

* scheduled runs (harness op `AS`): N threads intern scripted texts on a FRESH global atom table
  whose first block is tiny; a cooperative scheduler compiled into `AtomTable::build_with`
  (cfg(feature = "verif")) lets exactly one thread run from one protocol point to the next, in the
  order of a generated schedule.  The hook returns the trace of granted (thread, point) steps and
  the complete outcome (atom returned per call, text read back at once and after all growth,
  capacity, used bytes, number of published block versions, the index in insertion order).
  The model (`drv_C32`, op `TR`) replays the SAME trace: at every step the model thread must be at
  the same protocol point, and at the end everything must be EQUAL (offsets, growth, index order).
* free runs (`AF`): real OS-thread concurrency with pseudo-random `yield_now()`/spins at the
  protocol points; only schedule-independent facts are compared with the model's round-robin run.
* machine runs (`AM`): every thread builds its own `Machine` (the library bootstrap interns
  thousands of atoms concurrently across many growths) and creates its atoms with `atom_codes/2`.

Independently of the model the property's own oracle is applied to every implementation report:
same text => same atom in all threads, distinct texts => distinct atoms, every atom reads back its
text (early and late), the index has no two entries with the same text, and the used bytes equal
the sum of the sizes of the indexed atoms (no text was allocated twice).
"""
import time

from .. import core, diff

LEVEL = "partial"
TRUSTED_BASE = [
    "hook src/verif_atomrace.rs + the cfg(feature=verif) lines in AtomTable::build_with (a call `atom_point(k)` immediately before each protocol action; the update lock is taken by a try_lock polling loop ONLY for threads of a scheduled run; RawBlockTraits::init_size reads the hook's override) and the accessors verif_* in atom_table.rs; harness family notes/hooks/fam_c32.rs",
    "the scheduler of the hook runs one participant at a time between protocol points: a scheduled run exercises the protocol logic under a chosen interleaving, not the hardware memory model",
    "the translation text -> hex in this file; the report syntax shared by hook and driver",
]
ASSUMPTIONS = [
    "each protocol action of build_with (RCU read, index lookup, lock, re-check, alloc / grow-copy, RCU replace, write, index publish, unlock) is atomic and sequentially consistent: memory ordering of arcu / the atomics / the mutex is outside the model",
    "arcu's `same_epoch` is identity of the still-held Arc (no ABA), `replace` returns only after every reader left its read-side critical section (no use-after-free of old versions)",
    "no atom-table garbage collection (there is none in the code)",
]

POINTS = ["idle", "readInner", "readTable", "lookup", "lock", "recheck", "alloc", "publishInner", "write", "publish", "unlock"]

STATIC_CANDIDATES = ["\0", "atom_length", "existence_error", "instantiation_error", "call_with_inference_limit", "representation_error"]


def hx(s):
    b = s.encode()
    return b.hex() if b else "-"


def alloc_size(s):
    return (8 + len(s.encode()) + 7) // 8 * 8


def inlinable(s):
    b = s.encode()
    return 0 < len(b) <= 6 and 0 not in b


# ---------------------------------------------------------------- generators

def rand_text(rng, tag):
    """texts around the boundaries the model singles out: empty, inlinable (1..6 bytes, no NUL), 6/7
    bytes, NUL inside a short text (not inlinable), allocation sizes 8,16,24,…, texts bigger than
    the whole first block, multi-byte characters, static atoms"""
    r = rng.random()
    if r < 0.05:
        return ""
    if r < 0.13:
        return rng.choice(STATIC_CANDIDATES)
    if r < 0.22:
        n = rng.randint(1, 6)
        return "".join(rng.choice("abcxyz") for _ in range(n))
    if r < 0.30:
        base = "".join(rng.choice("abc") for _ in range(rng.randint(0, 4)))
        i = rng.randint(0, len(base))
        return base[:i] + "\0" + base[i:] if base or rng.random() < 0.5 else "\0\0"
    n = rng.choice([7, 7, 8, 9, 15, 16, 17, 23, 24, 25, 31, 32, 33, 40, 41, 55, 56, 57, 100, 130, 300])
    kind = rng.random()
    body = "%s%d_" % (tag, rng.randint(0, 40))
    if kind < 0.2:
        body = "é€" + body
    out = body
    while len(out.encode()) < n:
        out += rng.choice("abcdefghijklmnopqrstuvwxyz")
    # cut to exactly n bytes on a character boundary
    while len(out.encode()) > n:
        out = out[:-1]
    return out


def gen_scripts(rng, nthreads, per_thread, overlap):
    pool_n = max(1, int(nthreads * per_thread * (1.0 - overlap)) + 1)
    pool = []
    for i in range(pool_n):
        pool.append(rand_text(rng, "t"))
    scripts = []
    for t in range(nthreads):
        k = rng.randint(max(0, per_thread - 2), per_thread + 1)
        sc = [rng.choice(pool) for _ in range(k)]
        if rng.random() < 0.3:
            sc.append(rand_text(rng, "own%d_" % t))      # a disjoint one
        scripts.append(sc)
    if rng.random() < 0.25:
        # everybody interns the same texts in the same order (maximal collision)
        scripts = [list(scripts[0]) for _ in range(nthreads)]
    return scripts


def gen_schedule(rng, nthreads, scripts):
    total = sum(len(s) for s in scripts)
    kind = rng.choice(["rr", "uniform", "burst", "lockstep", "starve", "burst", "uniform"])
    L = rng.randint(0, 14 * total + 10)
    if kind == "rr":
        return kind, []
    if kind == "uniform":
        return kind, [rng.randrange(nthreads) for _ in range(L)]
    if kind == "burst":
        out = []
        while len(out) < L:
            t = rng.randrange(nthreads)
            out += [t] * rng.choice([1, 2, 3, 4, 4, 5, 6, 7, 10, 11, 12, 23])
        return kind, out
    if kind == "lockstep":
        # everybody up to (and including) the lookup / up to the lock, then one after the other
        out = []
        upto = rng.choice([3, 4, 5])
        for _ in range(rng.randint(1, 3)):
            for t in range(nthreads):
                out += [t] * upto
            order = list(range(nthreads))
            rng.shuffle(order)
            for t in order:
                out += [t] * rng.choice([6, 7, 8, 9, 12])
        return kind, out
    # starve: one thread is stopped after k steps while the others complete whole calls
    out = []
    victim = rng.randrange(nthreads)
    out += [victim] * rng.choice([1, 2, 3, 4, 5])
    others = [t for t in range(nthreads) if t != victim] or [victim]
    for _ in range(rng.randint(1, 4)):
        out += [rng.choice(others)] * rng.choice([11, 12, 13, 14, 22, 30])
    out += [victim] * rng.choice([1, 2, 8, 12, 20])
    return kind, out


def scripts_field(scripts):
    return "|".join(",".join(hx(x) for x in sc) if sc else "." for sc in scripts)


def all_texts(scripts):
    seen, out = set(), []
    for sc in scripts:
        for x in sc:
            if x not in seen:
                seen.add(x)
                out.append(x)
    return out


def mk_case(i, mode, cap, scripts, sched_kind="", schedule=(), mask=0, seed=1):
    cid = "%s%d" % (mode.lower(), i)
    texts = all_texts(scripts)
    c = {"id": cid, "mode": mode, "cap": cap, "scripts": scripts, "sched_kind": sched_kind,
         "schedule": list(schedule), "mask": mask, "seed": seed, "texts": texts}
    sf = scripts_field(scripts)
    ax = "AX\t%s.x\t%s" % (cid, ",".join(hx(x) for x in texts))
    if mode == "AS":
        c["impl"] = [ax, "AS\t%s\t%d\t%s\t%s" % (cid, cap, sf, " ".join(str(t) for t in schedule))]
    else:
        c["impl"] = [ax, "%s\t%s\t%d\t%s\t%d\t%d" % (mode, cid, cap, sf, mask, seed)]
    return c


CAPS = [8, 16, 16, 20, 24, 32, 32, 40, 48, 64, 64, 100, 128, 256, 1024]


def generate(rng, tier):
    cases = []
    i = 0
    n_sched = 500 if tier == "quick" else 10000
    n_free = 60 if tier == "quick" else 1200
    n_mach = 2 if tier == "quick" else 20
    # a. the witness schedule of theorem C32_without_recheck_duplicate (with the re-check it is harmless)
    cases.append(mk_case(i, "AS", 64, [["\x01\x02\x03\x04\x05\x06\x07\x08"]] * 2, "witness",
                         [0, 0, 0, 0, 1, 1, 1, 1, 0, 0, 0, 0, 0, 0, 1, 1, 1, 1, 1, 1]))
    i += 1
    for _ in range(n_sched):
        nthreads = rng.choice([2, 2, 2, 3, 3, 4, 5, 6, 8])
        per = rng.choice([1, 1, 2, 3, 4, 6])
        scripts = gen_scripts(rng, nthreads, per, rng.choice([0.0, 0.5, 0.8, 0.9]))
        kind, sched = gen_schedule(rng, nthreads, scripts)
        cases.append(mk_case(i, "AS", rng.choice(CAPS), scripts, kind, sched))
        i += 1
    for _ in range(n_free):
        nthreads = rng.choice([2, 3, 4, 6, 8])
        per = rng.choice([2, 4, 8, 16, 40])
        scripts = gen_scripts(rng, nthreads, per, rng.choice([0.5, 0.8, 0.9, 0.95]))
        mask = rng.choice([0, 0x7FF, 0x7FF, 0x038, 0x3C0, rng.randrange(0x800)])
        cases.append(mk_case(i, "AF", rng.choice(CAPS), scripts, "free", (), mask, rng.randrange(1, 1 << 30)))
        i += 1
    for _ in range(n_mach):
        nthreads = rng.choice([2, 3, 4])
        scripts = gen_scripts(rng, nthreads, rng.choice([3, 6]), 0.8)
        # atom_codes/2 rejects nothing here, but keep texts printable for the query text: no NUL
        scripts = [[x for x in sc if "\0" not in x and x != ""] for sc in scripts]
        mask = rng.choice([0, 0x7FF, 0x3F8])
        cases.append(mk_case(i, "AM", rng.choice([64, 256, 4096, 65536]), scripts, "machines", (), mask,
                             rng.randrange(1, 1 << 30)))
        i += 1
    return cases


# ---------------------------------------------------------------- reports

def parse_report(rep):
    """'T0=hex:atom,…;T1=… # cap=..,…,tbl=off:hex,…' -> dict"""
    out = {"threads": [], "raw": rep}
    left, _, right = rep.partition(" # ")
    for th in left.split(";"):
        name, _, items = th.partition("=")
        calls = []
        if items.startswith("PANIC"):
            out.setdefault("panic", []).append(th)
            out["threads"].append(calls)
            continue
        for it in items.split(",") if items else []:
            t, _, a = it.partition(":")
            calls.append((t, a))
        out["threads"].append(calls)
    tblpart = ""
    if ",tbl=" in right:
        right, _, tblpart = right.partition(",tbl=")
    elif right.startswith("tbl="):
        right, tblpart = "", right[4:]
    for kv in right.split(","):
        k, _, v = kv.partition("=")
        if k:
            out[k] = v
    out["tbl"] = []
    for e in tblpart.split(",") if tblpart else []:
        o, _, t = e.partition(":")
        out["tbl"].append((o, t))
    return out


def transient(res):
    return res in ("missing", "ERR hang", "timeout") or res.startswith("abort(") or res.startswith("skipped")


def oracle(c, rep):
    """the property's own oracle on an implementation report; returns list of (what, detail)"""
    bad = []
    if "panic" in rep:
        bad.append(("panic", ";".join(rep["panic"])[:200]))
    by_text, by_atom = {}, {}
    for t, calls in enumerate(rep["threads"]):
        for (text, atom) in calls:
            if "!" in atom:
                bad.append(("text-changed", "thread %d: atom of %s reads back differently: %s" % (t, text, atom)))
                atom = atom.split("!")[0]
            if text in by_text and by_text[text] != atom:
                bad.append(("same-text-different-atoms", "text %s: atoms %s and %s" % (text, by_text[text], atom)))
            by_text.setdefault(text, atom)
            if atom not in ("i", "s"):
                if atom in by_atom and by_atom[atom] != text:
                    bad.append(("different-texts-same-atom", "atom %s: texts %s and %s" % (atom, by_atom[atom], text)))
                by_atom.setdefault(atom, text)
    if rep.get("dups", "0") != "0":
        bad.append(("duplicate-index-entries", "dups=%s" % rep.get("dups")))
    seen = {}
    for (o, t) in rep["tbl"]:
        if t in seen and seen[t] != o:
            bad.append(("text-stored-twice", "text %s at offsets %s and %s" % (t, seen[t], o)))
        seen[t] = o
    if "sum" in rep and rep.get("sum") != rep.get("used"):
        bad.append(("allocated-twice-or-leaked", "used=%s but indexed atoms occupy %s bytes" % (rep.get("used"), rep.get("sum"))))
    if rep.get("lock", "0") != "0":
        bad.append(("lock-held", "update lock still held after all threads finished"))
    # every dynamic result must be an index entry with that text
    tbl = {o: t for (o, t) in rep["tbl"]}
    for atom, text in by_atom.items():
        if atom.startswith("d") and tbl.get(atom[1:]) != text:
            bad.append(("result-not-indexed", "atom %s (%s) is not an index entry with that text: %s" % (atom, text, tbl.get(atom[1:]))))
    return bad


def features(trace):
    """contention / growth features of a trace (list of (tid, point))"""
    f = set()
    last = {}
    for (t, p) in trace:
        if p == 7:
            f.add("growth")
        if last.get(t) == 5 and p == 1:
            f.add("recheck_failed")
        if last.get(t) == 4 and p == 4:
            f.add("lock_blocked")
        if last.get(t) == 3 and p == 0:
            f.add("lookup_hit")
        last[t] = p
    # interleaving inside a critical section: another thread stepped between 5 and 10 of a thread
    owner = None
    for (t, p) in trace:
        if p == 5:
            owner = t
        elif owner is not None and t != owner:
            f.add("reader_inside_cs")
        if p == 10 or (owner == t and p == 1):
            owner = None
    return f


def run(ctx):
    rng, tier = ctx["rng"], ctx["tier"]
    rep = diff.replay_case(ctx)
    if rep is not None:
        cases = rep
    else:
        cases = diff.load_corpus("C32") + generate(rng, tier)
        seen = set()
        for n, c in enumerate(cases):
            if c["id"] in seen or "corpus" in c:
                nid = "k%d" % n
                c["impl"] = [l.replace("\t" + c["id"], "\t" + nid, 1) for l in c["impl"]]
                c["id"] = nid
            seen.add(c["id"])
    t0 = time.time()
    env = {"SV_TIMEOUT_MS": "60000"}
    heavy = [c for c in cases if c["mode"] == "AM"]
    light = [c for c in cases if c["mode"] != "AM"]
    impl = core.run_impl_parallel([c["impl"] for c in light], env=env, jobs=8) if light else {}
    # machine runs are multi-threaded and heavy: one at a time
    for c in heavy:
        impl.update(core.run_impl(c["impl"], env=env))
    flaky = [c for c in cases if transient(impl.get(c["id"], "missing"))]
    for c in flaky:
        impl.update(core.run_impl(c["impl"], env=env))
    t1 = time.time()
    if any(v.startswith("bad-op(") for v in impl.values()):
        # the harness does not know the family: hook patch / fam_c32.rs not applied yet
        return {"evaluations": 0, "distinct_nontrivial": 0, "rule": "hook missing", "samples": [],
                "traces_validated_against_impl": 0, "disagreements_checked": 0,
                "findings": [core.Finding("disagreement", {"family": "atomrace", "what": "hook-missing"},
                                          "the harness answers bad-op to AS/AF/AM/AX: apply notes/hooks/C32-repo.diff to /repo and add notes/hooks/fam_c32.rs to the harness (see notes/design/C32.md)", None)]}
    # model lines need the implementation's trace (scheduled) / nothing (free)
    mlines = []
    for c in cases:
        it = impl.get(c["id"], "missing")
        ax = impl.get(c["id"] + ".x", "")
        flags = ax.split(",") if ax else []
        statics = [x for x, fl in zip(c["texts"], flags) if fl == "1"]
        c["statics"] = statics
        st = ",".join(hx(x) for x in statics) if statics else "."
        sf = scripts_field(c["scripts"])
        if c["mode"] == "AS":
            trace = it.split(" | ")[0] if " | " in it else ""
            c["model"] = ["TR\t%s\t%d\t%s\t%s\t%s" % (c["id"], c["cap"], st, sf, trace)]
        else:
            c["model"] = ["RR\t%s\t%d\t%s\t%s\t%d" % (c["id"], c["cap"], st, sf, len(c["scripts"]))]
        mlines += c["model"]
    model = core.run_model(mlines) if mlines else {}
    core.log("[C32] %d cases: implementation %.1fs (%d retried), model %.1fs" % (len(cases), t1 - t0, len(flaky), time.time() - t1))

    findings, agree = [], 0
    distinct = set()
    feat_hit, kinds_hit, mode_hit = {}, {}, {}
    steps_total, growths_total, max_vers = 0, 0, 0
    samples = []
    for c in cases:
        it, mt = impl.get(c["id"], "missing"), model.get(c["id"], "missing")
        mode = c["mode"]
        mode_hit[mode] = mode_hit.get(mode, 0) + 1
        cc = {k: c[k] for k in ("id", "mode", "cap", "scripts", "sched_kind", "schedule", "mask", "seed", "texts", "impl") if k in c}
        sig0 = {"family": "atomrace", "mode": mode}
        if rep is not None:
            print("replay %s cap=%s scripts=%s\n schedule=%s\n impl : %s\n model: %s" % (mode, c["cap"], c["scripts"], c.get("schedule"), it, mt))
        if it.startswith("ERR") or it == "PANIC" or transient(it):
            findings.append(core.Finding("violation", dict(sig0, what="run-failed", impl=it[:30]),
                                         "the run did not complete on the implementation: %s" % it[:200], cc))
            continue
        if mode == "AS":
            trace_s, _, irep_s = it.partition(" | ")
            trace = [tuple(int(x) for x in w.split(":")) for w in trace_s.split()]
        else:
            trace, irep_s = [], it
        irep = parse_report(irep_s)
        mhead, _, mrep_s = mt.partition(" | ")
        mrep = parse_report(mrep_s)
        bad = oracle(c, irep)
        if mode == "AM":
            # the query's own verdict is carried in the read-back marker
            pass
        if bad:
            what, detail = bad[0]
            findings.append(core.Finding("violation", dict(sig0, what=what),
                                         "%s (cap=%d, %d threads, schedule kind %s)" % (detail, c["cap"], len(c["scripts"]), c.get("sched_kind")), cc))
            continue
        # ---- comparison with the model
        diffs = []
        if mode == "AS":
            if not mhead.startswith("ok"):
                diffs.append(("trace", mhead))
            for key in ("cap", "used", "vers", "lock"):
                if irep.get(key) != mrep.get(key):
                    diffs.append((key, "impl=%s model=%s" % (irep.get(key), mrep.get(key))))
            if irep["threads"] != mrep["threads"]:
                diffs.append(("results", "impl=%s model=%s" % (irep["threads"], mrep["threads"])))
            if irep["tbl"] != mrep["tbl"]:
                diffs.append(("index", "impl=%s model=%s" % (irep["tbl"], mrep["tbl"])))
            if irep.get("entries") != str(len(irep["tbl"])):
                diffs.append(("entries", "entries=%s listed=%d" % (irep.get("entries"), len(irep["tbl"]))))
        else:
            if mhead != "done":
                diffs.append(("model-fuel", mhead))
            # schedule-independent facts only
            def kinds(r):
                return [[(t, a if a in ("i", "s") else "d") for (t, a) in calls] for calls in r["threads"]]
            if kinds(irep) != kinds(mrep):
                diffs.append(("result-kinds", "impl=%s model=%s" % (kinds(irep), kinds(mrep))))
            iset = sorted(set(t for (_, t) in irep["tbl"]))
            mset = sorted(set(t for (_, t) in mrep["tbl"]))
            if mode == "AF":
                if iset != mset:
                    diffs.append(("index-set", "impl=%s model=%s" % (iset, mset)))
                for key in ("cap", "used"):
                    if irep.get(key) != mrep.get(key):
                        diffs.append((key, "impl=%s model=%s" % (irep.get(key), mrep.get(key))))
                if irep.get("entries") != str(len(mrep["tbl"])):
                    diffs.append(("entries", "impl=%s model=%d" % (irep.get("entries"), len(mrep["tbl"]))))
            else:
                # the index also holds the library's atoms; a script text may be one of them
                if not set(mset) <= set(iset):
                    diffs.append(("index-set", "missing %s" % sorted(set(mset) - set(iset))))
        if diffs:
            k, d = diffs[0]
            findings.append(core.Finding("disagreement", dict(sig0, what="impl-vs-model", field=k),
                                         "implementation and model differ in %s: %s" % (k, d[:300]), cc))
            continue
        agree += 1
        v = int(irep.get("vers", "1") or 1)
        max_vers = max(max_vers, v)
        growths_total += v - 1
        if mode == "AS":
            steps_total += len(trace)
            fs = features(trace)
            for f in fs:
                feat_hit[f] = feat_hit.get(f, 0) + 1
            kinds_hit[c.get("sched_kind", "?")] = kinds_hit.get(c.get("sched_kind", "?"), 0) + 1
            if fs & {"growth", "recheck_failed", "lock_blocked", "reader_inside_cs"}:
                distinct.add((scripts_field(c["scripts"]), c["cap"], trace_s))
        else:
            if v > 1 and len(c["scripts"]) > 1:
                distinct.add((scripts_field(c["scripts"]), c["cap"], c["mask"], c["seed"]))
        if len(samples) < 4 and (mode != "AS" or len(samples) < 2):
            samples.append({"mode": mode, "cap": c["cap"], "scripts": [[hx(x) for x in sc] for sc in c["scripts"]],
                            "schedule": c.get("schedule", [])[:60], "impl": it[:400]})
    return {
        "evaluations": len(cases),
        "distinct_nontrivial": len(distinct),
        "rule": "AS = scheduled runs: 2..8 threads, 1..7 texts each drawn from a small pool (overlap 0..90%, a quarter of the cases with identical scripts) of texts at the boundaries (empty, inlinable 1..6 bytes, NUL inside, static atoms, allocation sizes 8..312 bytes incl. texts larger than the whole first block, multi-byte), first block 8..1024 bytes, schedules: round-robin / uniform random / bursts / lockstep to the lookup then one after the other / one thread stopped mid-call while others complete calls; the implementation executes exactly the interleaving and the model replays its trace. AF = free OS threads (2..8, up to 40 texts each) with random yields/spins at chosen protocol points. AM = one Machine per thread. Non-trivial AS case = its trace contains a growth, a failed re-check, a blocked lock attempt or another thread stepping inside a critical section; distinct by (scripts, capacity, trace). Non-trivial AF/AM case = more than one thread and at least one growth",
        "samples": samples,
        "traces_validated_against_impl": agree,
        "disagreements_checked": len(cases) - agree,
        "modes": mode_hit,
        "schedule_kinds": kinds_hit,
        "trace_features_hit": feat_hit,
        "protocol_steps_replayed": steps_total,
        "growths_observed": growths_total,
        "max_block_versions_in_one_run": max_vers,
        "retried": len(flaky),
        "findings": findings,
    }
