"""C09 — Dynamic predicates follow the logical update view.

One *case* is a small program over 1-3 dynamic predicates `d<n>_<p>/2` (first argument = key:
integer, atom or variable; second = a number identifying the clause) plus a script of nested
failure-driven loops `( Goal, Body, fail ; true )` whose goal is a call, `clause/2` or `retract/1`
and whose bodies assert / retract / retractall / abolish the predicates being iterated, call them
again, and log through a second dynamic predicate `lg<n>/1` (which survives backtracking).
Three logs are compared:

* implementation (sv-harness): `run<n>.` then `findall(T, lg<n>(T), L)`,
* model: `drv_C09` running the mirrored dispatch protocol of `Model/Luv.lean` (repaired variant `11`;
  the theorems of `Props/C09.lean` prove it equal to the snapshot specification),
* the property's own oracle, computed here: every goal iterates over the list of clauses that
  existed when it was called.

The pinned variants of the model (`01` stale cc register on retry, `10` absolute index into a
DynamicIndexedChoice line, `00` both) are run too, only to label a violation with the defect that
explains it (`explained_by`).
"""
import json
import re
import time

from .. import core, diff

LEVEL = "proof"
TRUSTED_BASE = [
    "vlib/props/C09.py: rendering of an abstract script to Prolog text and to driver tokens; the plain-list oracle interpreter (`Oracle`)",
    "lean/ScryerModel/Drv/C09.lean: the script interpreter around the model's walkers (a shared clock for all predicates, one tick per log entry)",
    "Model abstractions (notes/design/C09.md): code addresses are clause identifiers, chains are lists, a DynamicIndexedChoice line is the chain filtered by key, abolish is an atomic retraction of all live clauses, predicates with mixed variable/constant first arguments (several subsequences) walk as one chain",
]
ASSUMPTIONS = [
    "clause values are integers, keys are integers/atoms/variables: head unification is equality of key and value",
    "logging with assertz/1 on a separate dynamic predicate and a bb_put/2 counter does not disturb the predicates under test other than by advancing the global clock (modelled)",
    "a case whose run times out twice (once alone on a fresh machine) is reported as non-termination",
]

LOG_LIMIT = 400
KEYTXT = {1: "1", 2: "2", 3: "3", 4: "ka", 5: "kb"}


# ------------------------------------------------------------------ rendering

def ktxt(k):
    return "_" if k is None else KEYTXT[k]


def ktok(k):
    return "_" if k is None else str(k)


class Render:
    def __init__(self, n, abolished):
        self.n = n
        self.abolished = abolished
        self.fresh = 0

    def pred(self, p):
        return "d%d_%s" % (self.n, p)

    def call(self, p, a, b):
        if p in self.abolished:
            return "cl%d_%s(%s, %s)" % (self.n, p, a, b)
        return "%s(%s, %s)" % (self.pred(p), a, b)

    def var(self, stem):
        self.fresh += 1
        return "%s%d" % (stem, self.fresh)

    def conj(self, stmts, depth):
        if not stmts:
            return "true"
        return ", ".join(self.stmt(s, depth) for s in stmts)

    def stmt(self, s, depth):
        op = s[0]
        if op in ("az", "aa"):
            return "%s(%s(%s, %d))" % ("assertz" if op == "az" else "asserta", self.pred(s[1]), ktxt(s[2]), s[3])
        if op == "r1":
            return "( retract(%s(%s, %s)) -> true ; true )" % (self.pred(s[1]), ktxt(s[2]), "_" if s[3] is None else s[3])
        if op == "ra":
            return "retractall(%s(%s, %s))" % (self.pred(s[1]), ktxt(s[2]), "_" if s[3] is None else s[3])
        if op == "ab":
            return "abolish(%s/2)" % self.pred(s[1])
        if op == "lg":
            return "lgw%d(l(%d, [%s]))" % (self.n, s[1], ",".join("X%d" % i for i in range(depth)))
        if op == "ob":
            x, l = self.var("Y"), self.var("L")
            return "findall(%s, %s, %s), lgw%d(o(%d, %s))" % (x, self.call(s[2], ktxt(s[3]), x), l, self.n, s[1], l)
        if op == "tc":
            return "( \\+ %s -> true ; true )" % self.call(s[1], "_", "_")
        if op == "lp":
            g, p, kp, vp, body = s[1], s[2], s[3], s[4], s[5]
            x = "X%d" % depth
            pre = "" if vp is None else "%s = %d, " % (x, vp)
            if g == "c":
                goal = self.call(p, ktxt(kp), x)
            elif g == "k":
                goal = "clause(%s(%s, %s), true)" % (self.pred(p), ktxt(kp), x)
            else:
                goal = "retract(%s(%s, %s))" % (self.pred(p), ktxt(kp), x)
            return "( %s%s, %s, fail ; true )" % (pre, goal, self.conj(body, depth + 1))
        if op == "if":
            return "( X%d =:= %d -> %s ; true )" % (s[1], s[2], self.conj(s[3], depth))
        raise ValueError(op)


def tokens(stmts, kinds):
    out = []
    for s in stmts:
        op = s[0]
        if op in ("az", "aa"):
            out += [op, s[1], ktok(s[2]), str(s[3])]
        elif op in ("r1", "ra"):
            out += [op, s[1], ktok(s[2]), "_" if s[3] is None else str(s[3])]
        elif op == "ab":
            out += ["ab", s[1]]
        elif op == "lg":
            out += ["lg", str(s[1])]
        elif op == "ob":
            out += ["ob", str(s[1]), s[2], ktok(s[3])]
        elif op == "tc":
            out += ["tc", s[1]]
        elif op == "lp":
            h = "b" if (s[1] == "c" and kinds.get(s[2]) == "i" and s[3] is not None) else "c"
            out += ["lp", s[1], h, s[2], ktok(s[3]), "_" if s[4] is None else str(s[4]), "("]
            out += tokens(s[5], kinds) + [")"]
        elif op == "if":
            out += ["if", str(s[1]), str(s[2]), "("] + tokens(s[3], kinds) + [")"]
        else:
            raise ValueError(op)
    return out


def walk(stmts):
    for s in stmts:
        yield s
        if s[0] == "lp":
            yield from walk(s[5])
        elif s[0] == "if":
            yield from walk(s[3])


def make_case(n, c):
    """c: {"preds": {p: kind}, "init": [[p,k,v]…], "script": […]} -> harness and driver lines."""
    abolished = {s[1] for s in walk(c["script"]) if s[0] == "ab"}
    r = Render(n, abolished)
    lines = []
    for p in c["preds"]:
        lines.append(":- dynamic(%s/2)." % r.pred(p))
    lines.append(":- dynamic(lg%d/1)." % n)
    for p, k, v in c["init"]:
        lines.append("%s(%s, %d)." % (r.pred(p), ktxt(k), v))
    for p in sorted(abolished):
        lines.append("cl%d_%s(K, X) :- catch(%s(K, X), error(existence_error(_, _), _), fail)." % (n, p, r.pred(p)))
    lines.append("lgw%d(T) :- assertz(lg%d(T)), bb_get(cn%d, C), C1 is C + 1, bb_put(cn%d, C1), "
                 "( C1 > %d -> throw(runaway) ; true )." % (n, n, n, n, LOG_LIMIT))
    lines.append("run%d :- bb_put(cn%d, 0), %s." % (n, n, r.conj(c["script"], 0)))
    prog = "\n".join(lines) + "\n"
    cid = "c9_%d" % n
    impl = [
        "Q\t%s.u\t1\tuse_module(library(iso_ext))." % cid,
        "L\t%s.l\tuser\t%s" % (cid, prog.replace("\\", "\\\\").replace("\n", "\\n")),
        "Q\t%s.r\t2\tcatch(run%d, runaway, true)." % (cid, n),
        "Q\t%s.g\t1\tfindall(T, lg%d(T), L)." % (cid, n),
    ]
    inits = []
    seen = set()
    for p in c["preds"]:
        inits.append(p)
    for p, k, v in c["init"]:
        inits.append("%s:%s:%d" % (p, ktok(k), v))
    init = " ".join(inits) if inits else "-"
    script = " ".join(tokens(c["script"], c["preds"]))
    model = ["run\t%s.m%s\t%s\t%s\t%s" % (cid, v, v, init, script) for v in ("11", "01", "10", "00")]
    d = dict(c)
    d.update({"id": cid, "n": n, "impl": impl, "model": model, "prolog": prog})
    return d


# ------------------------------------------------------------------ oracle

class Runaway(Exception):
    pass


def kmatch(kp, k):
    return kp is None or k is None or kp == k


def cmatch(kp, vp, cl):
    return kmatch(kp, cl[1]) and (vp is None or vp == cl[2])


class Oracle:
    """The specification: each predicate is a plain list of clauses; a goal iterates over the list
    as it was when the goal was called."""

    def __init__(self, c):
        self.db = {p: [] for p in c["preds"]}
        self.uid = 0
        self.log = []
        self.active = []          # predicates being iterated
        self.interference = 0     # updates of a predicate while a goal over it is active
        self.kinds = set()
        for p, k, v in c["init"]:
            self.db[p].append((self.new(), k, v))

    def new(self):
        self.uid += 1
        return self.uid

    def say(self, s):
        self.log.append(s)
        if len(self.log) > LOG_LIMIT:
            raise Runaway()

    def touch(self, p, what):
        if p in self.active:
            self.interference += 1
            self.kinds.add(what)

    def run(self, stmts, env):
        for s in stmts:
            op = s[0]
            if op == "az":
                self.touch(s[1], "az")
                self.db[s[1]] = self.db[s[1]] + [(self.new(), s[2], s[3])]
            elif op == "aa":
                self.touch(s[1], "aa")
                self.db[s[1]] = [(self.new(), s[2], s[3])] + self.db[s[1]]
            elif op == "r1":
                for cl in self.db[s[1]]:
                    if cmatch(s[2], s[3], cl):
                        self.touch(s[1], "r1")
                        self.db[s[1]] = [x for x in self.db[s[1]] if x[0] != cl[0]]
                        break
            elif op == "ra":
                if any(cmatch(s[2], s[3], cl) for cl in self.db[s[1]]):
                    self.touch(s[1], "ra")
                self.db[s[1]] = [x for x in self.db[s[1]] if not cmatch(s[2], s[3], x)]
            elif op == "ab":
                if self.db[s[1]]:
                    self.touch(s[1], "ab")
                self.db[s[1]] = []
            elif op == "lg":
                self.say("l%d:%s" % (s[1], ",".join(str(x) for x in env)))
            elif op == "ob":
                self.say("o%d:%s" % (s[1], ",".join(str(cl[2]) for cl in self.db[s[2]] if kmatch(s[3], cl[1]))))
            elif op == "tc":
                pass
            elif op == "if":
                if env[s[1]] == s[2]:
                    self.run(s[3], env)
            elif op == "lp":
                g, p, kp, vp, body = s[1], s[2], s[3], s[4], s[5]
                snap = [cl for cl in self.db[p] if cmatch(kp, vp, cl)]
                self.active.append(p)
                for cl in snap:
                    if g == "r":
                        self.db[p] = [x for x in self.db[p] if x[0] != cl[0]]
                    self.run(body, env + [cl[2]])
                self.active.pop()
        return self


def oracle(c):
    o = Oracle(c)
    try:
        o.run(c["script"], [])
        return ";".join(o.log), o
    except Runaway:
        return ";".join(o.log) + "|runaway", o


# ------------------------------------------------------------------ generator

def gen_case(rng, tier):
    npred = rng.choice([1, 1, 1, 2, 2, 3])
    names = ["p", "q", "r"][:npred]
    preds = {p: rng.choice(["i", "i", "u", "m"]) for p in names}
    val = [0]

    def newval():
        val[0] += 1
        return val[0]

    def key(p):
        k = preds[p]
        if k == "u":
            return None
        pool = [1, 1, 2, 4]
        if k == "m" and rng.random() < 0.4:
            return None
        return rng.choice(pool)

    init = []
    known = {p: [] for p in names}
    for p in names:
        for _ in range(rng.choice([0, 1, 2, 3, 3, 4, 5])):
            v = newval()
            init.append([p, key(p), v])
            known[p].append(v)
    fam = rng.choice(["c", "c", "c", "k", "r", "x"])   # x = mixed goals
    tag = [0]

    def newtag():
        tag[0] += 1
        return tag[0]

    def kpat(p):
        if preds[p] == "u":
            return rng.choice([None, None, 1])
        return rng.choice([None, 1, 1, 2, 4])

    def update(p):
        r = rng.random()
        if r < 0.30:
            v = newval()
            known[p].append(v)
            return ["az", p, key(p), v]
        if r < 0.55:
            v = newval()
            known[p].append(v)
            return ["aa", p, key(p), v]
        if r < 0.80:
            vp = rng.choice(known[p]) if known[p] and rng.random() < 0.8 else None
            return ["r1", p, None if vp is not None or rng.random() < 0.5 else kpat(p), vp]
        if r < 0.92:
            if rng.random() < 0.5 and known[p]:
                return ["ra", p, None, rng.choice(known[p])]
            return ["ra", p, kpat(p), None]
        return ["ab", p]

    def updates(p):
        us = [update(p if rng.random() < 0.8 else rng.choice(names)) for _ in range(rng.choice([1, 1, 2, 3]))]
        r = rng.random()
        if r < 0.35:
            us.append(["tc", rng.choice(names)])
        elif r < 0.55:
            us.append(["ob", newtag(), p, kpat(p) if rng.random() < 0.3 else None])
        return us

    def loop(depth, maxdepth):
        p = rng.choice(names)
        g = fam if fam != "x" else rng.choice(["c", "k", "r"])
        vp = None
        if rng.random() < 0.08 and known[p]:
            vp = rng.choice(known[p])
        body = []
        nb = rng.choice([1, 1, 2, 2, 3])
        for _ in range(nb):
            r = rng.random()
            if r < 0.5:
                d = rng.randrange(depth + 1)
                cand = known[p] if known[p] else [1]
                body.append(["if", d, rng.choice(cand), updates(p)])
            elif r < 0.62:
                body += updates(p)
            elif r < 0.85 and depth + 1 < maxdepth:
                body.append(loop(depth + 1, maxdepth))
            elif r < 0.93:
                body.append(["tc", rng.choice(names)])
            else:
                body.append(["lg", newtag()])
        # the log entry ticks the global clock: in a third of the loops it comes last, so that the
        # first update happens in the very generation the goal captured
        if rng.random() < 0.65:
            body = [["lg", newtag()]] + body
        else:
            body = body + [["lg", newtag()]]
        return ["lp", g, p, kpat(p), vp, body]

    maxdepth = 2 if tier == "quick" or rng.random() < 0.7 else 3
    script = []
    for _ in range(rng.choice([1, 1, 2, 3])):
        r = rng.random()
        if r < 0.75:
            script.append(loop(0, maxdepth))
        else:
            script += updates(rng.choice(names))
    for p in names:
        script.append(["ob", newtag(), p, None])
    return {"preds": preds, "init": init, "script": script, "family": {"c": "call", "k": "clause", "r": "retract", "x": "mixed"}[fam]}


# ------------------------------------------------------------------ judge

ENT = re.compile(r"'([lo])'\((-?\d+),(?:\[([^\]]*)\]|\"\")\)")


def parse_log(r):
    """`{L=['l'(1,[3,4]),'o'(2,[])]}` -> `l1:3,4;o2:`"""
    if r is None:
        return "missing"
    r = r.split(" ;; ")[0]
    if r.startswith("{L=") and r.endswith("}"):
        body = r[3:-1]
        if body == "[]" or body == '""':
            return ""
        out = []
        pos = 1
        while pos < len(body) - 1:
            m = ENT.match(body, pos)
            if not m:
                return "unparsed:" + r[:200]
            out.append("%s%s:%s" % (m.group(1), m.group(2), m.group(3) or ""))
            pos = m.end() + 1
        return ";".join(out)
    return "unparsed:" + r[:200]


def impl_log(c, impl):
    i = c["id"]
    u, l, r, g = (impl.get(i + s, "missing") for s in (".u", ".l", ".r", ".g"))
    if l != "loaded" or not u.startswith("true"):
        return "setup-failed:%s/%s" % (u[:80], l[:80])
    if r.startswith("timeout"):
        return "|timeout"
    if not (r.startswith("true") or r.startswith("{")):
        return "run:%s" % r[:200]
    lg = parse_log(g)
    if lg.count(";") + 1 > LOG_LIMIT:
        lg += "|runaway"
    return lg


def flaky(v):
    return v.startswith("setup-failed") or v == "|timeout" or v.startswith("run:panic") or v.startswith("run:abort") \
        or v.startswith("run:missing") or v.startswith("unparsed") or v == "missing"


IMPL_ENV = {"SV_TIMEOUT_MS": "4000"}
IMPL_ENV_RETRY = {"SV_TIMEOUT_MS": "10000"}
VARIANT_NAME = {"01": "stale-cc-on-retry", "10": "absolute-line-index", "00": "stale-cc+absolute-line-index"}


def first_diff(a, b):
    xa, xb = a.split(";"), b.split(";")
    for i, (x, y) in enumerate(zip(xa, xb)):
        if x != y:
            return i, x, y
    return min(len(xa), len(xb)), (xa[len(xb)] if len(xa) > len(xb) else "<end>"), (xb[len(xa)] if len(xb) > len(xa) else "<end>")


def strip_case(c):
    return {k: c[k] for k in ("id", "n", "preds", "init", "script", "family", "impl", "model", "prolog") if k in c}


def judge(cases, impl, model, findings, stats, verbose=False):
    agree = 0
    for c in cases:
        iv = c.get("impl_log") or impl_log(c, impl)
        ov, o = oracle(c)
        mv = model.get(c["id"] + ".m11", "missing")
        if verbose:
            print("replay %s\n%s impl  =%s\n model =%s\n oracle=%s" % (c["id"], c["prolog"], iv, mv, ov))
            for v in ("01", "10", "00"):
                print(" model[%s]=%s" % (v, model.get(c["id"] + ".m" + v)))
        stats["interference"] = stats.get("interference", 0) + o.interference
        for k in o.kinds:
            stats["upd_" + k] = stats.get("upd_" + k, 0) + 1
        if iv == mv == ov:
            agree += 1
            continue
        if mv != ov:
            findings.append(core.Finding("disagreement", {"family": c["family"], "what": "model-vs-oracle", "id": c["id"]},
                                         "the mirrored model (variant 11) and the plain-list oracle differ: model=%s oracle=%s" % (mv[:300], ov[:300]),
                                         strip_case(c)))
            continue
        expl = "none"
        for v in ("01", "10", "00"):
            pv = model.get(c["id"] + ".m" + v, "missing")
            if pv == iv or ((iv == "|timeout" or iv.startswith("run:")) and pv.endswith("|stuck")) or \
                    (iv.endswith("|runaway") and pv.endswith("|runaway") and iv.split(";")[:50] == pv.split(";")[:50]):
                expl = VARIANT_NAME[v]
                break
        if iv == "|timeout":
            kind, where, got, want = "non-termination", "-", "timeout", "-"
        elif iv.endswith("|runaway"):
            kind = "runaway-iteration"
            where, got, want = first_diff(iv, ov)
        elif flaky(iv) or iv.startswith("run:"):
            kind, where, got, want = "failed-run", "-", iv[:120], "-"
        else:
            kind = "wrong-sequence"
            where, got, want = first_diff(iv, ov)
        sig = {"family": c["family"], "kind": kind, "explained_by": expl}
        if expl == "none":
            # an unexplained difference is identified by its abstract history (independent of the case
            # numbering), so that a listed finding covers exactly that history and nothing else
            import hashlib as _hl
            sig["history"] = _hl.sha1(json.dumps(c.get("script"), sort_keys=True).encode()).hexdigest()[:12]
        findings.append(core.Finding(
            "violation", sig,
            "logged sequence differs from the logical update view at entry %s: implementation %s, specification %s" % (where, got, want),
            strip_case(c)))
    return agree


def run(ctx):
    rng = ctx["rng"]
    tier = ctx["tier"]
    t0 = time.time()
    rep = diff.replay_case(ctx)
    stats = {}
    findings = []
    if rep is not None:
        cases = [make_case(c.get("n", 900000 + i), c) for i, c in enumerate(rep)]
        impl, model = diff.run_cases(cases, impl_env=IMPL_ENV_RETRY, parallel=False)
        agree = judge(cases, impl, model, findings, stats, verbose=True)
        return {"evaluations": len(cases), "distinct_nontrivial": 0, "rule": "replay", "samples": [],
                "traces_validated_against_impl": agree, "disagreements_checked": len(cases) - agree,
                "findings": findings}
    cases = []
    n = 0
    for c in diff.load_corpus("C09"):
        n += 1
        cases.append(make_case(n, c))
    ncorpus = n
    total = 400 if tier == "quick" else 6000
    while len(cases) < ncorpus + total:
        n += 1
        cases.append(make_case(n, gen_case(rng, tier)))
    impl, model = diff.run_cases(cases, impl_env=IMPL_ENV)
    # a line whose only problem is a timeout / a failed set-up (load) is run once more, alone
    retried = 0
    for c in cases:
        v = impl_log(c, impl)
        # a hang that a pinned variant of the model predicts (`|stuck`) is not load: no second run
        predicted = any(model.get(c["id"] + ".m" + x, "").endswith("|stuck") for x in ("01", "10", "00"))
        if (flaky(v) or v.startswith("run:")) and not predicted:
            retried += 1
            if retried <= 12:
                i2, _ = diff.run_cases([{"impl": ["R\t%s.R" % c["id"]] + c["impl"]}], impl_env=IMPL_ENV_RETRY, parallel=False)
                v = impl_log(c, i2)
        c["impl_log"] = v
    agree = judge(cases, impl, model, findings, stats)
    distinct = set()
    fam = {}
    for c in cases:
        _, o = oracle(c)
        if o.interference > 0:
            distinct.add(json.dumps([c["init"], c["script"]]))
        fam[c["family"]] = fam.get(c["family"], 0) + 1
    core.log("[C09] %d cases (%d corpus), %.1fs, %d retried, %d agree" % (len(cases), ncorpus, time.time() - t0, retried, agree))
    # deduplicate findings by signature (keep the smallest case of each)
    best = {}
    for f in findings:
        k = json.dumps(f.sig, sort_keys=True)
        if k not in best or len(f.case.get("prolog", "")) < len(best[k].case.get("prolog", "")):
            best[k] = f
    return {
        "evaluations": len(cases),
        "distinct_nontrivial": len(distinct),
        "rule": "random scripts of nested failure-driven loops (goal = call / clause/2 / retract/1, depth <= 2 quick, <= 3 thorough) over 1-3 dynamic predicates with constant, variable or mixed first arguments, bodies asserting/retracting/abolishing the iterated predicates conditionally on the current clause, re-calling them, logging; non-trivial = the oracle run updates a predicate while a goal over it is active; distinct by (initial clauses, script)",
        "samples": [c["prolog"] for c in cases[ncorpus:ncorpus + 2]],
        "traces_validated_against_impl": agree,
        "disagreements_checked": len(cases) - agree,
        "violations_before_dedup": len(findings),
        "families": fam,
        "interfering_updates": {k: v for k, v in stats.items()},
        "retried_after_timeout": retried,
        "exhaustive": False,
        "findings": list(best.values()),
    }
