"""C07 — Compiled programs compute ISO SLD-resolution answers.

One abstract *case* = a small program (clause list over terms) + a few queries. From it we produce
  * Prolog text, consulted with an `L` line (static code, compiled by the WAM code generator); each
    query is one more clause `q<k>_<id>(R) :- R = v(Vars…), Goal` so that the observed answer is the
    single binding `R = v(…)`, and the harness line `Q … q<k>_<id>(R).` delivers the answer sequence
    and the uncaught ball;
  * the same clause list in the harness' canonical term syntax for `drv_C07`
    (`Scryer.Solve.solve`, the reference interpreter the theorems of Props/C07.lean talk about).
The model runs first; cases it cannot decide (out of fuel, cyclic binding) are dropped and counted.
Answers are compared after renaming variables by first occurrence; `error(F, Ctx)` terms by `F`.

Terms are tuples: ('v',name) ('i',n) ('a',name) ('s',functor,[args]).
"""
import json
import os
import re
import select
import subprocess
import time
from concurrent.futures import ThreadPoolExecutor

from .. import core, diff

LEVEL = "proof"
TRUSTED_BASE = [
    "Scryer.Solve.solve (Model/Solve.lean) is taken as the definition of ISO depth-first, left-to-right resolution with cut, if-then-else, \\+, call/N, catch/throw, findall (its laws are proved in Props/C07.lean; it is not derived from the text of the standard)",
    "vlib/props/C07.py renders one abstract clause list both as Prolog text (operators only for , ; -> :-, everything else in functional notation) and in the canonical term syntax read by drv_C07",
    "the WAM code generator, register allocator, environment trimming, last-call optimisation and cut-barrier handling are NOT modelled: they are tied to the reference only by differential execution",
    "answers are compared up to renaming of variables; the context argument of error/2 is implementation defined and ignored",
]
ASSUMPTIONS = [
    "programs stay inside the model's domain: integer arithmetic only, no cyclic bindings (a binding that would create a cyclic term makes the model give up and the case is dropped), termination within the fuel schedule (otherwise dropped and counted)",
    "flags at their defaults (unknown=error, occurs_check=false, double_quotes=chars)",
    "when one arithmetic expression contains several independent errors, which one is reported is not compared (evaluation order of arithmetic operands is not fixed by the standard)",
]

MAXA = 8

# ------------------------------------------------------------------ terms


def V(n):
    return ('v', n)


def A(n):
    return ('a', n)


def I(n):
    return ('i', n)


def S(f, *args):
    return ('s', f, list(args))


NIL = A('[]')
TRUE = A('true')
FAIL = A('fail')
CUT = A('!')


def lst(xs, tail=NIL):
    t = tail
    for x in reversed(xs):
        t = S('.', x, t)
    return t


def conj(gs):
    if not gs:
        return TRUE
    t = gs[-1]
    for g in reversed(gs[:-1]):
        t = S(',', g, t)
    return t


def term_vars(t, acc):
    if t[0] == 'v':
        if t[1] not in acc:
            acc.append(t[1])
    elif t[0] == 's':
        for a in t[2]:
            term_vars(a, acc)
    return acc


def term_size(t):
    return 1 + (sum(term_size(a) for a in t[2]) if t[0] == 's' else 0)


def functors(t, acc):
    if t[0] == 's':
        acc.add("%s/%d" % (t[1], len(t[2])))
        for a in t[2]:
            functors(a, acc)
    elif t[0] == 'a':
        acc.add(t[1] + "/0")
    return acc


def to_tuple(t):
    """JSON round trip: lists -> tuples."""
    if t[0] == 's':
        return ('s', t[1], [to_tuple(a) for a in t[2]])
    return tuple(t)


# ------------------------------------------------------------------ rendering

def q_atom(a):
    return "'" + a.replace("\\", "\\\\").replace("'", "\\'") + "'"


def pl(t):
    """Prolog text. Operators only for the control constructs (always parenthesised) and lists."""
    k = t[0]
    if k == 'v':
        return t[1]
    if k == 'i':
        return str(t[1])
    if k == 'a':
        if t[1] in ('[]', '!'):
            return t[1]
        return q_atom(t[1]) if not re.fullmatch(r"[a-z][a-zA-Z0-9_]*", t[1]) else t[1]
    f, args = t[1], t[2]
    if len(args) == 2 and f in (',', ';', '->'):
        return "(" + pl(args[0]) + " " + f + " " + pl(args[1]) + ")"
    if f == '.' and len(args) == 2:
        items = [args[0]]
        tl = args[1]
        while tl[0] == 's' and tl[1] == '.' and len(tl[2]) == 2:
            items.append(tl[2][0])
            tl = tl[2][1]
        s = ",".join(pl(x) for x in items)
        return "[" + s + "]" if tl == NIL else "[" + s + "|" + pl(tl) + "]"
    if f == '\\+' and len(args) == 1:
        return "\\+(" + pl(args[0]) + ")"
    name = f if re.fullmatch(r"[a-z][a-zA-Z0-9_]*", f) else q_atom(f)
    return name + "(" + ",".join(pl(a) for a in args) + ")"


def canon(t):
    """canonical syntax of the harness (read by Drv/TermIO.parseTermStr)."""
    k = t[0]
    if k == 'v':
        return t[1]
    if k == 'i':
        return str(t[1])
    if k == 'a':
        return "[]" if t[1] == '[]' else q_atom(t[1])
    return q_atom(t[1]) + "(" + ",".join(canon(a) for a in t[2]) + ")"


def clause_pl(c):
    h, b = c
    return pl(h) + "." if b == TRUE else pl(h) + " :- " + pl(b) + "."


def clause_canon(c):
    h, b = c
    return canon(h) if b == TRUE else "':-'(%s,%s)" % (canon(h), canon(b))


# ------------------------------------------------------------------ answer parser / canonicaliser

class P:
    def __init__(self, s):
        self.s, self.i = s, 0

    def peek(self):
        return self.s[self.i] if self.i < len(self.s) else ""

    def quoted(self, q):
        self.i += 1
        out = []
        while True:
            c = self.s[self.i]
            if c == "\\":
                d = self.s[self.i + 1]
                if d == "x":
                    j = self.s.index("\\", self.i + 2)
                    out.append(chr(int(self.s[self.i + 2:j], 16)))
                    self.i = j + 1
                else:
                    out.append(d)
                    self.i += 2
            elif c == q:
                self.i += 1
                return "".join(out)
            else:
                out.append(c)
                self.i += 1

    def args(self, close):
        out = []
        while True:
            out.append(self.term())
            c = self.s[self.i]
            self.i += 1
            if c == close:
                return out
            if c != ",":
                raise ValueError("bad separator in %r at %d" % (self.s, self.i))

    NUM = re.compile(r"-?\d+")
    VAR = re.compile(r"[A-Za-z_][A-Za-z0-9_]*")
    OTHER = re.compile(r"r\(-?\d+,\d+\)|f\([0-9a-f]{16}\)")

    def term(self):
        c = self.peek()
        if c == "'":
            name = self.quoted("'")
            if self.peek() == "(":
                self.i += 1
                return ('s', name, self.args(")"))
            return ('a', name)
        if c == '"':
            return lst([A(ch) for ch in self.quoted('"')])
        if c == "[":
            self.i += 1
            if self.peek() == "]":
                self.i += 1
                return NIL
            return lst(self.args("]"))
        m = self.OTHER.match(self.s, self.i)
        if m:
            self.i = m.end()
            return ('o', m.group(0))
        m = self.NUM.match(self.s, self.i)
        if m:
            self.i = m.end()
            return ('i', int(m.group(0)))
        m = self.VAR.match(self.s, self.i)
        if m:
            self.i = m.end()
            return ('v', m.group(0))
        raise ValueError("cannot parse %r at %d" % (self.s, self.i))


def parse_canon(s):
    p = P(s)
    t = p.term()
    if p.i != len(s):
        raise ValueError("trailing text in %r at %d" % (s, p.i))
    return t


def normalise(t, names):
    """rename variables by first occurrence; blank the context of error/2 terms."""
    k = t[0]
    if k == 'v':
        if t[1] not in names:
            names[t[1]] = "_%d" % len(names)
        return names[t[1]]
    if k == 'i':
        return str(t[1])
    if k == 'a':
        return "[]" if t[1] == '[]' else q_atom(t[1])
    if k == 'o':
        return t[1]
    if t[1] == 'error' and len(t[2]) == 2:
        return "'error'(" + normalise(t[2][0], names) + ",*)"
    return q_atom(t[1]) + "(" + ",".join(normalise(a, names) for a in t[2]) + ")"


def norm_text(s):
    return normalise(parse_canon(s), {})


def split_items(s):
    return [x for x in s.split(" ;; ")] if s else []


def impl_items(res):
    """harness result -> (items, truncated) or None if the line is inconclusive (timeout etc.).
    item = ('ans', text) | ('exc', text). The query is `catch(q(_R),_B,true),copy_term(_R-_B,R-B)`:
    an answer binds R, a ball binds B (and is the last item)."""
    if res is None:
        return None
    its = split_items(res.strip())
    trunc = False
    if its and its[-1] == "...":
        trunc = True
        its = its[:-1]
    if its and its[-1] == "false":
        its = its[:-1]       # "no more answers" (a choice point was left): not an item
    out = []
    for x in its:
        if x in ("{}", "true"):
            out.append(('ans', '_0'))
            continue
        if not (x.startswith("{") and x.endswith("}")):
            return None      # timeout / panic / error outside the catch: not interpretable here
        try:
            b = parse_bindings(x[1:-1])
        except (ValueError, IndexError):
            return None
        if "B" in b:
            out.append(('exc', normalise(b["B"], {})))
        elif "R" in b:
            out.append(('ans', normalise(b["R"], {})))
        else:
            out.append(('ans', '_0'))
    return out, trunc


def parse_bindings(body):
    """`X=term,Y=term` -> {name: parsed term}."""
    p = P(body)
    out = {}
    while p.i < len(body):
        m = P.VAR.match(body, p.i)
        if not m or body[m.end():m.end() + 1] != "=":
            raise ValueError("bad binding in %r at %d" % (body, p.i))
        p.i = m.end() + 1
        out[m.group(0)] = p.term()
        if p.i < len(body):
            if body[p.i] != ",":
                raise ValueError("bad separator in %r at %d" % (body, p.i))
            p.i += 1
    return out


def model_items(res):
    """driver result -> (items, truncated) | 'oof' | None."""
    if res is None:
        return None
    if res.startswith("oof"):
        return 'oof'
    m = re.match(r"R (\d+) (\d+) ::(.*)$", res)
    if not m:
        return None
    its = split_items(m.group(3).strip())
    trunc = False
    if its and its[-1] == "...":
        trunc = True
        its = its[:-1]
    out = []
    for x in its:
        if x.startswith("exception(") and x.endswith(")"):
            out.append(('exc', norm_text(x[10:-1])))
        else:
            out.append(('ans', norm_text(x)))
    return out, trunc


# ------------------------------------------------------------------ generator

ATOMS = ['a', 'b', 'c']
INTS = [0, 1, 2, 3, -1]
TYPE_TESTS = ['var', 'nonvar', 'atom', 'integer', 'number', 'atomic', 'compound', 'callable']
CMPS = ['=:=', '=\\=', '<', '=<', '>', '>=']
BINOPS = ['+', '-', '*', '//', 'mod', 'rem', 'div', 'min', 'max', '>>', '<<', '/\\', '\\/', 'xor', 'gcd', '^']
UNOPS = ['-', 'abs', 'sign', '+', '\\']


class Gen:
    """generator of one program. `preds` = [(name, arity)], predicate i only calls j > i (and the
    recursive library predicates), so every call graph is acyclic apart from structural recursion."""

    def __init__(self, rng, cid):
        self.rng = rng
        self.cid = cid
        self.preds = []
        self.lib = []        # recursive helper predicates (name, arity)
        self.void = 0
        self.features = set()

    # --- variables
    def new_pool(self):
        r = self.rng.random()
        n = self.rng.choice([1, 2, 2, 3, 3, 4, 5]) if r < 0.9 else self.rng.randint(9, 12)
        self.pool = ["V%d" % i for i in range(n)]

    def var(self):
        if self.rng.random() < 0.06:
            self.void += 1
            return V("_W%d" % self.void)
        return V(self.rng.choice(self.pool))

    # --- data terms
    def data(self, depth=2):
        r = self.rng.random()
        if r < 0.38 or depth == 0 and r < 0.5:
            return self.var()
        if r < 0.55:
            return A(self.rng.choice(ATOMS + ['[]']))
        if r < 0.72 or depth == 0:
            return I(self.rng.choice(INTS))
        k = self.rng.random()
        if k < 0.35:
            return S('f', self.data(depth - 1))
        if k < 0.6:
            return S('g', self.data(depth - 1), self.data(depth - 1))
        if k < 0.9:
            n = self.rng.choice([1, 1, 2, 3])
            tail = NIL if self.rng.random() < 0.75 else self.var()
            return lst([self.data(depth - 1) for _ in range(n)], tail)
        return S('-', self.data(depth - 1), self.data(depth - 1))

    def expr(self, depth=2):
        r = self.rng.random()
        if depth == 0 or r < 0.3:
            k = self.rng.random()
            if k < 0.6:
                return I(self.rng.choice(INTS + [5, 7, 10]))
            # no atom / non-evaluable compound literals: the compiler checks them at load time
            return self.var()
        if r < 0.85:
            op = self.rng.choice(BINOPS[:8]) if self.rng.random() < 0.8 else self.rng.choice(BINOPS)
            return S(op, self.expr(depth - 1), self.expr(depth - 1))
        op = self.rng.choice(UNOPS)
        e = self.expr(depth - 1)
        if e[0] == 'i' and op in ('-', '+'):
            op = 'abs'        # -(1) / +(1): the reader's treatment of signed numerals is not our subject
        return S(op, e)

    # --- goals
    def callable_targets(self, level):
        return [p for i, p in enumerate(self.preds) if i > level] + self.lib

    def user_call(self, level):
        ts = self.callable_targets(level)
        if not ts:
            return S('=', self.var(), self.data(1))
        name, ar = self.rng.choice(ts)
        if (name, ar) in self.lib:
            return self.lib_call(name)
        return S(name, *[self.data(1) for _ in range(ar)]) if ar else A(name)

    def lib_call(self, name):
        self.features.add("recursion")
        base = name.split("_")[0]
        L = lst([self.data(0) for _ in range(self.rng.choice([0, 1, 2, 3]))],
                NIL if self.rng.random() < 0.85 else self.var())
        if base == 'app':
            r = self.rng.random()
            if r < 0.5:
                return S(name, L, self.data(1), self.var())
            return S(name, self.var(), self.var(), L)
        if base == 'mem':
            return S(name, self.data(0), L)
        if base == 'len':
            return S(name, L, self.var())
        return S(name, I(self.rng.choice([0, 1, 2, 3, 4])), self.var())   # cnt

    def goal_term(self, level, depth):
        """a goal used as DATA (argument of call/N, findall, catch, or bound to a variable)."""
        return self.goal(level, depth, as_data=True)

    def goal(self, level, depth, as_data=False):
        rng = self.rng
        W = [('unify', 18), ('user', 22), ('true', 2), ('fail', 4), ('cut', 8), ('cmpterm', 5),
             ('type', 6), ('is', 6), ('cmp', 6), ('throw', 3), ('undef', 1), ('fa', 2)]
        if depth > 0:
            W += [('conj', 10), ('disj', 10), ('ite', 8), ('ifthen', 3), ('naf', 5), ('once', 2),
                  ('call1', 5), ('callN', 5), ('vargoal', 3), ('catch', 6), ('findall', 4)]
        tot = sum(w for _, w in W)
        x = rng.random() * tot
        for kind, w in W:
            x -= w
            if x < 0:
                break
        self.features.add(kind)
        d = depth - 1
        if kind == 'unify':
            return S('=', self.data(1) if rng.random() < 0.7 else self.var(), self.data(2))
        if kind == 'user':
            return self.user_call(level)
        if kind == 'true':
            return TRUE
        if kind == 'fail':
            return FAIL if rng.random() < 0.8 else A('false')
        if kind == 'cut':
            return CUT
        if kind == 'cmpterm':
            return S(rng.choice(['\\=', '==', '\\==']), self.data(1), self.data(1))
        if kind == 'type':
            return S(rng.choice(TYPE_TESTS), self.data(1))
        if kind == 'is':
            # left side: a variable or an integer (`atom is Expr` is compiled to `fail` without
            # evaluating Expr: see notes/findings-misc.md)
            return S('is', self.var() if rng.random() < 0.85 else I(rng.choice(INTS)), self.expr(2))
        if kind == 'cmp':
            return S(rng.choice(CMPS), self.expr(1), self.expr(1))
        if kind == 'throw':
            return S('throw', self.data(1) if rng.random() < 0.9 else self.var())
        if kind == 'undef':
            return S('undef_' + self.cid, self.data(0))
        if kind == 'fa':
            if rng.random() < 0.5:
                return S('functor', self.data(1), self.data(0), self.data(0) if rng.random() < 0.5 else I(rng.choice([0, 1, 2])))
            return S('arg', I(rng.choice([0, 1, 2, 3])) if rng.random() < 0.8 else self.var(), self.data(2), self.data(0))
        if kind == 'conj':
            return S(',', self.goal(level, d, as_data), self.goal(level, d, as_data))
        if kind == 'disj':
            return S(';', self.goal(level, d, as_data), self.goal(level, d, as_data))
        if kind == 'ite':
            return S(';', S('->', self.goal(level, d, as_data), self.goal(level, d, as_data)), self.goal(level, d, as_data))
        if kind == 'ifthen':
            return S('->', self.goal(level, d, as_data), self.goal(level, d, as_data))
        if kind == 'naf':
            return S('\\+', self.goal_term(level, d))
        if kind == 'once':
            return S('once', self.goal_term(level, d))
        if kind == 'call1':
            return S('call', self.goal_term(level, d))
        if kind == 'callN':
            return self.call_n(level, d)
        if kind == 'vargoal':
            v = self.var()
            r = rng.random()
            if r < 0.7:
                g = self.goal_term(level, d)
            elif r < 0.8:
                g = I(rng.choice(INTS))
            elif r < 0.9:
                g = S(',', self.goal_term(level, d), I(1))
            else:
                return v if not as_data else S('call', v)
            if as_data:
                return S(',', S('=', v, g), S('call', v))
            return S(',', S('=', v, g), v if rng.random() < 0.6 else S('call', v))
        if kind == 'catch':
            r = rng.random()
            if r < 0.3:
                c = self.var()
            elif r < 0.65:
                # the context argument is implementation defined: a variable of its own, never reported
                self.void += 1
                c = S('error', self.var() if rng.random() < 0.6 else S('type_error', self.var(), self.var()),
                      V("_Ctx%d" % self.void))
            else:
                c = self.data(1)
            return S('catch', self.goal_term(level, d), c, self.goal_term(level, d))
        if kind == 'findall':
            return S('findall', self.data(1), self.goal_term(level, d),
                     self.var() if rng.random() < 0.8 else self.data(1))
        raise ValueError(kind)

    def call_n(self, level, d):
        rng = self.rng
        r = rng.random()
        ts = self.callable_targets(level)
        ts = [p for p in ts if p[1] >= 1 and p not in self.lib]
        if r < 0.45 and ts:
            name, ar = rng.choice(ts)
            k = rng.randint(1, ar)
            args = [self.data(1) for _ in range(ar)]
            head = S(name, *args[:ar - k]) if ar - k > 0 else A(name)
            return S('call', head, *args[ar - k:])
        if r < 0.65:
            return S('call', S('=', self.data(1)), self.data(1))
        if r < 0.75:
            return S('call', A(rng.choice(['=', '\\=', '==', '<', 'is'])), self.data(1) if rng.random() < 0.5 else self.expr(1), self.expr(1) if rng.random() < 0.5 else self.data(1))
        if r < 0.85:
            return S('call', A(rng.choice([',', ';', '->'])), self.goal_term(level, d), self.goal_term(level, d))
        if r < 0.92:
            return S('call', S(rng.choice([',', ';']), self.goal_term(level, d)), self.goal_term(level, d))
        if r < 0.96:
            return S('call', self.var() if rng.random() < 0.5 else I(3), self.data(0))
        return S('call', A(rng.choice(TYPE_TESTS)), self.data(1))

    # --- program
    def make_lib(self):
        rng = self.rng
        cs = []
        for base in rng.sample(['app', 'mem', 'len', 'cnt'], rng.choice([0, 0, 1, 1, 2])):
            n = "%s_%s" % (base, self.cid)
            X, Y, Z, T, N, M = V('X'), V('Y'), V('Z'), V('T'), V('N'), V('M')
            if base == 'app':
                cs += [(S(n, NIL, X, X), TRUE), (S(n, S('.', X, Y), Z, S('.', X, T)), S(n, Y, Z, T))]
                self.lib.append((n, 3))
            elif base == 'mem':
                cs += [(S(n, X, S('.', X, V('_A'))), TRUE), (S(n, X, S('.', V('_B'), T)), S(n, X, T))]
                self.lib.append((n, 2))
            elif base == 'len':
                cs += [(S(n, NIL, I(0)), TRUE),
                       (S(n, S('.', V('_C'), T), N), conj([S(n, T, M), S('is', N, S('+', M, I(1)))]))]
                self.lib.append((n, 2))
            else:
                cs += [(S(n, N, N), TRUE),
                       (S(n, N, M), conj([S('>', N, I(0)), S('is', X, S('-', N, I(1))), S(n, X, M)]))]
                self.lib.append((n, 2))
        return cs

    def program(self):
        rng = self.rng
        np = rng.choice([1, 2, 2, 3, 3, 4, 4, 5])
        self.preds = [("p%d_%s" % (i, self.cid), rng.choice([0, 1, 1, 2, 2, 2, 3])) for i in range(np)]
        clauses = self.make_lib()
        for i, (name, ar) in enumerate(self.preds):
            for _ in range(rng.choice([1, 2, 2, 3, 3, 4])):
                self.new_pool()
                head = S(name, *[self.data(2) for _ in range(ar)]) if ar else A(name)
                nb = rng.choice([0, 0, 1, 1, 2, 2, 3, 4])
                goals = [self.goal(i, rng.choice([0, 1, 1, 2, 2, 3])) for _ in range(nb)]
                if goals and rng.random() < 0.15:      # left-nested conjunction
                    b = goals[0]
                    for g in goals[1:]:
                        b = S(',', b, g)
                else:
                    b = conj(goals)
                clauses.append((head, b))
        return clauses

    def queries(self, nq):
        rng = self.rng
        qs = []
        for k in range(nq):
            self.new_pool()
            if rng.random() < 0.6:
                name, ar = rng.choice(self.preds[:2])
                g = S(name, *[self.data(1) for _ in range(ar)]) if ar else A(name)
            else:
                g = self.goal(-1, rng.choice([1, 2, 2, 3]))
            vs = [x for x in term_vars(g, []) if not x.startswith("_Ctx")]
            r = V('R')
            tmpl = S('v', *[V(x) for x in vs]) if vs else A('v')
            eq = S('=', r, tmpl)
            body = S(',', eq, g) if rng.random() < 0.5 else S(',', g, eq)
            qs.append((S("q%d_%s" % (k, self.cid), r), body))
        return qs


def make_case(cid, clauses, queries, meta=None):
    """clauses, queries: lists of (head, body). The query clauses are part of the program."""
    allc = list(clauses) + list(queries)
    text = "\n".join(clause_pl(c) for c in allc)
    prog = " ;; ".join(clause_canon(c) for c in allc)
    impl = ["L\t%s_l\tuser\t%s" % (cid, text.replace("\\", "\\\\").replace("\n", "\\n"))]
    model = []
    qids = []
    for k, (h, _b) in enumerate(queries):
        qid = "%s_q%d" % (cid, k)
        qids.append(qid)
        # the toplevel reports a rethrown ball and some bindings imprecisely (see notes/findings-misc.md):
        # catch the ball inside the query and print a copy of the answer term
        impl.append("Q\t%s\t%d\tcatch(%s,_B,true),copy_term(_R-_B,R-B)." % (qid, MAXA, pl(h).replace("(R)", "(_R)")))
        model.append("run\t%s\t%s\t%s\t%s\t%d" % (qid, prog, canon(h), "R", MAXA))
    c = {"id": cid, "clauses": allc, "nq": len(queries), "qids": qids, "text": text,
         "impl": impl, "model": model}
    if meta:
        c.update(meta)
    return c


def rebuild_case(c):
    """a case as stored in JSON (replay / corpus) -> fresh case with lines."""
    allc = [(to_tuple(h), to_tuple(b)) for h, b in c["clauses"]]
    nq = c["nq"]
    return make_case(c["id"], allc[:len(allc) - nq], allc[len(allc) - nq:],
                     {k: c[k] for k in ("family", "features", "corpus") if k in c})


def gen_case(rng, cid):
    g = Gen(rng, cid)
    clauses = g.program()
    qs = g.queries(3)
    return make_case(cid, clauses, qs, {"family": "prog", "features": sorted(g.features)})


# ------------------------------------------------------------------ directed cases (allocator shapes)

def directed_cases():
    """hand-written programs for the shapes the proofs and the allocator single out. Predicate names
    are written '@name' and get the case id as suffix."""
    X, Y, Z, U, R = V('X'), V('Y'), V('Z'), V('U'), V('R')
    out = []

    def Pd(n, *a):
        return S('@' + n, *a) if a else A('@' + n)

    def case(name, clauses, goals):
        cid = "d" + name
        ren = lambda t: rename_preds(t, cid)
        cl = [(ren(h), ren(b)) for h, b in clauses]
        qs = []
        for k, g in enumerate(goals):
            g = ren(g)
            vs = term_vars(g, [])
            qs.append((S("q%d_%s" % (k, cid), R), S(',', S('=', R, S('v', *[V(x) for x in vs]) if vs else A('v')), g)))
        out.append(make_case(cid, cl, qs, {"family": "directed", "features": [name]}))

    t = lambda x: Pd('t', x)
    T3 = [(t(I(1)), TRUE), (t(I(2)), TRUE), (t(I(3)), TRUE)]
    # cut in every position of a body, inside ;, ->, \+, call
    case("cutpos", T3 + [
        (Pd('a', X), conj([CUT, t(X)])),
        (Pd('a', I(9)), TRUE),
        (Pd('b', X), conj([t(X), CUT])),
        (Pd('b', I(9)), TRUE),
        (Pd('c', X, Y), conj([t(X), CUT, t(Y)])),
        (Pd('c', I(9), I(9)), TRUE),
        (Pd('d', X), S(';', conj([t(X), S('>', X, I(1)), CUT]), S('=', X, I(7)))),
        (Pd('d', I(9)), TRUE),
        (Pd('e', X), S(';', S('->', t(X), CUT), S('=', X, I(7)))),
        (Pd('e', I(9)), TRUE),
        (Pd('f', X), conj([t(X), S('\\+', conj([CUT, FAIL]))])),
        (Pd('g', X), conj([t(X), S('call', conj([CUT, FAIL]))])),
        (Pd('g', I(9)), TRUE),
        (Pd('h', X), conj([t(X), S('call', CUT)])),
        (Pd('i', X), S(';', S('->', conj([t(X), CUT, S('>', X, I(5))]), TRUE), S('=', X, I(0)))),
        (Pd('j', X), conj([t(X), S(';', S('->', S('>', X, I(1)), CUT), TRUE)])),
        (Pd('j', I(9)), TRUE),
    ], [Pd('a', X), Pd('b', X), Pd('c', X, Y), Pd('d', X), Pd('e', X), Pd('f', X), Pd('g', X), Pd('h', X),
        Pd('i', X), Pd('j', X), conj([t(X), CUT]), S(';', conj([t(X), CUT]), S('=', X, I(0)))])
    # many permanent variables, variables first occurring in the last goal, after a call, void
    vs = [V("A%d" % i) for i in range(12)]
    case("manyvars", T3 + [
        (Pd('m', *vs[:3]), conj([t(vs[3]), t(vs[4]), S('=', vs[0], S('f', vs[3], vs[5])),
                                 t(vs[6]), S('=', vs[1], lst(vs[4:10])), S('=', vs[2], S('g', vs[10], vs[11], vs[6]))])),
        (Pd('n', X, Y), conj([t(V('_')), t(X), S('=', Y, S('f', Z, Z, U))])),
        (Pd('o', S('f', X, S('g', Y, X)), Y), TRUE),
        (Pd('o', X, X), t(X)),
        (Pd('l', X, Y), conj([t(X), S(';', S('=', Y, S('f', Z)), S('=', Y, S('g', Z, U))), t(Z)])),
    ], [Pd('m', X, Y, Z), Pd('n', X, Y), Pd('o', S('f', I(1), Z), U), Pd('o', X, I(2)), Pd('l', X, Y)])
    # unsafe variables: a variable that first occurs in only some arms of a disjunction (there inside a
    # structure) and is passed to the clause's LAST call; the arm without it is taken deterministically, so
    # the environment is deallocated before the callee allocates its own (seeded change
    # seeded/C07-missing-unsafe-marking-after-disjunction: put_value instead of put_unsafe_value)
    O, W = V('O'), V('W')
    A1, B1, C1 = V('A1'), V('B1'), V('C1')
    case("unsafe", [
        (Pd('mk', V('_M')), TRUE),
        (Pd('nop', V('_N0')), TRUE),
        (Pd('nop3', V('_N1'), V('_N2'), V('_N3')), TRUE),
        (Pd('t2', R, O), conj([S(';', conj([S('=', R, A('a')), Pd('mk', S('f', W))]), S('=', R, A('b'))),
                               Pd('d', W, O)])),
        (Pd('t3', R, O), conj([S(';', conj([S('=', R, A('a')), S('=', Y, S('g', W, W))]),
                                    S(';', S('=', R, A('b')), S('=', R, A('c')))), Pd('d', W, O)])),
        (Pd('d', X, O), conj([S('=', A1, I(1)), S('=', B1, I(2)), S('=', C1, I(3)), Pd('nop3', A1, B1, C1), Pd('nop', I(0)),
                              S(';', S('->', S('var', X), S('=', O, A('unbound'))), S('=', O, S('bound', X)))])),
        (Pd('run', O), conj([Pd('t2', A('b'), O), Pd('nop', I(0))])),
        (Pd('runa', O), conj([Pd('t2', A('a'), O), Pd('nop', I(0))])),
        (Pd('run3', O), conj([Pd('t3', A('c'), O), Pd('nop', I(0))])),
    ], [Pd('run', X), Pd('runa', X), Pd('run3', X), Pd('t2', Y, X), Pd('t3', Y, X)])
    # exceptions: answers before the ball, catch with partial match, rethrow, ball copy
    case("exc", T3 + [
        (Pd('u', X), S(';', t(X), S('throw', S('oops', X, Y, Y)))),
        (Pd('w', X), S('catch', Pd('u', X), S('oops', I(1), V('_'), V('_')), S('=', X, A('caught')))),
        (Pd('x', X), S('catch', Pd('u', X), S('oops', V('_'), Z, U), S('=', X, S('c', Z, U)))),
        (Pd('y', X), S('catch', conj([t(X), S('>', X, I(1)), S('throw', X)]), Y, conj([S('=', X, S('b', Y))]))),
        (Pd('z', X), S('catch', S('catch', S('throw', I(1)), I(2), S('=', X, A('inner'))), I(1), S('=', X, A('outer')))),
        (Pd('k', X), S('catch', conj([S('=', Z, A('foo')), S('is', X, S('+', Z, I(1)))]), S('error', Y, V('_')), S('=', X, Y))),
        (Pd('z2', X), S(';', S('catch', S('throw', I(1)), I(1), FAIL), S('=', X, A('after')))),
        (Pd('fa', X), S('findall', Y, Pd('u', Y), X)),
        (Pd('fb', X), S('findall', S('-', Y, Z), S(';', t(Y), S('=', Y, Z)), X)),
    ], [Pd('u', X), Pd('w', X), Pd('x', X), Pd('y', X), Pd('z', X), Pd('z2', X), Pd('k', X), Pd('fa', X), Pd('fb', X),
        S('catch', Pd('fa', X), Y, TRUE)])
    # call/N, variable goals, control constructs built at run time
    case("meta", T3 + [
        (Pd('p', X), conj([S('=', Y, conj([t(X), CUT])), Y])),
        (Pd('p', I(9)), TRUE),
        (Pd('q', X), conj([S('=', Y, S('->', t(X), S('>', X, I(0)))), S(';', Y, S('=', X, I(0)))])),
        (Pd('r', X), conj([S('=', Y, S('->', t(X), S('>', X, I(0)))), S('call', S(';', Y, S('=', X, I(0))))])),
        (Pd('s', X), S('call', Pd('t'), X)),
        (Pd('s2', X, Y), S('call', Pd('c2', X), Y)),
        (Pd('c2', X, Y), conj([t(X), t(Y), S('<', X, Y)])),
        (Pd('v', X), S('call', A(','), t(X), S('>', X, I(1)))),
        (Pd('v2', X), S('call', S(';', t(X)), S('=', X, I(0)))),
        (Pd('n1', X), conj([S('=', X, I(1)), S('call', X)])),
        (Pd('n2', X), conj([S('=', X, S(',', TRUE, I(1))), S('call', X)])),
        (Pd('n3', X), X),
        (Pd('n4', X), S('call', X, I(1))),
        (Pd('o1', X), S('once', t(X))),
        (Pd('o2', X), S('\\+', S('\\+', S('=', X, I(1))))),
    ], [Pd('p', X), Pd('q', X), Pd('r', X), Pd('s', X), Pd('s2', X, Y), Pd('v', X), Pd('v2', X), Pd('n1', X),
        Pd('n2', X), Pd('n3', X), Pd('n4', X), Pd('n4', Pd('t')), Pd('o1', X), Pd('o2', X),
        Pd('n3', conj([t(Y), CUT]))])
    return out


def rename_preds(t, cid):
    """'@name' -> 'name_<cid>' (functors and atoms)."""
    if t[0] == 's':
        f = "%s_%s" % (t[1][1:], cid) if t[1].startswith('@') else t[1]
        return ('s', f, [rename_preds(a, cid) for a in t[2]])
    if t[0] == 'a' and t[1].startswith('@'):
        return A("%s_%s" % (t[1][1:], cid))
    return t


# ------------------------------------------------------------------ running the model (guarded)

def _run_guarded(binary, cases, per_line_timeout, env=None):
    """feeds the lines of `cases` (lists of lines, a case stays together) to one line-protocol process;
    a line that does not answer within the timeout gets `hang`, the process is killed and restarted
    with the NEXT case (the rest of the hanging case is marked `skipped`)."""
    import threading
    res = {}
    k = 0
    e = dict(os.environ)
    if env:
        e.update(env)
    while k < len(cases):
        lines = [(ci, l) for ci in range(k, len(cases)) for l in cases[ci]]
        p = subprocess.Popen([binary], stdin=subprocess.PIPE, stdout=subprocess.PIPE,
                             stderr=subprocess.DEVNULL, text=True, bufsize=1, env=e, errors="replace")

        def feed(proc=p, data="\n".join(l for _, l in lines) + "\n"):
            try:
                proc.stdin.write(data)
                proc.stdin.close()
            except Exception:
                pass
        threading.Thread(target=feed, daemon=True).start()
        done = 0
        ok = True
        while done < len(lines):
            r, _, _ = select.select([p.stdout], [], [], per_line_timeout)
            l = p.stdout.readline() if r else ""
            if not l:
                ok = False
                break
            i, _, v = l.rstrip("\n").partition("\t")
            if i != core.line_id(lines[done][1]):
                continue          # noise on stdout (warnings): not a result line
            res[i] = v
            done += 1
        died = None
        if not ok:
            time.sleep(0.05)
            died = p.poll()
        try:
            p.kill()
        except Exception:
            pass
        p.wait()
        if ok:
            break
        ci = lines[done][0]
        res[core.line_id(lines[done][1])] = "hang" if died is None else "crash(rc=%s)" % died
        for cj, l in lines[done + 1:]:
            if cj != ci:
                break
            res[core.line_id(l)] = "skipped"
        k = ci + 1
    return res


def run_guarded(binary, cases, per_line_timeout, jobs, env=None):
    chunks = [cases[i::jobs] for i in range(jobs)]
    out = {}
    with ThreadPoolExecutor(max_workers=jobs) as ex:
        for r in ex.map(lambda ch: _run_guarded(binary, ch, per_line_timeout, env) if ch else {}, chunks):
            out.update(r)
    return out


def run_model_guarded(lines, per_line_timeout=15.0, jobs=6):
    """the interpreter has a depth budget but no step budget: a line that takes too long is reported
    as `oof timeout`."""
    out = run_guarded(core.DRIVER_BIN, [[l] for l in lines], per_line_timeout, jobs)
    return {k: ("oof timeout" if v in ("hang", "skipped") or v.startswith("crash") else v) for k, v in out.items()}


def run_impl_guarded(cases, per_line_timeout=25.0, jobs=8, env=None):
    return run_guarded(core.HARNESS_BIN, cases, per_line_timeout, jobs, env)


# ------------------------------------------------------------------ judge

IMPL_ENV = {"SV_TIMEOUT_MS": "5000"}


def impl_items2(res):
    if res == "hang" or (res or "").startswith("crash"):
        return 'hang'
    return impl_items(res)


def arith_multi_error(c):
    """does some arithmetic goal of the case contain two or more possible error sources?"""
    def sources(e):
        if e[0] == 'v' or e[0] == 'a':
            return 1
        if e[0] == 's':
            n = sum(sources(a) for a in e[2])
            if e[1] in ('//', 'mod', 'rem', 'div', '^', '>>', '<<', 'f'):
                n += 1
            return n
        return 0

    def walk(t):
        if t[0] != 's':
            return False
        if t[1] == 'is' and len(t[2]) == 2 and sources(t[2][1]) >= 2:
            return True
        if t[1] in CMPS and len(t[2]) == 2 and sources(t[2][0]) + sources(t[2][1]) >= 2:
            return True
        return any(walk(a) for a in t[2])
    return any(walk(b) for _h, b in c["clauses"])


ARITH_ERR = re.compile(r"'error'\('(instantiation_error|type_error'\('evaluable'|evaluation_error|type_error'\('integer')")
LIST_GOAL = re.compile(r"'/'\('\.',2\)|'/'\(\[\],0\)|'type_error'\('callable',(\[|\"|'\.'\()")


IMPROPER = re.compile(r"'\.'\(")      # showTerm prints proper lists as [..]: '.'( only for partial/improper lists


def is_arith_error(item):
    return item[0] == 'exc' and ARITH_ERR.match(item[1]) is not None


def out_of_domain(mi, ii):
    """not compared (see ASSUMPTIONS): (a) a list used as a goal or inside an arithmetic expression:
    Scryer treats lists specially there (type_error(callable, List); evaluation of '.'/2), the
    reference follows ISO to the letter (existence_error / type_error(evaluable, '.'/2));
    (b) findall/3 with a third argument that is not a partial list: Scryer (like ISO) checks it before
    running the goal, the reference after; (c) which of two different arithmetic errors is raised."""
    mits = mi[0]
    iits = ii[0] if isinstance(ii, tuple) else []
    for its in (mits, iits):
        for x in its:
            if LIST_GOAL.search(x[1]):      # as the ball, or caught and reported inside an answer
                return 'skip-domain'
    for k, x in enumerate(iits):
        if x[0] == 'exc' and x[1].startswith("'error'('type_error'('list',") and (k >= len(mits) or mits[k] != x):
            return 'skip-domain'
    for k, x in enumerate(iits):
        if x[0] == 'exc' and x[1].startswith("'error'('domain_error'('not_less_than_zero',") \
                and (k >= len(mits) or mits[k] != x):
            return 'skip-domain'      # arg/3, functor/3: which of two errors has priority
    if mits and iits and len(mits) == len(iits) and mits[:-1] == iits[:-1] and mits[-1] != iits[-1] \
            and is_arith_error(mits[-1]) and is_arith_error(iits[-1]):
        return 'skip-arith'
    return None


def compare(mi, ii):
    """model items/trunc vs implementation items/trunc -> None if they agree, else (kind, detail)."""
    if ii == 'hang':
        return "no-termination-or-crash", "the implementation did not answer or died (the reference terminates)"
    mits, mtr = mi
    iits, itr = ii
    n = min(len(mits), len(iits))
    for k in range(n):
        if mits[k] != iits[k]:
            if mits[k][0] != iits[k][0]:
                kind = "answer-vs-exception"
            elif mits[k][0] == 'exc':
                kind = "different-exception"
            else:
                kind = "different-answer"
            return kind, "item %d: reference %s, implementation %s" % (k, mits[k][1], iits[k][1])
    if itr:
        # the implementation stopped after MAXA items (it may count a final `false` as an item)
        if len(iits) > len(mits):
            return "extra-items", "implementation has %d items, reference %d" % (len(iits), len(mits))
        if len(iits) < MAXA - 1 and len(iits) < len(mits):
            return "missing-items", "implementation truncated after %d items" % len(iits)
        return None
    if len(iits) != len(mits) or mtr:
        return ("missing-items" if len(iits) < len(mits) else "extra-items",
                "implementation has %d items, reference %d%s" % (len(iits), len(mits), "+" if mtr else ""))
    return None


def judge_query(c, model_res, impl_res, loaded):
    """-> ('agree'|'skip-arith'|'skip-domain'|'inconclusive', None) or ('problem', (kind, detail))."""
    mi = model_items(model_res)
    if mi is None or mi == 'oof':
        return 'inconclusive', None
    if loaded != "loaded":
        return 'problem', ("load-failed", "consulting the program gave: %s" % loaded)
    ii = impl_items2(impl_res)
    if ii is None:
        if (impl_res or "").startswith("panic(") and IMPROPER.search(model_res or ""):
            # the harness cannot print a partial list whose tail is an atom or a number (canon.rs)
            return 'skip-domain', None
        return 'problem', ("uninterpretable", "implementation result: %s" % impl_res)
    if ii != 'hang':
        sk = out_of_domain(mi, ii)
        if sk:
            return sk, None
    problem = compare(mi, ii)
    if problem is None:
        return 'agree', None
    if problem[0] in ("different-exception", "answer-vs-exception") and arith_multi_error(c):
        if any(is_arith_error(x) for x in (mi[0] + (ii[0] if ii != 'hang' else []))):
            return 'skip-arith', None
    return 'problem', problem


# --- classification of a failing case by ISO-equivalent rewritings (each maps to one known defect class)

CONTROL2 = (',', ';', '->')


def has_top_cut(t):
    """a cut at the control level of the goal term t (not inside call/N, \\+, findall, catch)."""
    if t == CUT:
        return True
    if t[0] == 's' and t[1] in CONTROL2 and len(t[2]) == 2:
        return has_top_cut(t[2][0]) or has_top_cut(t[2][1])
    return False


def map_goals(t, f):
    """apply f bottom-up to every sub-goal of a body term (goal positions only)."""
    if t[0] == 's':
        n, args = t[1], t[2]
        if n in CONTROL2 and len(args) == 2:
            t = ('s', n, [map_goals(args[0], f), map_goals(args[1], f)])
        elif n in ('\\+', 'once', 'call') and len(args) == 1:
            t = ('s', n, [map_goals(args[0], f)])
        elif n == 'catch' and len(args) == 3:
            t = ('s', n, [map_goals(args[0], f), args[1], map_goals(args[2], f)])
        elif n == 'findall' and len(args) == 3:
            t = ('s', n, [args[0], map_goals(args[1], f), args[2]])
    return f(t)


def rw_cond_call(t):
    """(C -> T) with a cut at the control level of C  =>  (call(C) -> T): identical by ISO 7.8.8
    (the cut in the condition is local to the condition); theorem C07_cond_cut_local."""
    if t[0] == 's' and t[1] == '->' and len(t[2]) == 2 and has_top_cut(t[2][0]):
        return S('->', S('call', t[2][0]), t[2][1])
    return t


INLINED_TESTS = set(TYPE_TESTS) - {'callable'}


def rw_test_call(t):
    """type test T(X) => call(T, X): identical by the definition of call/N; takes the test out of
    the inlined-builtin path of the code generator."""
    if t[0] == 's' and t[1] in INLINED_TESTS and len(t[2]) == 1:
        return S('call', A(t[1]), t[2][0])
    return t


def rw_arith_call(t):
    """E1 op E2 => call(op, E1, E2), X is E => call(is, X, E): identical by the definition of call/N;
    takes the arithmetic out of the inlined path of the code generator."""
    if t[0] == 's' and len(t[2]) == 2 and (t[1] in CMPS or t[1] == 'is'):
        return S('call', A(t[1]), t[2][0], t[2][1])
    return t


def rw_throw_call(t):
    """throw(B) => call(throw(B)): identical; the ball then reaches '$set_ball' through a heap term."""
    if t[0] == 's' and t[1] == 'throw' and len(t[2]) == 1:
        return S('call', t)
    return t


def rw_clause_init_vars(h, b, cid):
    """H :- B  =>  H :- vinit(V1), ..., vinit(Vn), B for the body variables of a clause with a
    disjunction / if-then-else (vinit(_) is a fact): identical answers; every variable then has its
    first occurrence before the control construct and lives in the environment frame."""
    fs = set()
    functors(b, fs)
    if not ({";/2", "->/2"} & fs):
        return b
    vs = [v for v in term_vars(b, []) if v not in term_vars(h, [])]
    if not vs:
        return b
    return conj([S("vinit_" + cid, V(v)) for v in vs] + [b])


REWRITES = [
    ("cut-in-if-condition-not-local", [rw_cond_call]),
    ("inlined-type-test-clobbers-live-register", [rw_test_call]),
    ("arithmetic-intermediate-clobbers-live-register", [rw_arith_call]),
    ("variable-first-occurring-in-a-branch-is-not-initialised-on-the-other-path", ["init"]),
    ("ball-behind-a-stack-variable-is-thrown-unbound", [rw_throw_call]),
    ("several-compiler-defects", [rw_cond_call, rw_test_call, rw_arith_call, "init", rw_throw_call]),
]


def rewrite_case(c, k, fs, cid):
    allc = c["clauses"]
    nq = c["nq"]
    cl = []
    init = False
    for h, b in allc[:len(allc) - nq] + [allc[len(allc) - nq + k]]:
        for f in fs:
            if f == "init":
                b2 = rw_clause_init_vars(h, b, cid)
                init = init or b2 != b
                b = b2
            else:
                b = map_goals(b, f)
        cl.append((h, b))
    extra = [(S("vinit_" + cid, V("_")), TRUE)] if init else []
    return make_case(cid, extra + cl[:-1], [cl[-1]], {"family": "rewrite"})


def eval_cases(cases):
    """run single cases completely (model, then implementation where the model decides)."""
    model = run_model_guarded([l for c in cases for l in c["model"]])
    run = [c for c in cases if all(not (model.get(q) or "oof").startswith("oof") for q in c["qids"])]
    impl = run_impl_guarded([c["impl"] for c in run], per_line_timeout=12.0, env=IMPL_ENV) if run else {}
    for c in run:
        rs = [impl.get(c["id"] + "_l")] + [impl.get(q) for q in c["qids"]]
        if any(r is None or r == "hang" or r.startswith("timeout") or r.startswith("skipped") for r in rs):
            impl.update(run_impl_guarded([c["impl"]], per_line_timeout=40.0, jobs=1, env={"SV_TIMEOUT_MS": "30000"}))
    return model, impl


def classify(failing):
    """failing: list of (case, k, problem, model_result). Returns {index: defect name}: the first
    rewriting that changes the program, leaves the reference result unchanged and makes the
    implementation agree with it."""
    out = {}
    todo = list(range(len(failing)))
    for ri, (name, fs) in enumerate(REWRITES):
        if not todo:
            break
        cs = {}
        for i in todo:
            c, k, _p, _m = failing[i]
            cid = "w%d_%d_%s" % (ri, i, c["id"])
            rc = rewrite_case(c, k, fs, cid)
            if rc["text"] != rewrite_case(c, k, [], cid)["text"]:   # the rewriting applies
                cs[i] = rc
        if not cs:
            continue
        model, impl = eval_cases(list(cs.values()))
        still = []
        for i in todo:
            if i not in cs:
                still.append(i)
                continue
            rc = cs[i]
            q = rc["qids"][0]
            same_ref = model_items(model.get(q)) == model_items(failing[i][3])
            st, _ = judge_query(rc, model.get(q), impl.get(q), impl.get(rc["id"] + "_l"))
            if same_ref and st == 'agree':
                out[i] = name
            else:
                still.append(i)
        todo = still
    return out


# --- shrinking (for defects no rewriting explains)

def goal_variants(t):
    """smaller goals obtained from t by one local simplification."""
    out = []
    if t != TRUE:
        out.append(TRUE)
    if t[0] == 's':
        n, args = t[1], t[2]
        if n in CONTROL2 and len(args) == 2:
            out += [args[0], args[1]]
            out += [('s', n, [v, args[1]]) for v in goal_variants(args[0])]
            out += [('s', n, [args[0], v]) for v in goal_variants(args[1])]
        elif n in ('\\+', 'once', 'call') and len(args) == 1:
            out.append(args[0])
            out += [('s', n, [v]) for v in goal_variants(args[0])]
        elif n == 'catch' and len(args) == 3:
            out.append(args[0])
            out += [('s', n, [v, args[1], args[2]]) for v in goal_variants(args[0])]
            out += [('s', n, [args[0], args[1], v]) for v in goal_variants(args[2])]
        elif n == 'findall' and len(args) == 3:
            out += [('s', n, [args[0], v, args[2]]) for v in goal_variants(args[1])]
    return out


def shrink(c, k, max_rounds=14, max_cands=40):
    allc = c["clauses"]
    nq = c["nq"]
    prog = list(allc[:len(allc) - nq])
    q = allc[len(allc) - nq + k]
    best = None
    for rnd in range(max_rounds):
        cands = []
        for i in range(len(prog)):
            cands.append((prog[:i] + prog[i + 1:], q))
        for i, (h, b) in enumerate(prog):
            for v in goal_variants(b):
                cands.append((prog[:i] + [(h, v)] + prog[i + 1:], q))
        for v in goal_variants(q[1]):
            if 'R' in term_vars(v, []):
                cands.append((prog, (q[0], v)))
        cands = cands[:max_cands]
        if not cands:
            break
        cs = [make_case("s%d_%d_%s" % (rnd, j, c["id"]), p2, [q2]) for j, (p2, q2) in enumerate(cands)]
        model, impl = eval_cases(cs)
        found = None
        for (p2, q2), sc in zip(cands, cs):
            qid = sc["qids"][0]
            st, pr = judge_query(sc, model.get(qid), impl.get(qid), impl.get(sc["id"] + "_l"))
            if st == 'problem':
                found = (p2, q2, sc, pr, model.get(qid), impl.get(qid))
                break
        if found is None:
            break
        prog, q = found[0], found[1]
        best = found
    return best


def query_features(c, k):
    fs = set()
    for h, b in c["clauses"]:
        functors(b, fs)
    return sorted(f for f in fs if f in (",/2", ";/2", "->/2", "\\+/1", "call/1", "call/2", "call/3", "catch/3",
                                         "findall/3", "throw/1", "!/0", "once/1", "is/2"))


def run(ctx):
    rng, tier = ctx["rng"], ctx["tier"]
    t_start = time.time()
    rep = diff.replay_case(ctx)
    if rep is not None:
        cases = [rebuild_case(c) for c in rep]
    else:
        cases = [rebuild_case(c) for c in diff.load_corpus("C07")]
        cases += directed_cases()
        n = 500 if tier == "quick" else 6000
        n = int(os.environ.get("C07_N", n))
        cases += [gen_case(rng, "c%d" % i) for i in range(n)]
    # 1. the model first
    model = run_model_guarded([l for c in cases for l in c["model"]])
    t_model = time.time() - t_start
    oof = 0
    oof_timeout = 0
    runnable = []
    for c in cases:
        keep = []
        for qid in c["qids"]:
            mv = model.get(qid)
            if mv is None or mv.startswith("oof"):
                oof += 1
                if mv == "oof timeout":
                    oof_timeout += 1
            else:
                keep.append(qid)
        c["run_qids"] = keep
        if keep:
            ic = dict(c)
            ic["impl"] = [c["impl"][0]] + [l for l in c["impl"][1:] if core.line_id(l) in keep]
            runnable.append(ic)
    # 2. the implementation on the decided queries
    impl = run_impl_guarded([c["impl"] for c in runnable], per_line_timeout=12.0, env=IMPL_ENV)
    t_impl = time.time() - t_start - t_model
    retried = 0
    for c in runnable:
        rs = [impl.get(c["id"] + "_l")] + [impl.get(q) for q in c["run_qids"]]
        if any(r is None or r == "hang" or r.startswith("timeout") or r.startswith("skipped") or r.startswith("abort")
               for r in rs):
            # a loaded machine makes the watchdogs fire: believe a hang only after a serial re-run
            # (bounded: a badly broken tree must not make the check run for ever)
            if retried >= (8 if tier == "quick" else 20):
                continue
            retried += 1
            impl.update(run_impl_guarded([c["impl"]], per_line_timeout=40.0, jobs=1, env={"SV_TIMEOUT_MS": "30000"}))
    # 3. judge
    agree = 0
    evaluations = 0
    distinct = set()
    kinds = {"answers": 0, "no-answer": 0, "exception-only": 0, "answers-then-exception": 0, "truncated": 0}
    nans_hist = {}
    feat = {}
    skipped = {"skip-arith": 0, "skip-domain": 0, "inconclusive": 0}
    failing = []
    for c in runnable:
        for f in c.get("features", []):
            feat[f] = feat.get(f, 0) + 1
        loaded = impl.get(c["id"] + "_l")
        poisoned = False
        for qid in c["run_qids"]:
            k = c["qids"].index(qid)
            if rep is not None:
                print("replay %s query %d\n%s" % (c["id"], k, c["text"]))
                print("  reference     : %s" % model.get(qid))
                print("  implementation: %s (load: %s)" % (impl.get(qid), loaded))
            if poisoned:
                continue         # the machine was discarded by an earlier hang/panic of this case
            evaluations += 1
            mi = model_items(model[qid])
            if isinstance(mi, tuple):
                mits, mtr = mi
                na = sum(1 for x in mits if x[0] == 'ans')
                ne = sum(1 for x in mits if x[0] == 'exc')
                cat = "truncated" if mtr else ("no-answer" if not mits else "exception-only" if na == 0 else
                                               "answers-then-exception" if ne else "answers")
                kinds[cat] += 1
                nans_hist[str(na)] = nans_hist.get(str(na), 0) + 1
                if mits:
                    distinct.add((c["text"], k))
            st, problem = judge_query(c, model.get(qid), impl.get(qid), loaded)
            if st == 'agree':
                agree += 1
            elif st == 'problem':
                failing.append((c, k, problem, model.get(qid)))
                r = impl.get(qid) or ""
                if r == "hang" or r.startswith("panic") or r.startswith("crash"):
                    poisoned = True
            else:
                skipped[st] += 1
    # 4. classify the failing cases; shrink a few unexplained ones
    findings = []
    cls = classify(failing[:400]) if failing else {}     # bounded: a badly broken tree fails everywhere
    shrunk = 0
    for i, (c, k, problem, mres) in enumerate(failing):
        qid = c["qids"][k]
        defect = cls.get(i)
        detail = "query %d of\n%s\n%s\nreference     : %s\nimplementation: %s" % (
            k, c["text"], problem[1], mres, impl.get(qid))
        stored = {"id": c["id"], "clauses": c["clauses"], "nq": c["nq"], "family": c.get("family"),
                  "features": c.get("features"), "query": k, "text": c["text"],
                  "model_result": mres, "impl_result": impl.get(qid)}
        if defect:
            r0 = impl.get(qid) or ""
            symptom = "crash" if (r0 == "hang" or r0.startswith(("panic", "crash", "abort", "timeout"))) else "wrong-answer"
            sig = {"family": "prog", "defect": defect, "symptom": symptom}
            detail += "\nthe difference disappears under the ISO-equivalent rewriting for: " + defect
        else:
            sig = {"family": "prog", "defect": "unclassified", "kind": problem[0],
                   "constructs": " ".join(query_features(c, k))}
            if shrunk < 3 and rep is None:
                shrunk += 1
                b = shrink(c, k)
                if b is not None:
                    p2, q2, sc, pr, mr, ir = b
                    detail += "\n--- minimised:\n%s\n%s\nreference     : %s\nimplementation: %s" % (sc["text"], pr[1], mr, ir)
                    stored["minimised"] = {"id": sc["id"], "clauses": sc["clauses"], "nq": 1, "text": sc["text"]}
                    sig["kind"] = pr[0]
                    sig["constructs"] = " ".join(query_features(sc, 0))
        if rep is not None:
            print("  PROBLEM %s: %s" % (sig, problem[1]))
        findings.append(core.Finding("violation", sig, detail, stored))
    return {
        "evaluations": evaluations,
        "distinct_nontrivial": len(distinct),
        "rule": "random programs: 1-5 predicates (arity 0-3) x 1-4 clauses x 0-4 body goals (control nesting <= 3) over unification, type tests, integer arithmetic and comparison, !, ',', ;, ->, \\+, once, call/1..3 (partial goals and control constructs built at run time), variable goals, catch/throw, findall, functor/arg, undefined predicates, structural recursion helpers (append/member/length/countdown); 1-12 variables per clause, shared between head, body goals and control branches; 3 queries per program (direct calls and compound goals), each compiled as one more clause; plus 4 directed programs (cut in every position, many permanent variables, exceptions, meta-calls). non-trivial = the reference gives at least one answer or a ball; distinct by program text + query",
        "samples": [{"program": c["text"], "reference": [model.get(q) for q in c["qids"]],
                     "implementation": [impl.get(q) for q in c["qids"]]} for c in (runnable[4:6] + runnable[-2:])],
        "traces_validated_against_impl": agree,
        "disagreements_checked": len(failing),
        "programs": len(cases),
        "queries_dropped_model_out_of_fuel_or_cyclic": oof,
        "queries_dropped_model_time_guard": oof_timeout,
        "queries_not_compared_multiple_arith_errors": skipped["skip-arith"],
        "queries_not_compared_list_as_goal_or_expression": skipped["skip-domain"],
        "reference_result_kinds": kinds,
        "reference_answer_count_histogram": nans_hist,
        "goal_kinds_generated": feat,
        "cases_rerun_serially": retried,
        "failing_queries_by_defect": {d: sum(1 for f in findings if f.sig.get("defect") == d)
                                      for d in set(f.sig.get("defect") for f in findings)},
        "wall_seconds": round(time.time() - t_start, 1),
        "model_seconds": round(t_model, 1),
        "impl_seconds": round(t_impl, 1),
        "exhaustive": False,
        "findings": findings,
    }
