"""C37 — Hashes and encodings are byte-exact.

Codec families (hex_bytes/2, chars_base64/3, chars_utf8bytes/2) are compared with the Lean
models of `Model/Codec.lean` (the subject of the theorems in `Props/C37.lean`) and with Python's
own codecs as a third opinion. Digest / HMAC / ChaCha20-Poly1305 results are compared with
Python's hashlib / hmac and a pure-Python RFC 8439 implementation: an independent ORACLE, not a
theorem (those primitives are third-party crates = trusted base; that part is level `partial`).
"""
import base64
import binascii
import hashlib
import hmac as pyhmac
import struct

from .. import core, diff

LEVEL = "partial"
TRUSTED_BASE = [
    "codec part: Lean models hexEncode/hexDecode (mirror of crypto.pl), b64Encode/b64Decode (RFC 4648 spec; the `base64` crate is tied only by execution), utf8Encode/utf8Decode (RFC 3629 spec) and utf8DecodeMech (mirror of charsio.pl decode_utf8//1)",
    "digest part (NOT a theorem): crates ring / sha3 / blake2 / ripemd are trusted; their output is only compared with Python hashlib/hmac (OpenSSL) on the generated inputs",
    "cipher part (NOT a theorem): ring's ChaCha20-Poly1305 is only compared with the pure-Python RFC 8439 implementation in this file (self-tested against the RFC 8439 §2.8.2 vector on every run)",
    "Python rendering of byte/char sequences to Prolog text (pl_string, pl_ints) and the parser of the harness' canonical answer syntax (parse_answers)",
]
ASSUMPTIONS = [
    "sequence lengths 0..200 (a few up to 300 around digest block boundaries); all 256 byte values; code points over the whole scalar range",
    "chars_utf8bytes/2 decoding is only fed lists of integers 0..255",
    "harness machines are reused between cases (no cross-case state is involved in these predicates)",
]

ALG = {  # scryer atom -> hashlib name
    "sha256": "sha256", "sha384": "sha384", "sha512": "sha512", "sha512_256": "sha512_256",
    "sha3_224": "sha3_224", "sha3_256": "sha3_256", "sha3_384": "sha3_384", "sha3_512": "sha3_512",
    "blake2s256": "blake2s", "blake2b512": "blake2b", "ripemd160": "ripemd160",
}
HMAC_ALG = ["sha256", "sha384", "sha512"]
PRELUDE = ["use_module(library(crypto)).", "use_module(library(charsio)).", "use_module(library(lists))."]

# ------------------------------------------------------------------ pure-Python RFC 8439


def _rotl(v, c):
    return ((v << c) & 0xffffffff) | (v >> (32 - c))


def _qr(s, a, b, c, d):
    s[a] = (s[a] + s[b]) & 0xffffffff; s[d] = _rotl(s[d] ^ s[a], 16)
    s[c] = (s[c] + s[d]) & 0xffffffff; s[b] = _rotl(s[b] ^ s[c], 12)
    s[a] = (s[a] + s[b]) & 0xffffffff; s[d] = _rotl(s[d] ^ s[a], 8)
    s[c] = (s[c] + s[d]) & 0xffffffff; s[b] = _rotl(s[b] ^ s[c], 7)


def chacha20_block(key, counter, nonce):
    st = list(struct.unpack("<4I", b"expand 32-byte k")) + list(struct.unpack("<8I", key)) + [counter] + list(struct.unpack("<3I", nonce))
    w = list(st)
    for _ in range(10):
        _qr(w, 0, 4, 8, 12); _qr(w, 1, 5, 9, 13); _qr(w, 2, 6, 10, 14); _qr(w, 3, 7, 11, 15)
        _qr(w, 0, 5, 10, 15); _qr(w, 1, 6, 11, 12); _qr(w, 2, 7, 8, 13); _qr(w, 3, 4, 9, 14)
    return struct.pack("<16I", *[(w[i] + st[i]) & 0xffffffff for i in range(16)])


def chacha20_xor(key, counter, nonce, data):
    out = bytearray()
    for i in range(0, len(data), 64):
        ks = chacha20_block(key, counter + i // 64, nonce)
        out.extend(a ^ b for a, b in zip(data[i:i + 64], ks))
    return bytes(out)


def poly1305(key, msg):
    r = int.from_bytes(key[:16], "little") & 0x0ffffffc0ffffffc0ffffffc0fffffff
    s = int.from_bytes(key[16:], "little")
    acc, p = 0, (1 << 130) - 5
    for i in range(0, len(msg), 16):
        n = int.from_bytes(msg[i:i + 16] + b"\x01", "little")
        acc = (acc + n) * r % p
    return ((acc + s) & ((1 << 128) - 1)).to_bytes(16, "little")


def aead_seal(key, nonce, pt, aad):
    otk = chacha20_block(key, 0, nonce)[:32]
    ct = chacha20_xor(key, 1, nonce, pt)
    pad = lambda b: b"\x00" * (-len(b) % 16)
    mac = aad + pad(aad) + ct + pad(ct) + struct.pack("<QQ", len(aad), len(ct))
    return ct, poly1305(otk, mac)


def _selftest():
    key = bytes(range(0x80, 0xa0))
    nonce = bytes([7, 0, 0, 0, 0x40, 0x41, 0x42, 0x43, 0x44, 0x45, 0x46, 0x47])
    aad = bytes.fromhex("50515253c0c1c2c3c4c5c6c7")
    pt = b"Ladies and Gentlemen of the class of '99: If I could offer you only one tip for the future, sunscreen would be it."
    ct, tag = aead_seal(key, nonce, pt, aad)
    assert tag.hex() == "1ae10b594f09e26a7e902ecbd0600691", tag.hex()
    assert ct[:16].hex() == "d31a8d34648e60db7b86afbc53ef7ec2", ct.hex()


_selftest()

# ------------------------------------------------------------------ rendering to Prolog text

_SAFE = set(range(0x20, 0x7f)) - {ord('"'), ord("\\")}


def pl_string(codes, rng=None):
    """A double-quoted Prolog string for the code points (escapes \\xH..\\ for everything unusual)."""
    out = []
    for c in codes:
        if c in _SAFE:
            out.append(chr(c))
        elif c >= 0xa1 and rng is not None and rng.random() < 0.5 and chr(c).isprintable():
            out.append(chr(c))
        else:
            out.append("\\x%x\\" % c)
    return '"' + "".join(out) + '"'


def pl_ints(xs):
    return "[" + ",".join(str(x) for x in xs) + "]"


def hq(text):
    """harness escaping of a query text"""
    return text.replace("\\", "\\\\").replace("\n", "\\n").replace("\t", "\\t").replace("\r", "\\r")


# ------------------------------------------------------------------ parser of harness answers

class P:
    def __init__(self, s):
        self.s, self.i = s, 0

    def peek(self, k=1):
        return self.s[self.i:self.i + k]

    def eat(self, t):
        if not self.s.startswith(t, self.i):
            raise ValueError("expected %r at %d in %r" % (t, self.i, self.s[:200]))
        self.i += len(t)

    def quoted(self, q):
        self.eat(q)
        out = []
        s = self.s
        while True:
            c = s[self.i]
            if c == q:
                self.i += 1
                return out
            if c == "\\":
                n = s[self.i + 1]
                if n == "x":
                    j = s.index("\\", self.i + 2)
                    out.append(int(s[self.i + 2:j], 16))
                    self.i = j + 1
                else:
                    out.append(ord(n))
                    self.i += 2
            else:
                out.append(ord(c))
                self.i += 1

    def term(self):
        c = self.peek()
        if c == '"':
            return [("a", chr(x)) for x in self.quoted('"')]
        if c == "'":
            name = "".join(chr(x) for x in self.quoted("'"))
            if self.peek() == "(":
                self.eat("(")
                args = [self.term()]
                while self.peek() == ",":
                    self.eat(",")
                    args.append(self.term())
                self.eat(")")
                if name == "." and len(args) == 2 and isinstance(args[1], list):
                    return [args[0]] + args[1]
                return (name, args)
            return ("a", name)
        if c == "[":
            self.eat("[")
            if self.peek() == "]":
                self.eat("]")
                return []
            xs = [self.term()]
            while self.peek() == ",":
                self.eat(",")
                xs.append(self.term())
            self.eat("]")
            return xs
        j = self.i
        while j < len(self.s) and (self.s[j].isalnum() or self.s[j] in "_-"):
            j += 1
        tok = self.s[self.i:j]
        if not tok:
            raise ValueError("bad term at %d in %r" % (self.i, self.s[:200]))
        self.i = j
        if self.peek() == "(":       # r(N,D) / f(hex)
            k = self.s.index(")", self.i)
            arg = self.s[self.i + 1:k]
            self.i = k + 1
            return (tok, arg)
        try:
            return int(tok)
        except ValueError:
            return ("v", tok)

    def answer(self):
        if self.peek() == "{":
            self.eat("{")
            d = {}
            while self.peek() != "}":
                j = self.s.index("=", self.i)
                k = self.s[self.i:j]
                self.i = j + 1
                d[k] = self.term()
                if self.peek() == ",":
                    self.eat(",")
            self.eat("}")
            return d
        for w in ("true", "false", "timeout", "..."):
            if self.s.startswith(w, self.i):
                self.i += len(w)
                return w
        for w in ("error(", "exception("):
            if self.s.startswith(w, self.i):
                self.i += len(w)
                t = self.term()
                self.eat(")")
                return (w[:-1], t)
        rest = self.s[self.i:]
        self.i = len(self.s)
        return ("raw", rest)


def parse_answers(s):
    """-> list of answers: dict of bindings | 'true' | 'false' | '...' | ('error', term) | ('raw', text)"""
    try:
        p = P(s)
        out = [p.answer()]
        while p.i < len(s):
            p.eat(" ;; ")
            out.append(p.answer())
        return out
    except (ValueError, IndexError) as e:
        return [("raw", s)]


def first(s):
    """first answer, with trailing `false` / `...` answers (left choice points) ignored"""
    a = parse_answers(s)
    rest = [x for x in a[1:] if x not in ("false", "...")]
    if rest:
        return ("raw", s)
    return a[0]


def codes_of(t):
    if isinstance(t, list) and all(isinstance(x, tuple) and x[0] == "a" and len(x[1]) == 1 for x in t):
        return [ord(x[1]) for x in t]
    return None


def ints_of(t):
    if isinstance(t, list) and all(isinstance(x, int) for x in t):
        return t
    return None


def err_of(ans):
    """E bound by catch(_, error(E,_), true) -> short text"""
    if isinstance(ans, dict) and "E" in ans:
        return show(ans["E"])
    return None


def show(t):
    if isinstance(t, list):
        c = codes_of(t)
        if c is not None and t:
            return '"' + "".join(chr(x) for x in c) + '"'
        return "[" + ",".join(show(x) for x in t) + "]"
    if isinstance(t, tuple):
        if t[0] == "a":
            return t[1]
        if t[0] == "v":
            return "_"
        if isinstance(t[1], list):
            return "%s(%s)" % (t[0], ",".join(show(x) for x in t[1]))
        return "%s(%s)" % (t[0], t[1])
    return str(t)


def model_ok(s):
    """`ok 1 2 3` -> [1,2,3]; otherwise None"""
    if s == "ok":
        return []
    if s.startswith("ok "):
        return [int(x) for x in s[3:].split(" ")]
    return None


# ------------------------------------------------------------------ generators

BOUND_CP = [0, 1, 0x7f, 0x80, 0xff, 0x100, 0x7ff, 0x800, 0xfff, 0x1000, 0xd7ff, 0xe000, 0xfffd, 0xfffe, 0xffff,
            0x10000, 0x1f600, 0x3ffff, 0x40000, 0xfffff, 0x100000, 0x10ffff, 0x20, 0x22, 0x5c, 0x27, 0x0a, 0x09]
LENS = [0, 0, 1, 1, 2, 3, 4, 5, 6, 7, 8, 15, 16, 17, 31, 32, 33, 63, 64, 65, 100, 127, 128, 199, 200]


def rand_len(rng, mx=200):
    r = rng.random()
    if r < 0.45:
        return min(mx, rng.choice(LENS))
    if r < 0.8:
        return rng.randint(0, 24)
    return rng.randint(0, mx)


def rand_bytes(rng, n):
    m = rng.random()
    if m < 0.1:
        return [rng.choice([0, 255, 0x80, 0x7f, 0x3f, 0x40, 0xfb, 0xff, 0xf0, 0x0f])] * n
    if m < 0.25:
        return [rng.choice([0, 1, 15, 16, 63, 64, 127, 128, 191, 192, 239, 240, 251, 252, 254, 255]) for _ in range(n)]
    if m < 0.35:
        return [rng.randint(0x20, 0x7e) for _ in range(n)]
    return [rng.randint(0, 255) for _ in range(n)]


def rand_scalar(rng):
    r = rng.random()
    if r < 0.3:
        return rng.choice(BOUND_CP)
    if r < 0.5:
        return rng.randint(0x20, 0x7e)
    if r < 0.65:
        return rng.randint(0x80, 0x7ff)
    if r < 0.8:
        c = rng.randint(0x800, 0xffff)
        return c if not (0xd800 <= c <= 0xdfff) else 0xd7ff
    if r < 0.95:
        return rng.randint(0x10000, 0x10ffff)
    return rng.randint(0, 0x1f)


def rand_scalars(rng, n):
    return [rand_scalar(rng) for _ in range(n)]


def py_utf8(cps):
    return list("".join(chr(c) for c in cps).encode("utf-8", "surrogatepass"))


class Gen:
    def __init__(self, rng):
        self.rng = rng
        self.k = 0
        self.cases = []

    def add(self, fam, query, model, **kw):
        i = "%s%d" % (fam[0] + fam[-1], self.k)
        self.k += 1
        lines = ["Q\tp%s_%d\t1\t%s" % (i, j, p) for j, p in enumerate(PRELUDE)]
        lines.append("Q\t%s\t2\t%s" % (i, hq(query)))
        c = {"id": i, "family": fam, "query": query, "impl": lines,
             "model": ["%s\t%s\t%s" % (model[0], i, "\t".join(model[1:]))] if model else []}
        c.update(kw)
        self.cases.append(c)
        return c

    # ---- hex
    def hexenc(self, bs=None):
        rng = self.rng
        if bs is None:
            bs = rand_bytes(rng, rand_len(rng))
        q = "catch((hex_bytes(H,%s), hex_bytes(H,B)), error(E,_), true)." % pl_ints(bs)
        self.add("hexenc", q, ["hexenc", " ".join(map(str, bs))], bytes=bs)

    def hexenc_bad(self):
        rng = self.rng
        bs = rand_bytes(rng, rng.randint(0, 12))
        for _ in range(rng.randint(1, 2)):
            bs.insert(rng.randint(0, len(bs)), rng.choice([256, -1, 257, 1000, -128, 65536, -255, 2 ** 64]))
        q = "catch((hex_bytes(H,%s), hex_bytes(H,B)), error(E,_), true)." % pl_ints(bs)
        self.add("hexenc", q, ["hexenc", " ".join(map(str, bs))], bytes=bs, bad=True)

    def hexdec(self, codes=None, bad=False):
        rng = self.rng
        if codes is None:
            bs = rand_bytes(rng, rand_len(rng))
            style = rng.choice(["lower", "upper", "mixed", "mixed"])
            txt = bytes(bs).hex()
            if style == "upper":
                txt = txt.upper()
            elif style == "mixed":
                txt = "".join(ch.upper() if rng.random() < 0.5 else ch for ch in txt)
            codes = [ord(ch) for ch in txt]
        q = "catch(hex_bytes(%s,B), error(E,_), true)." % pl_string(codes, rng)
        self.add("hexdec", q, ["hexdec", " ".join(map(str, codes))], codes=codes, bad=bad)

    def hexdec_bad(self):
        rng = self.rng
        bs = rand_bytes(rng, rng.randint(0, 20))
        codes = [ord(ch) for ch in bytes(bs).hex()]
        m = rng.choice(["odd", "odd", "nonhex", "nonhex", "near", "nonascii", "space"])
        pos = rng.randint(0, len(codes))
        if m == "odd":
            codes.insert(pos, ord(rng.choice("0123456789abcdefABCDEF")))
        elif m == "nonhex":
            codes.insert(pos, ord(rng.choice("ghxyzGHXYZ-+_ .,=")))
            if rng.random() < 0.5:
                codes.insert(rng.randint(0, len(codes)), ord("0"))
        elif m == "near":   # neighbours of the digit ranges
            codes.insert(pos, rng.choice([0x2f, 0x3a, 0x40, 0x47, 0x60, 0x67]))
            codes.insert(pos, ord("1"))
        elif m == "nonascii":
            codes.insert(pos, rng.choice([0xe9, 0xff10, 0xff21, 0x661, 0x1d7d8]))   # é, fullwidth 0/A, arabic-indic 1, math 0
            codes.insert(pos, ord("a"))
        else:
            codes.insert(pos, 0x20)
            codes.insert(pos, 0x20)
        self.hexdec(codes, bad=True)

    # ---- base64
    OPTS = [(p, c) for p in (None, True, False) for c in (None, "standard", "url")]

    def opts(self):
        p, c = self.rng.choice(self.OPTS)
        o = []
        if p is not None:
            o.append("padding(%s)" % ("true" if p else "false"))
        if c is not None:
            o.append("charset(%s)" % c)
        if self.rng.random() < 0.3:
            o.reverse()
        return "[" + ",".join(o) + "]", ("1" if p in (None, True) else "0"), ("1" if c == "url" else "0")

    def b64enc(self, bs=None, o=None):
        rng = self.rng
        if bs is None:
            bs = rand_bytes(rng, rand_len(rng))
        otext, p, u = o or self.opts()
        q = "catch((chars_base64(%s,B,%s), chars_base64(D,B,%s)), error(E,_), true)." % (pl_string(bs, rng), otext, otext)
        self.add("b64enc", q, ["b64enc", p, u, " ".join(map(str, bs))], bytes=bs, opts=otext, pad=p, url=u)

    def b64enc_bad(self):
        rng = self.rng
        cs = rand_bytes(rng, rng.randint(0, 10))
        bad = rng.choice([0x100, 0x20ac, 0x1f600, 0x101, 0xffff])
        cs.insert(rng.randint(0, len(cs)), bad)
        if rng.random() < 0.3:
            cs.append(rng.choice([0x3b1, 0x100]))
        otext, p, u = self.opts()
        q = "catch(chars_base64(%s,B,%s), error(E,_), true)." % (pl_string(cs, rng), otext)
        first_bad = [c for c in cs if c > 255][0]
        self.add("b64enc", q, None, codes=cs, opts=otext, bad=True, expect_err="domain_error(octet_character,%s)" % chr(first_bad))

    def b64dec(self, codes=None, o=None, mut=None):
        rng = self.rng
        otext, p, u = o or self.opts()
        if codes is None:
            bs = rand_bytes(rng, rand_len(rng, 150))
            enc = base64.urlsafe_b64encode(bytes(bs)) if u == "1" else base64.b64encode(bytes(bs))
            if p == "0":
                enc = enc.rstrip(b"=")
            codes = list(enc)
        q = "chars_base64(C,%s,%s)." % (pl_string(codes, rng), otext)
        self.add("b64dec", q, ["b64dec", p, u, " ".join(map(str, codes))], codes=codes, opts=otext, pad=p, url=u, mut=mut)

    def b64dec_mut(self):
        rng = self.rng
        o = self.opts()
        otext, p, u = o
        n = rng.choice([0, 1, 2, 3, 4, 5, 6, 7, 8, 9, 10, 11, 12, 30, 31, 32, 33, 34, 35, 47, 48, 49]) if rng.random() < 0.7 else rng.randint(0, 60)
        bs = rand_bytes(rng, n)
        enc = list(base64.urlsafe_b64encode(bytes(bs)) if u == "1" else base64.b64encode(bytes(bs)))
        if p == "0":
            while enc and enc[-1] == 61:
                enc.pop()
        alpha = (b"ABCDEFGHIJKLMNOPQRSTUVWXYZabcdefghijklmnopqrstuvwxyz0123456789" + (b"-_" if u == "1" else b"+/"))
        m = rng.choice(["droppad", "droppad1", "addpad", "addpad2", "trailbits", "otheralpha", "invalid", "ws", "midpad",
                        "trunc", "trunc", "append", "random", "padonly", "lastsym"])
        if m == "droppad":
            while enc and enc[-1] == 61:
                enc.pop()
        elif m == "droppad1":
            if enc and enc[-1] == 61:
                enc.pop()
        elif m == "addpad":
            enc.append(61)
        elif m == "addpad2":
            enc += [61] * rng.randint(2, 4)
        elif m == "trailbits" or m == "lastsym":
            k = len(enc) - 1
            while k >= 0 and enc[k] == 61:
                k -= 1
            if k >= 0:
                v = alpha.index(bytes([enc[k]]))
                enc[k] = alpha[(v + rng.choice([1, 2, 3, 4, 8, 15, 16, 32])) % 64] if m == "trailbits" else rng.choice(alpha)
        elif m == "otheralpha":
            enc.insert(rng.randint(0, len(enc)), rng.choice(b"+/-_"))
            enc.insert(rng.randint(0, len(enc)), rng.choice(b"AQgw"))
            enc.insert(rng.randint(0, len(enc)), rng.choice(b"AQgw"))
            enc.insert(rng.randint(0, len(enc)), rng.choice(b"AQgw"))
        elif m == "invalid":
            enc.insert(rng.randint(0, len(enc)), rng.choice([0x2e, 0x2a, 0x40, 0x5b, 0x60, 0x7b, 0x2c, 0xe9, 0x100, 0x3d, 0]))
        elif m == "ws":
            enc.insert(rng.randint(0, len(enc)), rng.choice([0x20, 0x0a, 0x0d, 0x09]))
        elif m == "midpad":
            enc.insert(rng.randint(0, max(0, len(enc) - 1)), 61)
        elif m == "trunc":
            enc = enc[:rng.randint(0, len(enc))]
        elif m == "append":
            enc += [rng.choice(alpha) for _ in range(rng.randint(1, 3))]
        elif m == "random":
            enc = [rng.choice(alpha + b"==") for _ in range(rng.randint(0, 9))]
        elif m == "padonly":
            enc = [61] * rng.randint(1, 5)
        self.b64dec(enc, o, mut=m)

    # ---- utf-8
    def u8enc(self, cps=None):
        rng = self.rng
        if cps is None:
            cps = rand_scalars(rng, rand_len(rng))
        q = "catch((chars_utf8bytes(%s,B), chars_utf8bytes(D,B)), error(E,_), true)." % pl_string(cps, rng)
        self.add("utf8enc", q, ["u8enc", " ".join(map(str, cps))], codes=cps)

    def u8dec(self, bs=None, mut=None):
        rng = self.rng
        if bs is None:
            bs = py_utf8(rand_scalars(rng, rand_len(rng, 120)))
        q = "catch(chars_utf8bytes(C,%s), error(E,_), true)." % pl_ints(bs)
        self.add("utf8dec", q, ["u8dec", " ".join(map(str, bs))], bytes=bs, mut=mut)

    OVERLONG = [[0xc0, 0x80], [0xc1, 0xbf], [0xc0, 0xaf], [0xe0, 0x80, 0x80], [0xe0, 0x9f, 0xbf], [0xe0, 0x80, 0xaf],
                [0xf0, 0x80, 0x80, 0x80], [0xf0, 0x8f, 0xbf, 0xbf], [0xf0, 0x80, 0x80, 0xaf]]
    SURR = [[0xed, 0xa0, 0x80], [0xed, 0xbf, 0xbf], [0xed, 0xa0, 0x80, 0xed, 0xb0, 0x80]]
    TOOBIG = [[0xf4, 0x90, 0x80, 0x80], [0xf5, 0x80, 0x80, 0x80], [0xf7, 0xbf, 0xbf, 0xbf]]

    def u8dec_mut(self):
        rng = self.rng
        pre = py_utf8([c for c in rand_scalars(rng, rng.randint(0, 6)) if c != 0xfffd])
        post = py_utf8([c for c in rand_scalars(rng, rng.randint(0, 6)) if c != 0xfffd])
        m = rng.choice(["overlong", "overlong", "surrogate", "toobig", "badlead", "straycont", "trunc", "trunc", "badcont", "random", "random"])
        if m == "overlong":
            mid = rng.choice(self.OVERLONG)
        elif m == "surrogate":
            mid = rng.choice(self.SURR)
        elif m == "toobig":
            mid = rng.choice(self.TOOBIG)
        elif m == "badlead":
            mid = [rng.choice([0xf8, 0xfb, 0xfc, 0xfe, 0xff])] + [rng.randint(0x80, 0xbf) for _ in range(rng.randint(0, 3))]
        elif m == "straycont":
            mid = [rng.randint(0x80, 0xbf) for _ in range(rng.randint(1, 3))]
        elif m == "trunc":
            full = py_utf8([rng.choice([0xe9, 0x20ac, 0xffff, 0x1f600, 0x10ffff, 0x800, 0x10000])])
            mid = full[:rng.randint(1, len(full) - 1)]
            if rng.random() < 0.5:
                post = []
        elif m == "badcont":
            full = py_utf8([rng.choice([0xe9, 0x20ac, 0x1f600, 0x7ff, 0x10000])])
            k = rng.randint(1, len(full) - 1)
            full[k] = rng.choice([0x00, 0x41, 0x7f, 0xc0, 0xc3, 0xe2, 0xf0, 0xff])
            mid = full
        else:
            mid = [rng.choice([0x41, 0x80, 0xbf, 0xc0, 0xc2, 0xdf, 0xe0, 0xed, 0xef, 0xf0, 0xf4, 0xf5, 0xff, 0x9f, 0xa0, 0x8f, 0x90])
                   for _ in range(rng.randint(1, 8))]
            if rng.random() < 0.5:
                pre, post = [], []
        self.u8dec(pre + mid + post, mut=m)

    # ---- digests / hmac (oracle: hashlib, hmac)
    def digest(self, alg=None, n=None):
        rng = self.rng
        alg = alg or rng.choice(list(ALG))
        enc = rng.choice(["utf8", "utf8", "octet", None])
        if n is None:
            n = rng.choice([0, 1, 3, 55, 56, 63, 64, 65, 71, 72, 73, 103, 104, 105, 111, 112, 119, 120, 127, 128, 129, 135, 136, 137,
                            143, 144, 145, 200, 255, 256, 300]) if rng.random() < 0.5 else rand_len(rng)
        if enc == "octet":
            cps = rand_bytes(rng, n)
            data = bytes(cps)
        else:
            cps = rand_scalars(rng, n) if rng.random() < 0.6 else rand_bytes(rng, n)
            data = bytes(py_utf8(cps))
        opts = ["algorithm(%s)" % alg]
        if enc:
            opts.append("encoding(%s)" % enc)
        key = None
        mode = "hash"
        if alg in HMAC_ALG and rng.random() < 0.5:
            key = rand_bytes(rng, rng.choice([0, 1, 16, 32, 63, 64, 65, 127, 128, 129, 200]) if rng.random() < 0.6 else rng.randint(0, 200))
            opts.append("hmac(%s)" % pl_ints(key))
            mode = "hmac"
            expect = pyhmac.new(bytes(key), data, ALG[alg]).hexdigest()
        else:
            expect = hashlib.new(ALG[alg], data).hexdigest()
        if alg == "sha256" and rng.random() < 0.15 and mode == "hash" and not enc:
            opts = ["algorithm(A)"]     # default algorithm
        rng.shuffle(opts)
        verify = None
        if rng.random() < 0.25:
            # verification mode: Hash given (for hmac: constant-time compare); correct or tampered.
            # Without hmac/1 a wrong Hash makes hex_bytes/2 raise domain_error(hex_encoding,_) instead
            # of failing (both arguments instantiated) - outside this property, so only `good` there.
            verify = rng.choice(["good", "bad"]) if mode == "hmac" else "good"
            h = expect
            if verify == "bad":
                k = rng.randrange(len(h))
                h = h[:k] + ("0" if h[k] != "0" else "1") + h[k + 1:]
            q = "catch(crypto_data_hash(%s,%s,[%s]), error(E,_), true)." % (pl_string(cps, rng), pl_string([ord(c) for c in h]), ",".join(opts))
        else:
            q = "catch(crypto_data_hash(%s,H,[%s]), error(E,_), true)." % (pl_string(cps, rng), ",".join(opts))
        self.add("digest", q, None, alg=alg, mode=mode, expect=expect, verify=verify, n=len(data))

    def digest_bad(self):
        rng = self.rng
        kind = rng.choice(["alg", "hmacalg", "octet"])
        if kind == "alg":
            a = rng.choice(["md5", "sha1", "sha224", "sha3", "blake2", "sha_256"])
            q = "catch(crypto_data_hash(\"abc\",H,[algorithm(%s)]), error(E,_), true)." % a
            self.add("digest", q, None, expect_err="domain_error(hash_algorithm,%s)" % a, mode="bad")
        elif kind == "hmacalg":
            a = rng.choice(["sha3_256", "sha512_256", "blake2b512", "ripemd160"])
            q = "catch(crypto_data_hash(\"abc\",H,[algorithm(%s),hmac([1,2])]), error(E,_), true)." % a
            self.add("digest", q, None, expect_ans="false", mode="bad")
        else:
            q = "catch(crypto_data_hash(%s,H,[algorithm(sha256),encoding(octet)]), error(E,_), true)." % pl_string([0x61, 0x100, 0x62])
            self.add("digest", q, None, expect_err="domain_error(octet_character,%s)" % chr(0x100), mode="bad")

    # ---- chacha20-poly1305 (oracle: pure-Python RFC 8439)
    def aead(self):
        rng = self.rng
        enc = rng.choice(["utf8", "octet", None])
        n = rng.choice([0, 1, 15, 16, 17, 63, 64, 65, 127, 128, 129, 200]) if rng.random() < 0.5 else rand_len(rng)
        if enc == "octet":
            cps = rand_bytes(rng, n)
            data = bytes(cps)
            aadc = rand_bytes(rng, rng.choice([0, 0, 1, 12, 16, 17, 40]))
            aad = bytes(aadc)
        else:
            cps = rand_scalars(rng, n) if rng.random() < 0.6 else rand_bytes(rng, n)
            data = bytes(py_utf8(cps))
            aadc = rand_scalars(rng, rng.choice([0, 0, 1, 12, 16, 17, 40]))
            aad = bytes(py_utf8(aadc))
        key = rand_bytes(rng, 32)
        iv = rand_bytes(rng, 12)
        ct, tag = aead_seal(bytes(key), bytes(iv), data, aad)
        eo = ["tag(T)"] + (["encoding(%s)" % enc] if enc else []) + (["aad(%s)" % pl_string(aadc, rng)] if aadc or rng.random() < 0.2 else [])
        do = ["tag(T)"] + eo[1:]
        tamper = rng.choice(["tag", "tag", "ct", "aad", "key", "iv"])
        if tamper == "ct" and not data:
            tamper = "tag"
        A = "'chacha20-poly1305'"
        K, IV = pl_ints(key), pl_ints(iv)
        goals = ["crypto_data_encrypt(%s,%s,%s,%s,CT,[%s])" % (pl_string(cps, rng), A, K, IV, ",".join(eo)),
                 "maplist(char_code,CT,CTc)",
                 "crypto_data_decrypt(CT,%s,%s,%s,PT,[%s])" % (A, K, IV, ",".join(do)),
                 "maplist(char_code,PT,PTc)"]
        # tampered variant must fail
        if tamper == "tag":
            k = rng.randrange(16)
            goals.append("nth0(%d,T,X0), X1 is xor(X0,%d), length(Pre,%d), append(Pre,[_|Post],T), append(Pre,[X1|Post],T2)" % (k, 1 << rng.randrange(8), k))
            goals.append("( crypto_data_decrypt(CT,%s,%s,%s,_,[%s]) -> R = accepted ; R = rejected )" % (A, K, IV, ",".join(["tag(T2)"] + eo[1:])))
        elif tamper == "ct":
            k = rng.randrange(len(data))
            goals.append("nth0(%d,CTc,X0), X1 is xor(X0,%d), length(Pre,%d), append(Pre,[_|Post],CTc), append(Pre,[X1|Post],CTc2), maplist(char_code,CT2,CTc2)" % (k, 1 << rng.randrange(8), k))
            goals.append("( crypto_data_decrypt(CT2,%s,%s,%s,_,[%s]) -> R = accepted ; R = rejected )" % (A, K, IV, ",".join(do)))
        elif tamper == "aad":
            other = "aad(%s)" % pl_string(aadc + [0x78], rng)
            o2 = [x for x in do if not x.startswith("aad(")] + [other]
            goals.append("( crypto_data_decrypt(CT,%s,%s,%s,_,[%s]) -> R = accepted ; R = rejected )" % (A, K, IV, ",".join(o2)))
        elif tamper == "key":
            key2 = list(key)
            key2[rng.randrange(32)] ^= 1 << rng.randrange(8)
            goals.append("( crypto_data_decrypt(CT,%s,%s,%s,_,[%s]) -> R = accepted ; R = rejected )" % (A, pl_ints(key2), IV, ",".join(do)))
        else:
            iv2 = list(iv)
            iv2[rng.randrange(12)] ^= 1 << rng.randrange(8)
            goals.append("( crypto_data_decrypt(CT,%s,%s,%s,_,[%s]) -> R = accepted ; R = rejected )" % (A, K, pl_ints(iv2), ",".join(do)))
        q = "catch((%s), error(E,_), true)." % ", ".join(goals)
        pt_expect = list(data) if enc == "octet" else cps
        self.add("aead", q, None, ct=list(ct), tag=list(tag), pt=pt_expect, tamper=tamper, n=len(data))


def generate(rng, tier):
    g = Gen(rng)
    scale = 1 if tier == "quick" else 12
    # fixed boundary cases first (independent of the seed)
    g.hexenc([]); g.hexenc(list(range(256))); g.hexenc([0]); g.hexenc([255] * 200)
    g.hexdec([]); g.hexdec([ord(c) for c in "0123456789abcdefABCDEF"]); g.hexdec([ord("0")], bad=True)
    for o in [("[]", "1", "0"), ("[padding(false)]", "0", "0"), ("[charset(url)]", "1", "1"), ("[padding(false),charset(url)]", "0", "1"),
              ("[padding(true),charset(standard)]", "1", "0")]:
        for bs in ([], [0], [255], [0, 0], [255, 255], [251, 255, 254], list(range(256))[:200], [0xfb, 0xef, 0xbe] * 5 + [0xff]):
            g.b64enc(bs, o)
        for txt in ("", "AA==", "AA", "AAA=", "AAA", "AAAA", "A", "A===", "=", "====", "AB==", "AAB=", "AA=A", "AA==AAAA", "+/+/", "-_-_", "AAAA\n"):
            g.b64dec([ord(c) for c in txt], o, mut="fixed")
    for otext, err in [("[charset(foo)]", "domain_error(charset,foo)"), ("[padding(maybe)]", "type_error(boolean,maybe)"),
                       ("[padding(1)]", "type_error(boolean,1)"), ("[_]", "instantiation_error"), ("[charset(1)]", "type_error(atom,1)")]:
        g.add("b64enc", 'catch(chars_base64("abc",B,%s), error(E,_), true).' % otext, None, bad=True, expect_err=err, opts=otext, codes=[97, 98, 99])
    g.u8enc([]); g.u8enc(BOUND_CP); g.u8enc([0x10ffff] * 50)
    g.u8dec([]); g.u8dec(list(range(128)))
    for bs in Gen.OVERLONG + Gen.SURR + Gen.TOOBIG + [[0x80], [0xbf], [0xff], [0xe2], [0xe2, 0x88], [0xf0, 0x9f, 0x98], [0xe2, 0x41], [0xe2, 0x88, 0x41],
                                                      [0xf0, 0x9f, 0x41, 0x42], [0xc3], [0xc3, 0xc3, 0xa9]]:
        g.u8dec(bs, mut="fixed")
    for a in ALG:
        g.digest(a, 0)
    g.digest_bad(); g.digest_bad(); g.digest_bad()
    for _ in range(250 * scale):
        g.hexenc()
    for _ in range(200 * scale):
        g.hexdec()
    for _ in range(120 * scale):
        g.hexdec_bad()
    for _ in range(25 * scale):
        g.hexenc_bad()
    for _ in range(600 * scale):
        g.b64enc()
    for _ in range(20 * scale):
        g.b64enc_bad()
    for _ in range(400 * scale):
        g.b64dec()
    for _ in range(700 * scale):
        g.b64dec_mut()
    for _ in range(500 * scale):
        g.u8enc()
    for _ in range(400 * scale):
        g.u8dec()
    for _ in range(600 * scale):
        g.u8dec_mut()
    for _ in range(600 * scale):
        g.digest()
    for _ in range(10 * scale):
        g.digest_bad()
    for _ in range(150 * scale):
        g.aead()
    return g.cases


# ------------------------------------------------------------------ judge

def judge(c, impl, model, findings, stats):
    fam = c["family"]
    raw = impl.get(c["id"], "missing")
    ans = first(raw)
    mv = model.get(c["id"]) if c.get("model") else None

    def bad(kind, cls, detail, **extra):
        sig = {"family": fam, "class": cls}
        for k in ("opts", "alg", "mode", "mut"):
            if c.get(k) is not None:
                sig[k] = str(c[k])
        inp = c.get("bytes") if c.get("bytes") is not None else c.get("codes")
        if inp is not None:
            sig["input"] = " ".join(map(str, inp[:64]))
        sig.update({k: str(v) for k, v in extra.items()})
        findings.append(core.Finding(kind, sig, detail, {k: c[k] for k in c if k not in ("corpus",)}))
        return False

    e = err_of(ans)
    if fam == "hexenc":
        bs = c["bytes"]
        m = model_ok(mv)
        if m is None:   # model: err byte N
            want = "type_error(byte,%s)" % mv.split(" ")[2]
            stats["errors"]["hexenc:type_error(byte)"] = stats["errors"].get("hexenc:type_error(byte)", 0) + 1
            if e != want:
                return bad("violation", "hex-encode-error", "hex_bytes(-H, +Bytes) with a non-octet: expected %s, got %s" % (want, raw[:200]), impl=raw[:80])
            return True
        ref = [ord(ch) for ch in binascii.hexlify(bytes(bs)).decode()]
        h = codes_of(ans.get("H")) if isinstance(ans, dict) else None
        b = ints_of(ans.get("B")) if isinstance(ans, dict) else None
        if h == m and b == bs and m == ref:
            return True
        if m != ref:
            return bad("disagreement", "hex-model-vs-python", "model %r python %r" % (m, ref))
        if h != m:
            return bad("violation", "hex-encode", "hex_bytes(-H, +Bytes): hex text differs from the reference (2 lower-case digits per byte): %s" % raw[:300], impl=raw[:80])
        return bad("violation", "hex-roundtrip", "hex_bytes does not decode its own output back to the bytes: %s" % raw[:300], impl=raw[:80])
    if fam == "hexdec":
        m = model_ok(mv)
        if mv == "none":
            stats["errors"]["hexdec:domain_error(hex_encoding)"] = stats["errors"].get("hexdec:domain_error(hex_encoding)", 0) + 1
            if e is not None and e.startswith("domain_error(hex_encoding,"):
                return True
            return bad("violation", "hex-decode-malformed", "malformed hex text must raise domain_error(hex_encoding, _): %s" % raw[:300], impl=raw[:80])
        try:
            ref = list(binascii.unhexlify(bytes(c["codes"])))
        except Exception:
            ref = None
        b = ints_of(ans.get("B")) if isinstance(ans, dict) and "E" not in ans else None
        if b == m and m == ref:
            return True
        if m != ref:
            return bad("disagreement", "hex-model-vs-python", "model %r python %r" % (m, ref))
        return bad("violation", "hex-decode", "hex_bytes(+Hex, -Bytes) differs from the reference: %s" % raw[:300], impl=raw[:80])
    if fam == "b64enc":
        if c.get("bad"):
            ek = "b64enc:" + c["expect_err"].split("(")[0] + ("(octet_character)" if "octet" in c["expect_err"] else "")
            stats["errors"][ek] = stats["errors"].get(ek, 0) + 1
            if e == c["expect_err"]:
                return True
            return bad("violation", "b64-encode-error", "expected %s, got %s" % (c["expect_err"], raw[:200]), impl=raw[:80])
        bs = c["bytes"]
        m = model_ok(mv)
        ref = base64.urlsafe_b64encode(bytes(bs)) if c["url"] == "1" else base64.b64encode(bytes(bs))
        if c["pad"] == "0":
            ref = ref.rstrip(b"=")
        ref = list(ref)
        b = codes_of(ans.get("B")) if isinstance(ans, dict) and "E" not in ans else None
        d = codes_of(ans.get("D")) if isinstance(ans, dict) and "E" not in ans else None
        if b == m and d == bs and m == ref:
            return True
        if m != ref:
            return bad("disagreement", "b64-model-vs-python", "model %r python %r" % (m, ref))
        if b != m:
            return bad("violation", "b64-encode", "chars_base64(+Cs, -B, Opts) differs from RFC 4648: %s" % raw[:300], impl=raw[:80])
        return bad("violation", "b64-roundtrip", "chars_base64 does not decode its own output back to the input: %s" % raw[:300], impl=raw[:80])
    if fam == "b64dec":
        m = model_ok(mv)
        if mv == "none":
            stats["errors"]["b64dec:false"] = stats["errors"].get("b64dec:false", 0) + 1
            if ans == "false":
                return True
            return bad("violation", "b64-decode-malformed", "text that is not a canonical RFC 4648 encoding for these options must be rejected (failure): %s" % raw[:300], impl=raw[:80])
        cc = codes_of(ans.get("C")) if isinstance(ans, dict) else None
        if cc == m:
            return True
        return bad("violation", "b64-decode", "chars_base64(-Cs, +B, Opts): expected bytes %r, got %s" % (m, raw[:300]), impl=raw[:80])
    if fam == "utf8enc":
        cps = c["codes"]
        m = model_ok(mv)
        ref = py_utf8(cps)
        b = ints_of(ans.get("B")) if isinstance(ans, dict) and "E" not in ans else None
        d = codes_of(ans.get("D")) if isinstance(ans, dict) and "E" not in ans else None
        if b == m and d == cps and m == ref:
            return True
        if m != ref:
            return bad("disagreement", "utf8-model-vs-python", "model %r python %r" % (mv, ref))
        if b != m:
            return bad("violation", "utf8-encode", "chars_utf8bytes(+Cs, -Bs) differs from RFC 3629: %s" % raw[:300], impl=raw[:80])
        return bad("violation", "utf8-roundtrip", "chars_utf8bytes does not decode its own output back to the chars: %s" % raw[:300], impl=raw[:80])
    if fam == "utf8dec":
        spec, _, mech = mv.partition(" mech=")
        mech, _, mechfix = mech.partition(" mechfix=")     # HEAD clauses / clauses with the proposed patch
        spec = spec[len("spec="):]
        sp = model_ok(spec)
        if isinstance(ans, dict) and "E" in ans:
            iv = "repr" if e == "representation_error(character_code)" else "err:" + str(e)
        elif isinstance(ans, dict):
            cc = codes_of(ans.get("C"))
            iv = ("ok " + " ".join(map(str, cc))).strip() if cc is not None else "raw:" + raw[:100]
        else:
            iv = "raw:" + raw[:100]
        try:
            pyref = [ord(ch) for ch in bytes(c["bytes"]).decode("utf-8")]
        except UnicodeDecodeError:
            pyref = None
        if sp != pyref:
            return bad("disagreement", "utf8-model-vs-python", "strict model %r python %r" % (spec, pyref))
        if sp is not None:
            if model_ok(iv) == sp and mech == spec and mechfix == spec:
                return True
            if model_ok(iv) != sp:
                return bad("violation", "utf8-decode", "well-formed UTF-8 decoded wrongly: expected %s, got %s" % (spec, iv), impl=iv[:80])
            return bad("disagreement", "utf8-mech-model", "mechanism model %s / %s, implementation %s" % (mech, mechfix, iv))
        # ill-formed input
        stats["errors"]["utf8dec:ill-formed:" + ("repr" if iv == "repr" else "replaced" if model_ok(iv) is not None and 0xfffd in model_ok(iv) else "other")] = \
            stats["errors"].get("utf8dec:ill-formed:" + ("repr" if iv == "repr" else "replaced" if model_ok(iv) is not None and 0xfffd in model_ok(iv) else "other"), 0) + 1
        got = model_ok(iv)
        if got is not None and 0xfffd not in got:
            # `overlong-accepted`: exactly what the mirror of the clauses at HEAD does (finding C37-1);
            # anything else that is accepted silently is a different defect.
            cls = "overlong-accepted" if iv == mech else "ill-formed-accepted"
            return bad("violation", cls,
                       "ill-formed UTF-8 (RFC 3629 / Unicode Table 3-7) is decoded to characters %r without U+FFFD or an error" % (got,), impl=iv[:80])
        if iv != mech and iv != mechfix:
            return bad("disagreement", "utf8-mech-model", "mechanism model %s (HEAD) / %s (patched), implementation %s" % (mech, mechfix, iv))
        stats["mech_variant"]["head" if iv == mech and iv != mechfix else "patched" if iv != mech else "same"] += 1
        return True
    if fam == "digest":
        if c.get("expect_err"):
            stats["errors"]["digest:" + c["expect_err"].split("(")[0]] = stats["errors"].get("digest:" + c["expect_err"].split("(")[0], 0) + 1
            if e == c["expect_err"]:
                return True
            return bad("violation", "digest-error", "expected %s, got %s" % (c["expect_err"], raw[:200]), impl=raw[:80])
        if c.get("expect_ans"):
            if ans == c["expect_ans"]:
                return True
            return bad("violation", "digest-error", "expected %s, got %s" % (c["expect_ans"], raw[:200]), impl=raw[:80])
        if c.get("verify"):
            want = "true" if c["verify"] == "good" else "false"
            if ans == want or (want == "true" and isinstance(ans, dict) and "E" not in ans):
                return True
            return bad("violation", "digest-verify", "crypto_data_hash with Hash instantiated (%s value): expected %s, got %s" % (c["verify"], want, raw[:200]), impl=raw[:80])
        h = codes_of(ans.get("H")) if isinstance(ans, dict) and "E" not in ans else None
        if h is not None and "".join(map(chr, h)) == c["expect"]:
            return True
        return bad("violation", "digest", "%s %s of %d bytes: hashlib says %s, got %s" % (c["alg"], c["mode"], c["n"], c["expect"], raw[:300]), impl=raw[:80])
    if fam == "aead":
        if not isinstance(ans, dict) or "E" in ans:
            return bad("violation", "aead", "encrypt/decrypt did not succeed: %s" % raw[:300], impl=raw[:80])
        ct, tag, pt, r = ints_of(ans.get("CTc", [])), ints_of(ans.get("T")), ints_of(ans.get("PTc", [])), ans.get("R")
        if pt != c["pt"]:
            return bad("violation", "aead-roundtrip", "decrypt(encrypt(P)) is not P: %s" % raw[:300])
        if ct != c["ct"] or tag != c["tag"]:
            return bad("violation", "aead-bytes", "ciphertext/tag differ from RFC 8439 reference: expected ct=%r tag=%r got %s" % (c["ct"], c["tag"], raw[:300]))
        if r != ("a", "rejected"):
            return bad("violation", "aead-tamper", "decryption with a modified %s was not rejected: %s" % (c["tamper"], raw[:300]), tamper=c["tamper"])
        return True
    return True


IMPL_ENV = {"SV_TIMEOUT_MS": "120000"}   # none of the generated goals can loop; the default 10 s only bites under load


def infra_bad(c, impl):
    for l in c["impl"][:-1]:
        if not impl.get(l.split("\t")[1], "missing").startswith("true"):
            return True
    r = impl.get(c["id"], "missing")
    return (r == "missing" or r.startswith(("timeout", "abort(", "skipped(", "panic("))
            or "existence_error'('procedure'" in r)


def nontrivial(c):
    fam = c["family"]
    if fam in ("hexenc", "b64enc"):
        return bool(c.get("bytes")) or c.get("bad", False)
    if fam in ("hexdec", "b64dec"):
        return bool(c.get("codes"))
    if fam == "utf8enc":
        return any(x >= 0x80 for x in c.get("codes", []))
    if fam == "utf8dec":
        return any(x >= 0x80 for x in c.get("bytes", []))
    return True


def run(ctx):
    rng, tier = ctx["rng"], ctx["tier"]
    rep = diff.replay_case(ctx)
    if rep is not None:
        cases = rep
    else:
        cases = diff.load_corpus("C37") + generate(rng, tier)
        seen = set()
        for c in cases:     # ids of corpus cases may collide with generated ones
            while c["id"] in seen:
                c["id"] += "x"
                c["impl"] = c["impl"][:-1] + ["Q\t%s\t2\t%s" % (c["id"], hq(c["query"]))]
                if c.get("model"):
                    f = c["model"][0].split("\t")
                    f[1] = c["id"]
                    c["model"] = ["\t".join(f)]
            seen.add(c["id"])
    impl, model = diff.run_cases(cases, impl_env=IMPL_ENV)
    # infrastructure hiccups (a library load hitting the watchdog on an overloaded host, a worker
    # that died): re-run those cases once, serially, before judging anything.
    retry = [c for c in cases if infra_bad(c, impl)]
    if retry:
        impl2, _ = diff.run_cases([dict(c, model=[]) for c in retry], impl_env=IMPL_ENV, parallel=False)
        impl.update(impl2)
    findings = []
    stats = {"errors": {}, "mech_variant": {"head": 0, "patched": 0, "same": 0}}
    agree = 0
    fam_count, distinct = {}, set()
    oracle_only = 0
    lens = {"0": 0, "1-16": 0, "17-64": 0, "65-200": 0, ">200": 0}
    for c in cases:
        fam_count[c["family"]] = fam_count.get(c["family"], 0) + 1
        ok = judge(c, impl, model, findings, stats)
        if rep is not None:
            print("replay %s\n  impl : %s\n  model: %s\n  verdict: %s" % (c["query"], impl.get(c["id"]), model.get(c["id"]) if c.get("model") else "(oracle: %s)" % c.get("expect", ""), "ok" if ok else "FINDING"))
        if ok:
            agree += 1
        if c["family"] in ("digest", "aead"):
            oracle_only += 1
        if nontrivial(c):
            distinct.add(c["query"])
        n = len(c.get("bytes") or c.get("codes") or []) if c["family"] not in ("digest", "aead") else c.get("n", 0)
        lens["0" if n == 0 else "1-16" if n <= 16 else "17-64" if n <= 64 else "65-200" if n <= 200 else ">200"] += 1
    # one finding of every (family, class) first, so that a frequent class cannot crowd the others
    # out of the (limited) list of reported replays
    firsts, rest, seen_fc = [], [], set()
    for f in findings:
        k = (f.sig.get("family"), f.sig.get("class"))
        (rest if k in seen_fc else firsts).append(f)
        seen_fc.add(k)
    findings = firsts + rest
    samples = [c["query"][:300] for c in cases[:2]] + [c["query"][:300] for c in cases[len(cases) // 2: len(cases) // 2 + 2]] + [c["query"][:300] for c in cases[-2:]]
    return {
        "evaluations": len(cases),
        "distinct_nontrivial": len(distinct),
        "rule": "byte / code-point sequences of length 0..200 (boundary lengths 0,1,2,3,4,15..17,31..33,63..65,127,128,199,200; values biased to 0,15,16,63,64,127,128,191,192,239,240,251..255 and the UTF-8 length boundaries 7F/80, 7FF/800, D7FF/E000, FFFF/10000, 10FFFF) rendered to hex_bytes/2, chars_base64/3 (9 option combinations incl. defaults), chars_utf8bytes/2 in both directions; malformed streams (odd/non-hex/near-miss hex, 15 kinds of base64 mutation, overlong/surrogate/too-big/truncated/bad-continuation UTF-8); digests over all 11 algorithms + HMAC (3) at block boundaries; ChaCha20-Poly1305 with 5 kinds of tampering. non-trivial = non-empty input (UTF-8 families: contains a non-ASCII unit); distinct by query text",
        "samples": samples,
        "traces_validated_against_impl": agree,
        "disagreements_checked": len(cases) - agree,
        "families": fam_count,
        "error_kinds_hit": stats["errors"],
        "utf8dec_illformed_matches_mechanism_variant": stats["mech_variant"],
        "length_histogram": lens,
        "oracle_only_cases_not_theorem": oracle_only,
        "infrastructure_retries": len(retry),
        "exhaustive": False,
        "findings": findings,
    }
