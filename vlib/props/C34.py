"""C34 — Large and deeply nested terms never crash the process.

Tie = operation x shape x size ladder, run on the real implementation with ONE HARNESS PROCESS PER
(shape, size) GROUP and an automatic restart after every death of the process, so that a native stack
overflow (SIGABRT "has overflowed its stack" / SIGSEGV) is observed as the outcome of exactly one
operation line.  Terms are built INSIDE Prolog by iterative (last-call) predicates, never from text,
except for the reader operations, whose text is produced by the (iterative) writer.

Outcome of every line must be `ok(Value)` / `failed` / `ex(PrologError)`; a death of the process or a
Rust panic is a violation of the statement (recorded with the smallest size on the ladder that
crashes).  Where the operation succeeds its value is compared with what the Lean model
(drv_C34: iterative pre-order walk + pair iterator over the same shape) and closed formulas say:
number of variables, ground-ness, compare/3 against a copy, list length, printed length.
"""
import json
import os
import subprocess
import time
from concurrent.futures import ThreadPoolExecutor

from .. import core, diff

LEVEL = "partial"
TRUSTED_BASE = [
    "vlib/props/C34.py: the Prolog helper program (shapes built by last-call-optimised predicates; one goal per operation) and the mapping of shape names to drv_C34 shapes",
    "classification of each implementation routine as an instance of the iterative work-list scheme is by code reading (notes/design/C34.md), not by proof",
    "the harness runs the machine on the process' main thread with the default 8 MB stack, like the scryer-prolog binary",
    "a death of the harness process is attributed to the first line without output (core.run_impl convention); stderr of the dead process is used to tell a stack overflow from other aborts",
]
ASSUMPTIONS = [
    "native stack depth of compiled Rust is outside the model (DESIGN section 11): the theorems are about the iterative scheme, survival of the process is observed on the ladder only",
    "a watchdog timeout (operation slower than the budget at this size) is neither success nor crash: it is retried once and then counted as `slow`, not reported",
    "quick tier stops the ladder at 10^5 (a subset), thorough goes to 10^6; `wide` (arity 255) uses depth N/255 so that its node count is about N",
    "answers never carry the big term (only a small outcome term is bound to the query variable): the harness' own answer printer is not under test",
]

PY = "/root/.pyenv/versions/3.11.7/bin/python3"

HELPER = r"""
:- use_module(library(lists)).
:- use_module(library(between)).
:- use_module(library(charsio)).
:- use_module(library(iso_ext)).
:- use_module(library(format)).
:- use_module(library(dcgs)).
:- use_module(library(pairs)).
:- use_module(library(terms)).
:- dynamic(c34_fact/1).
:- dynamic(c34_rule/0).
mk(list, N, L) :- findall(X, between(1,N,X), L).
mk(vlist, N, L) :- length(L, N).
mk(alist, N, L) :- findall(a, between(1,N,_), L).
mk(rdeep, N, T) :- wrap(N, u, a, T).
mk(vdeep, N, T) :- wrap(N, u, _, T).
mk(rbin, N, T) :- wrap(N, r, a, T).
mk(lbin, N, T) :- wrap(N, l, a, T).
mk(nest, N, T) :- wrap(N, n, [], T).
mk(curly, N, T) :- wrap(N, c, a, T).
mk(plus, N, T) :- wrap(N, p, a, T).
mk(minus, N, T) :- wrap(N, m, a, T).
mk(conj, N, T) :- wrap(N, j, true, T).
mk(wide, N, T) :- D is max(1, N // 255), wrap(D, w, a, T).
mk(sum, N, T) :- wrap(N, s, 1, T).
mk(rsum, N, T) :- wrap(N, t, 1, T).
mk(neg, N, T) :- wrap(N, q, 1, T).
mk(none, _, none).
wrap(0, _, T, T) :- !.
wrap(N, K, A, T) :- w1(K, A, A1), N1 is N-1, wrap(N1, K, A1, T).
w1(u, A, f(A)).
w1(r, A, g(b,A)).
w1(l, A, g(A,b)).
w1(n, A, [A]).
w1(c, A, {A}).
w1(p, A, A+b).
w1(m, A, -(A)).
w1(j, A, (true,A)).
w1(w, A, T) :- functor(T, w, 255), T =.. [w|As], wfill(As, A).
w1(s, A, A+1).
w1(t, A, 1+A).
w1(q, A, -(A)).
wfill([A], A) :- !.
wfill([b|As], A) :- wfill(As, A).
run(S, N, Op, R) :- mk(S, N, T), catch((opx(Op, N, T, R0) -> R = ok(R0) ; R = failed), error(E, _), R = ex(E)).
opx(build, _, _, 0).
opx(length, _, T, N) :- length(T, N).
opx(copy, _, T, 0) :- copy_term(T, C), ( ground(T) -> T == C ; T \== C, T = C ).
opx(eq, _, T, 0) :- T == T.
opx(compare, _, T, O) :- copy_term(T, C), compare(O, T, C).
opx(unify, _, T, 0) :- copy_term(T, C), T = C.
opx(uoc, _, T, 0) :- copy_term(T, C), unify_with_occurs_check(T, C).
opx(subsumes, _, T, 0) :- copy_term(T, C), subsumes_term(T, C).
opx(ground, _, T, 0) :- ground(T).
opx(tvars, _, T, N) :- term_variables(T, Vs), length(Vs, N).
opx(acyclic, _, T, 0) :- acyclic_term(T).
opx(findall, _, T, 0) :- findall(T, true, [C]), ( ground(T) -> C == T ; C = T ).
opx(throw, _, T, 0) :- catch(throw(T), B, true), ( ground(T) -> B == T ; B = T ).
opx(bb, _, T, 0) :- bb_put(c34_key, T), bb_get(c34_key, C), ( ground(T) -> C == T ; C = T ), bb_put(c34_key, 0).
opx(univ, _, T, N) :- T =.. L, length(L, N).
opx(functor, _, T, N) :- functor(T, _, N).
opx(numbervars, _, T, E) :- numbervars(T, 0, E).
opx(copyattr, _, T, 0) :- copy_term(T, _, Gs), Gs == [].
opx(write, _, T, N) :- write_term_to_chars(T, [quoted(true)], Cs), length(Cs, N).
opx(writec, _, T, N) :- write_term_to_chars(T, [quoted(true),ignore_ops(true)], Cs), length(Cs, N).
opx(writenv, _, T, N) :- numbervars(T, 0, _), write_term_to_chars(T, [numbervars(true)], Cs), length(Cs, N).
opx(writemd, _, T, N) :- write_term_to_chars(T, [max_depth(5)], Cs), length(Cs, N).
opx(sort, _, T, N) :- sort(T, S), length(S, N).
opx(keysort, _, T, N) :- pairs_keys_values(Ps, T, T), keysort(Ps, S), length(S, N).
opx(reverse, _, T, N) :- reverse(T, S), length(S, N).
opx(append, _, T, N) :- append(T, [z], S), length(S, N).
opx(nth, _, T, 0) :- length(T, N), nth1(N, T, _).
opx(maplist, _, T, 0) :- maplist(c34_any, T).
opx(foldl, _, T, N) :- foldl(c34_cnt, T, 0, N).
opx(phrase, _, T, 0) :- phrase(c34_seq(T), T).
opx(atomchars, _, T, N) :- atom_chars(A, T), atom_length(A, N), atom_chars(A, Cs), Cs == T.
opx(atomcodes, _, T, N) :- atom_chars(A, T), atom_codes(A, Cs), length(Cs, N).
opx(is, _, T, V) :- V is T.
opx(assert, _, T, 0) :- assertz(c34_fact(T)), retract(c34_fact(C)), ( ground(T) -> C == T ; C = T ).
opx(asserta, _, T, 0) :- asserta(c34_fact(T)), retract(c34_fact(_)).
opx(assertbody, _, T, 0) :- assertz((c34_rule :- T)), retract((c34_rule :- _)).
opx(readback, _, T, 0) :- write_term_to_chars(T, [quoted(true)], Cs0), append(Cs0, " .", Cs), read_from_chars(Cs, R), ( ground(T) -> R == T ; R = T ).
opx(readbackc, _, T, 0) :- write_term_to_chars(T, [quoted(true),ignore_ops(true)], Cs0), append(Cs0, " .", Cs), read_from_chars(Cs, R), ( ground(T) -> R == T ; R = T ).
opx(readparen, N, _, 0) :- findall('(', between(1,N,_), Os), findall(')', between(1,N,_), Cl), append(Os, [a|Cl], Cs0), append(Cs0, " .", Cs), read_from_chars(Cs, R), R == a.
opx(readstr, N, _, L) :- findall(a, between(1,N,_), As), append(['"'|As], "\" .", Cs), read_from_chars(Cs, R), length(R, L).
opx(readatom, N, _, L) :- findall(a, between(1,N,_), As), append(['\''|As], "' .", Cs), read_from_chars(Cs, R), atom_length(R, L).
c34_any(_).
c34_cnt(_, A, B) :- B is A+1.
c34_seq([]) --> [].
c34_seq([X|Xs]) --> [X], c34_seq(Xs).
"""

LIST_SHAPES = ["list", "vlist", "alist"]
DEEP_SHAPES = ["rdeep", "vdeep", "rbin", "lbin", "nest", "curly", "plus", "minus", "conj", "wide"]
ARITH_SHAPES = ["sum", "rsum", "neg"]
# shapes known to drv_C34 (arith shapes are plus/minus with numeric leaves: same trees)
MODEL_SHAPE = {"sum": "plus", "rsum": "rbin", "neg": "minus"}

GENERIC_OPS = ["copy", "eq", "compare", "unify", "uoc", "subsumes", "ground", "tvars", "acyclic", "findall",
               "throw", "bb", "univ", "functor", "numbervars", "copyattr", "write", "writec", "writenv", "writemd"]
LIST_OPS = ["length", "sort", "keysort", "reverse", "append", "nth", "maplist", "foldl", "phrase"]
ALIST_OPS = ["atomchars", "atomcodes"]
ARITH_OPS = ["is", "write", "copy", "compare"]
ASSERT_OPS = ["assert", "asserta", "assertbody"]      # class "assert": clause compilation
READ_OPS = ["readback", "readbackc"]                    # class "read": the reader
TEXT_OPS = ["readparen", "readstr", "readatom"]         # class "read", shape `none` (text only)

OP_CLASS = {}
for _o in ASSERT_OPS:
    OP_CLASS[_o] = "assert"
for _o in READ_OPS + TEXT_OPS:
    OP_CLASS[_o] = "read"


def op_class(op):
    return OP_CLASS.get(op, "walk")


def ops_for(shape):
    if shape == "none":
        return list(TEXT_OPS)
    if shape in ARITH_SHAPES:
        return ARITH_OPS + READ_OPS
    ops = list(GENERIC_OPS)
    if shape in LIST_SHAPES:
        ops += LIST_OPS
    if shape == "alist":
        ops += ALIST_OPS
    ops += READ_OPS
    ops += ["assert", "asserta"]
    if shape == "conj":
        ops += ["assertbody"]
    return ops


def esc(s):
    return s.replace("\\", "\\\\").replace("\n", "\\n").replace("\t", "\\t")


HELPER_LINE_FMT = "L\t%s\tuser\t" + esc(HELPER)


# ---------------------------------------------------------------------------- running one group

def run_group(gid, qlines, timeout_ms, hard_s):
    """Runs the Q lines of one group in a private harness process (helper loaded first); when the
    process dies, records the killing line and restarts on the remaining lines.
    Returns dict id -> (result, stderr_tail_of_dead_process_or_None)."""
    env = dict(os.environ)
    env["SV_TIMEOUT_MS"] = str(timeout_ms)
    res = {}
    rest = list(qlines)
    restarts = 0
    deadline = time.time() + hard_s
    while rest:
        left = deadline - time.time()
        if left <= 1:
            for l in rest:
                res[core.line_id(l)] = ("hard-timeout", None)
            break
        data = "\n".join([HELPER_LINE_FMT % ("h%s_%d" % (gid, restarts))] + rest) + "\n"
        try:
            p = subprocess.run([core.HARNESS_BIN], input=data, stdout=subprocess.PIPE, stderr=subprocess.PIPE,
                               text=True, env=env, timeout=left, errors="replace")
            out, rc, err = p.stdout, p.returncode, p.stderr
        except subprocess.TimeoutExpired as e:
            out = e.stdout.decode("utf-8", "replace") if isinstance(e.stdout, bytes) else (e.stdout or "")
            rc, err = -999, "hard timeout"
        got = {}
        for l in out.split("\n"):
            if l:
                i, _, r = l.partition("\t")
                got[i] = r
        idx = None
        for k, l in enumerate(rest):
            i = core.line_id(l)
            if i in got:
                res[i] = (got[i], None)
            else:
                idx = k
                break
        if idx is None:
            break
        if rc == -999:
            res[core.line_id(rest[idx])] = ("hard-timeout", None)
            for l in rest[idx + 1:]:
                res[core.line_id(l)] = ("hard-timeout", None)
            break
        res[core.line_id(rest[idx])] = ("abort(rc=%d)" % rc, err[-300:])
        rest = rest[idx + 1:]
        restarts += 1
        if restarts > 40:
            for l in rest:
                res[core.line_id(l)] = ("skipped", None)
            break
    return res


# ---------------------------------------------------------------------------- expectations

def parse_model(s):
    d = {}
    for tok in s.split():
        k, _, v = tok.partition("=")
        d[k] = v
    return d


def expected_nodes(shape, n):
    if shape in ("list", "alist", "vlist", "rbin", "lbin", "nest", "plus", "conj"):
        return 2 * n + 1
    if shape in ("rdeep", "vdeep", "curly", "minus"):
        return n + 1
    if shape == "wide":
        return 255 * max(1, n // 255) + 1
    return None


def digits_total(n):
    """total number of decimal digits of 1..n"""
    t, k, p = 0, 1, 1
    while p * 10 <= n:
        t += k * 9 * p
        p *= 10
        k += 1
    return t + k * (n - p + 1)


def expected_value(op, shape, n, m):
    """Returns ('ok', value|None) / ('failed',) / None (no expectation). m = parsed model line."""
    nvars = int(m.get("vars", "0")) if m else None
    ground = (nvars == 0) if nvars is not None else None
    if op in ("eq", "unify", "uoc", "subsumes", "acyclic", "copy", "findall", "throw", "bb", "copyattr",
              "nth", "phrase", "maplist", "readback", "readbackc", "assert", "asserta", "assertbody",
              "readparen", "build"):
        return ("ok", "0")
    if op == "compare":
        return ("ok", "'%s'" % m["cmpcopy"]) if m else None
    if op == "ground":
        return ("ok", "0") if ground else ("failed",)
    if op in ("tvars", "numbervars"):
        return ("ok", str(nvars)) if nvars is not None else None
    if op in ("length", "reverse", "foldl", "keysort", "atomchars", "atomcodes", "readstr", "readatom"):
        return ("ok", str(n))
    if op == "append":
        return ("ok", str(n + 1))
    if op == "sort":
        return ("ok", str(n if shape in ("list", "vlist") else 1))
    if op == "univ":
        return ("ok", {"rdeep": "2", "vdeep": "2", "curly": "2", "minus": "2", "wide": "256"}.get(shape, "3"))
    if op == "functor":
        return ("ok", {"rdeep": "1", "vdeep": "1", "curly": "1", "minus": "1", "wide": "255"}.get(shape, "2"))
    if op == "is":
        return ("ok", str(n + 1) if shape in ("sum", "rsum") else ("1" if n % 2 == 0 else "-1"))
    if op == "write":
        f = {"rdeep": 3 * n + 1, "rbin": 5 * n + 1, "lbin": 5 * n + 1, "nest": 2 * n + 2, "curly": 2 * n + 1,
             "plus": 2 * n + 1, "conj": 5 * n + 4, "alist": 2 * n + 1, "sum": 2 * n + 1,
             "list": digits_total(n) + n + 1}.get(shape)
        return ("ok", str(f)) if f is not None else ("ok", None)
    if op in ("writec", "writenv", "writemd"):
        return ("ok", None)
    return None


def classify(res, err):
    """-> (kind, text): kind in ok / crash / panic / slow / other"""
    if res.startswith("abort("):
        if err and "overflowed its stack" in err:
            return "crash", "stack-overflow"
        if err and "memory allocation" in err:
            return "crash", "alloc-abort"
        return "crash", "abort"
    if res.startswith("panic("):
        return "panic", "panic"
    if res in ("timeout", "hard-timeout", "skipped", "missing"):
        return "slow", res
    return "ok", res


def answer_value(res):
    """canonical first answer -> ('ok', v) / ('failed',) / ('ex', term) / ('other', text)"""
    a = res.split(" ;; ")[0]
    if a.startswith("{R='ok'(") and a.endswith(")}"):
        return ("ok", a[len("{R='ok'("):-2])
    if a == "{R='failed'}":
        return ("failed",)
    if a.startswith("{R='ex'("):
        return ("ex", a[len("{R='ex'("):-2])
    return ("other", a)


# ---------------------------------------------------------------------------- plan

def jitter(rng, n):
    """sizes differ a little between seeds (same order of magnitude)"""
    return n + rng.randrange(0, max(1, n // 50))


def plan(ctx):
    rng = ctx["rng"]
    tier = ctx["tier"]
    groups = []   # (shape, n, [ops], timeout_ms, hard_s)
    all_shapes = LIST_SHAPES + DEEP_SHAPES + ARITH_SHAPES + ["none"]
    if tier == "quick":
        for sh in all_shapes:
            # lowest rung: only the crash-prone classes (everything else is exercised from 10^4 up)
            sel = [o for o in ops_for(sh) if op_class(o) != "walk"]
            if sel:
                groups.append((sh, jitter(rng, 1000), sel, 60000, 120))
        for sh in all_shapes:
            ops = ops_for(sh)
            if sh not in ("list", "vlist", "rdeep", "lbin", "nest", "conj", "sum", "none"):
                # secondary shapes: crash-prone classes + a seed-dependent half of the walkers
                walk = [o for o in ops if op_class(o) == "walk"]
                keep = set(rng.sample(walk, (len(walk) + 1) // 2))
                ops = [o for o in ops if op_class(o) != "walk" or o in keep]
            groups.append((sh, jitter(rng, 10000), ops, 60000, 150))
        # 10^5: every shape, the crash-prone classes plus a seed-dependent sample of the walkers
        for sh in all_shapes:
            ops = ops_for(sh)
            walk = [o for o in ops if op_class(o) == "walk" and not o.startswith("write")]
            pick = rng.sample(walk, min(4, len(walk))) if walk else []
            crashy = [o for o in ops if op_class(o) != "walk"]
            if sh in ("list", "rdeep", "lbin"):
                sel = ops            # every operation on the three canonical shapes
            elif sh in ("nest", "sum", "conj", "none", "vlist"):
                sel = pick + ["write"] * (1 if "write" in ops else 0) + crashy
            else:
                sel = pick
            groups.append((sh, jitter(rng, 100000), sel, 80000, 200))
    else:
        for base in (1000, 10000, 100000):
            for sh in all_shapes:
                groups.append((sh, jitter(rng, base), ops_for(sh), 100000, 400))
        for sh in all_shapes:
            ops = [o for o in ops_for(sh) if o not in ("writemd",)]
            # one group per few ops at 10^6 to keep the per-process time bounded
            for i in range(0, len(ops), 6):
                groups.append((sh, jitter(rng, 1000000), ops[i:i + 6], 150000, 600))
    return groups


def build_lines(groups):
    out = []
    for gi, (sh, n, ops, tmo, hard) in enumerate(groups):
        items = []
        for oi, op in enumerate(ops):
            lid = "g%d_%d" % (gi, oi)
            items.append({"id": lid, "shape": sh, "n": n, "op": op,
                          "line": "Q\t%s\t1\trun(%s,%d,%s,R)." % (lid, sh, n, op)})
        out.append({"gid": gi, "shape": sh, "n": n, "items": items, "timeout_ms": tmo, "hard_s": hard})
    return out


def model_lines(groups):
    seen, lines = {}, []
    for g in groups:
        sh = MODEL_SHAPE.get(g["shape"], g["shape"])
        if sh == "none":
            continue
        n = g["n"]
        dn = max(1, n // 255) if sh == "wide" else n
        key = (sh, dn)
        if key not in seen:
            seen[key] = "m%d" % len(seen)
            lines.append("T\t%s\t%s\t%d" % (seen[key], sh, dn))
        g["mid"] = seen[key]
    return lines


# ---------------------------------------------------------------------------- run

def run(ctx):
    t0 = time.time()
    replay = diff.replay_case(ctx)
    if replay is not None:
        groups = []
        for c in replay:
            groups.append((c["shape"], int(c["n"]), [c["op"]], 150000, 400))
    else:
        groups = plan(ctx)
        for c in diff.load_corpus("C34"):
            if ctx["tier"] == "quick" and int(c["n"]) > 100000:
                continue
            groups.insert(0, (c["shape"], int(c["n"]), [c["op"]], 100000, 300))
    G = build_lines(groups)
    mlines = model_lines(G)
    model = core.run_model(mlines, prop="C34") if mlines else {}
    jobs = 6 if ctx["tier"] == "quick" else 5
    if os.environ.get("SV_JOBS"):
        jobs = max(1, min(jobs, int(os.environ["SV_JOBS"])))
    # big groups first so that the pool drains evenly
    order = sorted(G, key=lambda g: -g["n"] * len(g["items"]))
    results = {}

    def work(g):
        return run_group(g["gid"], [it["line"] for it in g["items"]], g["timeout_ms"], g["hard_s"])

    with ThreadPoolExecutor(max_workers=jobs) as ex:
        for r in ex.map(work, order):
            results.update(r)
    # retry slow lines once, sequentially, each in its own process
    retried = 0
    for g in G:
        for it in g["items"]:
            r, e = results.get(it["id"], ("missing", None))
            if classify(r, e)[0] == "slow" and retried < (6 if ctx["tier"] == "quick" else 12):
                retried += 1
                rr = run_group("r%d" % retried, [it["line"]], g["timeout_ms"] * 2, g["hard_s"])
                results[it["id"]] = rr.get(it["id"], ("missing", None))
    core.log("[C34] %d groups, %d lines, %.1fs, %d retried" % (
        len(G), sum(len(g["items"]) for g in G), time.time() - t0, retried))

    findings = []
    evaluations = agree = disagreements = 0
    distinct = set()
    outcome_hist, per_class, slow = {}, {}, []
    crashes = {}      # (op, shape) -> (n, outcome, res, item)
    size_hist = {}
    samples = []
    model_checked = 0
    for g in G:
        m = parse_model(model[g["mid"]]) if g.get("mid") and g["mid"] in model else None
        if m is not None:
            # the model's own node count against the closed formula (sanity of the shape encoding)
            sh_m = MODEL_SHAPE.get(g["shape"], g["shape"])
            en = expected_nodes(sh_m, g["n"])
            model_checked += 1
            if m.get("done") != "true" or m.get("cmpself") != "=" or (en is not None and str(en) != m.get("nodes")):
                findings.append(core.Finding("disagreement", {"op": "model", "shape": g["shape"], "what": "model-selfcheck"},
                                             "model line %r does not match the closed formulas (nodes=%s)" % (m, en),
                                             {"shape": g["shape"], "n": g["n"], "op": "build"}))
        for it in g["items"]:
            r, e = results.get(it["id"], ("missing", None))
            evaluations += 1
            kind, text = classify(r, e)
            dec = len(str(it["n"])) - 1
            size_hist["1e%d" % dec] = size_hist.get("1e%d" % dec, 0) + 1
            cls = op_class(it["op"])
            per_class[cls] = per_class.get(cls, 0) + 1
            case = {"shape": it["shape"], "n": it["n"], "op": it["op"]}
            if kind in ("crash", "panic"):
                outcome_hist[text] = outcome_hist.get(text, 0) + 1
                key = (it["op"], it["shape"])
                if key not in crashes or crashes[key][0] > it["n"]:
                    crashes[key] = (it["n"], text, r, case, e)
                continue
            if kind == "slow":
                outcome_hist["slow"] = outcome_hist.get("slow", 0) + 1
                slow.append("%s/%s/%d" % (it["op"], it["shape"], it["n"]))
                continue
            v = answer_value(r)
            outcome_hist[v[0]] = outcome_hist.get(v[0], 0) + 1
            if it["n"] >= 1000:
                distinct.add((it["op"], it["shape"], dec))
            if len(samples) < 6 and it["n"] >= 10000:
                samples.append({"goal": "run(%s,%d,%s,R)" % (it["shape"], it["n"], it["op"]), "impl": r[:80]})
            if v[0] == "ex" and "resource_error" in v[1]:
                agree += 1      # allowed by the statement
                continue
            exp = expected_value(it["op"], it["shape"], it["n"], m)
            if exp is None:
                agree += 1
                continue
            okk = (v[0] == exp[0]) and (len(exp) < 2 or exp[1] is None or (len(v) > 1 and v[1] == exp[1]))
            if okk:
                agree += 1
            else:
                disagreements += 1
                findings.append(core.Finding(
                    "disagreement", {"op": it["op"], "shape": it["shape"], "what": "value"},
                    "run(%s,%d,%s,R): implementation %s, expected %r (model %r)" % (
                        it["shape"], it["n"], it["op"], r[:200], exp, m), case))
    # the ladder is ascending per (op, shape): report the smallest crashing size
    by_class = {}
    for (op, sh), (n, text, r, case, e) in sorted(crashes.items(), key=lambda kv: (op_class(kv[0][0]), kv[1][0])):
        cls = op_class(op)
        by_class.setdefault(cls, []).append("%s/%s@%d" % (op, sh, n))
        findings.append(core.Finding(
            "violation", {"class": cls, "op": op, "shape": sh, "outcome": text},
            "run(%s,%d,%s,R) killed the process: %s (%s); smallest size on the ladder that crashes = %d; stderr: %s" % (
                sh, n, op, r, text, n, (e or "").strip().replace("\n", " / ")[-160:]), case))
    return {
        "evaluations": evaluations,
        "distinct_nontrivial": len(distinct),
        "rule": "one evaluation = one operation on one shape at one size (>= 10^3 nodes), in a harness process shared only by the operations of the same (shape,size) group and restarted after every death; distinct = distinct (operation, shape, order of magnitude); sizes are jittered by the seed (+0..2 %) and the 10^5 rung of the quick tier samples the walker operations by the seed",
        "samples": samples,
        "traces_validated_against_impl": agree,
        "disagreements_checked": disagreements,
        "model_lines_checked": model_checked,
        "outcomes": outcome_hist,
        "per_class": per_class,
        "size_histogram": size_hist,
        "slow_not_judged": slow[:40],
        "crashes_smallest_size": by_class,
        "retried_after_timeout": retried,
        "exhaustive": False,
        "findings": findings,
    }
