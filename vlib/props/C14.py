"""C14 — Sorting builtins and collection libraries match their models.

One abstract *item* = one call of sort/2, keysort/2, a library(ordsets) / library(assoc) /
library(lists) / library(pairs) predicate (or, for assoc, a whole history of updates on one
association list). From an item we produce
  * the Prolog query for the implementation (harness; always `findall(R0, Goal, Rs)` so that the only
    binding printed is `Rs`, the list of all solutions),
  * the line for the Lean model driver (drv_C14: the proved specification of sort/keysort, the
    clause-by-clause transcriptions of ordsets.pl and assoc.pl, functional lists/pairs), and
  * an independent Python computation (`ref`): Python's own stable sort with a Python
    implementation of the standard order, Python sets for ordsets, a Python association list +
    an AVL-invariant checker for assoc, Python list operations.
The run compares the three exactly (all results are ground terms printed in the harness' canonical
syntax; nothing needs canonicalising).
"""
import functools
import struct
import time

from .. import core, diff

LEVEL = "proof"
TRUSTED_BASE = [
    "vlib/props/C14.py renders one abstract item both as Prolog text and as the line of drv_C14 (terms in the harness' canonical syntax), and computes the reference value independently (Python sort / sets / dict / list operations with a Python implementation of the standard order)",
    "Rust's slice::sort_by / sort_unstable_by and Vec::dedup_by are not mirrored: the model is the proved specification (unique result), the correspondence run ties them",
    "lists.pl / pairs.pl predicates are modelled by functional versions (not clause-by-clause); ordsets.pl and assoc.pl are transcribed clause by clause by hand",
    "Model/Order.lean (C13) is the standard order used to instantiate the generic theorems",
]
ASSUMPTIONS = [
    "terms in order-sensitive arguments are ground and free of -0.0/NaN and of rationals (then `==` is identity, so 'same set of elements' is literal); variables only occur as fresh output arguments and as list tails / elements for the error cases",
    "ordset arguments are strictly ascending duplicate-free lists (the library's documented precondition); assoc arguments are trees produced by the library itself from `t`",
    "list lengths <= 40 (quick) / 120 (thorough); assoc histories <= 60 / 200 operations",
    "lists:length/2, nth0/nth1, append/3, select/3, permutation/2 are exercised only in modes that terminate",
]

IMPL_ENV = {"SV_TIMEOUT_MS": "60000"}
USE = "use_module(library(lists)),use_module(library(ordsets)),use_module(library(assoc)),use_module(library(pairs))."


def transient(r):
    return r == "missing" or r.startswith("timeout") or r.startswith("abort") or r.startswith("skipped") or r.startswith("panic")


# ------------------------------------------------------------------ terms
# ('i', n) ('f', float) ('a', name) ('c', name, (args…)) ('v', name); lists are '.'/2 chains.

NIL = ("a", "[]")
FLOAT_TEXT = {0.0: "0.0", 1.0: "1.0", -1.5: "-1.5", 2.5: "2.5", 1.0e10: "1.0e10", -3.0: "-3.0", 0.5: "0.5",
              1.0e-5: "1.0e-5", 3.0: "3.0", -1.0e300: "-1.0e300", 1.0e300: "1.0e300", 100.0: "100.0"}
FLOATS = sorted(FLOAT_TEXT)


def A(name):
    return ("a", name)


def I(n):
    return ("i", n)


def C(name, *args):
    return ("c", name, tuple(args))


def mklist(items, tail=NIL):
    t = tail
    for x in reversed(items):
        t = ("c", ".", (x, t))
    return t


def mkstr(s):
    return mklist([A(ch) for ch in s])


def pair(k, v):
    return ("c", "-", (k, v))


def unlist(t):
    """(items, tail)"""
    items = []
    while t[0] == "c" and t[1] == "." and len(t[2]) == 2:
        items.append(t[2][0])
        t = t[2][1]
    return items, t


def is_char(t):
    return t[0] == "a" and len(t[1]) == 1


def esc(s, q):
    out = []
    for ch in s:
        if ch == "\\":
            out.append("\\\\")
        elif ch == q:
            out.append("\\" + ch)
        elif ord(ch) < 0x20 or ord(ch) == 0x7f:
            out.append("\\x%x\\" % ord(ch))
        else:
            out.append(ch)
    return "".join(out)


def fbits(x):
    return struct.unpack(">Q", struct.pack(">d", x))[0]


def show(t, prolog=False, strings=True):
    """canonical syntax of the harness; prolog=True: the same as Prolog text (floats in decimal,
    partial lists as [a|T])."""
    k = t[0]
    if k == "i":
        return str(t[1])
    if k == "f":
        return FLOAT_TEXT[t[1]] if prolog else "f(%016x)" % fbits(t[1])
    if k == "v":
        return t[1]
    if k == "a":
        if t[1] == "[]":
            return "[]"
        return "'" + esc(t[1], "'") + "'"
    name, args = t[1], t[2]
    if name == "." and len(args) == 2:
        items, tail = unlist(t)
        if tail == NIL:
            if strings and all(is_char(x) for x in items):
                return '"' + esc("".join(x[1] for x in items), '"') + '"'
            return "[" + ",".join(show(x, prolog, strings) for x in items) + "]"
        if prolog:
            return "[" + ",".join(show(x, prolog, strings) for x in items) + "|" + show(tail, prolog, strings) + "]"
        return "'.'(" + show(args[0], prolog, strings) + "," + show(args[1], prolog, strings) + ")"
    return "'" + esc(name, "'") + "'(" + ",".join(show(x, prolog, strings) for x in args) + ")"


def pl(t, rng=None):
    """Prolog text; with an rng, char lists are sometimes written as explicit lists instead of "…"."""
    if rng is not None and rng.random() < 0.3:
        return show(t, True, False)
    return show(t, True, True)


class ParseError(Exception):
    pass


def parse(s):
    """parser for the canonical syntax (results of the implementation / of the model)."""
    pos = [0]

    def peek():
        return s[pos[0]] if pos[0] < len(s) else ""

    def quoted(q):
        out = []
        pos[0] += 1
        while True:
            if pos[0] >= len(s):
                raise ParseError(s)
            ch = s[pos[0]]
            if ch == "\\":
                nx = s[pos[0] + 1]
                if nx == "x":
                    j = s.index("\\", pos[0] + 2)
                    out.append(chr(int(s[pos[0] + 2:j], 16)))
                    pos[0] = j + 1
                else:
                    out.append(nx)
                    pos[0] += 2
            elif ch == q:
                pos[0] += 1
                return "".join(out)
            else:
                out.append(ch)
                pos[0] += 1

    def args(close):
        out = []
        while True:
            out.append(term())
            ch = peek()
            pos[0] += 1
            if ch == ",":
                continue
            if ch == close:
                return out
            raise ParseError(s)

    def term():
        ch = peek()
        if ch == "'":
            name = quoted("'")
            if peek() == "(":
                pos[0] += 1
                return ("c", name, tuple(args(")")))
            return ("a", name)
        if ch == '"':
            return mkstr(quoted('"'))
        if ch == "[":
            if s[pos[0] + 1] == "]":
                pos[0] += 2
                return NIL
            pos[0] += 1
            return mklist(args("]"))
        if s.startswith("f(", pos[0]):
            j = s.index(")", pos[0])
            bits = int(s[pos[0] + 2:j], 16)
            pos[0] = j + 1
            return ("f", struct.unpack(">d", struct.pack(">Q", bits))[0])
        if ch.isdigit() or ch == "-":
            j = pos[0] + 1
            while j < len(s) and s[j].isdigit():
                j += 1
            v = int(s[pos[0]:j])
            pos[0] = j
            return ("i", v)
        if ch.isalpha() or ch == "_":
            j = pos[0]
            while j < len(s) and (s[j].isalnum() or s[j] == "_"):
                j += 1
            v = s[pos[0]:j]
            pos[0] = j
            return ("v", v)
        raise ParseError(s)

    t = term()
    if pos[0] != len(s):
        raise ParseError(s)
    return t


# ------------------------------------------------------------------ the standard order, in Python

CAT = {"v": 0, "f": 1, "i": 2, "a": 3, "c": 4}


def cmp3(a, b):
    return (a > b) - (a < b)


def cmp_terms(a, b):
    ca, cb = CAT[a[0]], CAT[b[0]]
    if ca != cb:
        return cmp3(ca, cb)
    if a[0] in ("f", "i", "v"):
        return cmp3(a[1], b[1])
    if a[0] == "a":
        return cmp3(a[1], b[1])          # Python compares str by code point
    if len(a[2]) != len(b[2]):
        return cmp3(len(a[2]), len(b[2]))
    if a[1] != b[1]:
        return cmp3(a[1], b[1])
    for x, y in zip(a[2], b[2]):
        c = cmp_terms(x, y)
        if c:
            return c
    return 0


KEY = functools.cmp_to_key(cmp_terms)


def ref_sort(items):
    out = []
    for x in sorted(items, key=KEY):
        if not out or cmp_terms(out[-1], x) != 0:
            out.append(x)
    return out


def ref_keysort(pairs_):
    return sorted(pairs_, key=lambda p: KEY(p[2][0]))


# ------------------------------------------------------------------ random terms

ATOMS = ["a", "b", "c", "ab", "abc", "abd", "b1", "foo", "bar", "B", "Zed", "hello world", "[]", "{}", "é", "éa",
         "z", "-", "+", "aa"]
MULTI_ATOMS = [x for x in ATOMS if len(x) != 1]
BIG = [2 ** 62, 2 ** 63, 2 ** 64, 2 ** 64 + 1, -2 ** 63, -2 ** 63 - 1, 10 ** 30, -10 ** 30, 2 ** 70]


def rand_atom(rng, chars=True):
    return A(rng.choice(ATOMS if chars else MULTI_ATOMS))


def bad_pstr(t):
    """a partial string whose tail is an atom other than [] cannot be printed back by the library
    interface the harness uses (Term::from_heapcell panics; notes/findings-misc.md) — not generated."""
    if t[0] != "c":
        return False
    if t[1] == "." and len(t[2]) == 2 and is_char(t[2][0]) and t[2][1][0] == "a" and t[2][1] != NIL:
        return True
    return any(bad_pstr(x) for x in t[2])


def rand_term(rng, depth=2, chars=True):
    while True:
        t = rand_term0(rng, depth, chars)
        if not bad_pstr(t):
            return t


def rand_term0(rng, depth=2, chars=True):
    r = rng.random()
    if depth <= 0 or r < 0.55:
        r2 = rng.random()
        if r2 < 0.35:
            return I(rng.randint(-3, 4))
        if r2 < 0.45:
            return I(rng.choice(BIG))
        if r2 < 0.60:
            return ("f", rng.choice(FLOATS))
        return rand_atom(rng, chars)
    if r < 0.65:
        return mkstr(rng.choice(["ab", "abc", "b", "a", "ba", "é"]))
    if r < 0.78:
        return mklist([rand_term(rng, depth - 1) for _ in range(rng.randint(1, 3))])
    name = rng.choice(["f", "g", "f", "-", "foo", "."])
    n = 2 if name in ("-", ".") else rng.randint(1, 3)
    return C(name, *[rand_term(rng, depth - 1) for _ in range(n)])


def rand_list(rng, maxlen, dup=0.35, chars=True):
    n = rng.randint(0, maxlen)
    pool = [rand_term(rng, 2, chars) for _ in range(max(1, int(n * (1 - dup)) + 1))]
    return [rng.choice(pool) for _ in range(n)]


def avoid_pstr_prefix(rng, items):
    """a list literal that starts with a run of one-char atoms and continues with something else is
    stored as a partial string + list cells (finding C14-1); keep that shape to its own stream."""
    if items and is_char(items[0]) and not all(is_char(x) for x in items):
        items = items[:]
        for i, x in enumerate(items):
            if not is_char(x):
                items[0], items[i] = items[i], items[0]
                break
    return items


def has_pstr_prefix(items):
    return bool(items) and is_char(items[0]) and not all(is_char(x) for x in items)


def rand_set(rng, maxlen):
    return ref_sort(rand_list(rng, maxlen, 0.2, chars=False))


# ------------------------------------------------------------------ items

def q_bool(goal):
    return "findall(R0,(%s->R0=true;R0=false),Rs)." % goal


def q_one(goal):
    return "findall(R0,(%s),Rs)." % goal


def wrap_model(m, multi=False):
    """model output -> expected implementation output (`Rs` is the list of all solutions; a list of
    one-char atoms is printed as a string, so the text is produced by `show`)."""
    if m == "fail":
        return "{Rs=[]}"
    if multi:
        return "{Rs=%s}" % m
    if m in ("true", "false"):
        m = "'%s'" % m
    try:
        return "{Rs=%s}" % show(mklist([parse(m)]))
    except Exception:
        return "{Rs=[%s]}" % m


def sort_item(rng, pred, items, tail, spat, sarg=None):
    """pred: sort|keysort; items+tail: first argument; spat: pattern of the second argument."""
    l = mklist(items, tail)
    ref = None
    if tail == NIL:
        if pred == "sort":
            ref = ref_sort(items)
        elif all(x[0] == "c" and x[1] == "-" and len(x[2]) == 2 for x in items):
            ref = ref_keysort(items)
    if spat == "var":
        s = ("v", "S")
    elif spat == "same":
        s = mklist(ref if ref is not None else [])
    elif spat == "plist":
        s = mklist([("v", "X%d" % i) for i in range(sarg)], ("v", "T"))
    elif spat == "vlist":
        s = mklist([("v", "X%d" % i) for i in range(sarg)])
    else:                       # other / error: a given term
        s = sarg
    goal = "catch((%s(%s,%s)->R0=ok(%s);R0=fail),error(E,_),R0=err(E))" % (pred, pl(l, rng), pl(s), pl(s))
    return {"fam": pred, "op": pred + ":" + spat, "prolog": q_one(goal), "mline": [pred, show(l), show(s)],
            "ref": None if ref is None else show(mklist(ref)), "spat": spat, "sarg": sarg if isinstance(sarg, int) else None,
            "s": show(s), "input": show(l), "pstr_prefix": has_pstr_prefix(items) or (bool(items) and tail != NIL and is_char(items[0])),
            "nontrivial": len(items) >= 2}


def expected_sort(it, m):
    """expected R0 of the implementation from the model's outcome and the pattern of S."""
    if m == "inst":
        return "'err'('instantiation_error')"
    if m.startswith("type "):
        _, kind, culprit = m.split(" ", 2)
        return "'err'('type_error'('%s',%s))" % (kind, culprit)
    if not m.startswith("ok "):
        return "?" + m
    tt = m[3:]
    items, _ = unlist(parse(tt))
    spat = it["spat"]
    if spat == "var":
        return "'ok'(%s)" % tt
    if spat in ("same", "other"):
        return "'ok'(%s)" % tt if it["s"] == tt else "'fail'"
    if spat == "plist":
        return "'ok'(%s)" % tt if len(items) >= it["sarg"] else "'fail'"
    if spat == "vlist":
        return "'ok'(%s)" % tt if len(items) == it["sarg"] else "'fail'"
    return "'fail'"


def oset_item(rng, op, a, b=None, e=None):
    sa = mklist(a)
    if op in ("union", "int", "subtract", "symdiff", "union4", "int4", "subset", "intersect", "disjoint"):
        sb = mklist(b)
        pa, pb = pl(sa, rng), pl(sb, rng)
        sA, sB = set(a), set(b)
        srt = lambda s: mklist(sorted(s, key=KEY))
        if op == "union":
            g, ref = "ord_union(%s,%s,R0)" % (pa, pb), show(srt(sA | sB))
        elif op == "int":
            g, ref = "ord_intersection(%s,%s,R0)" % (pa, pb), show(srt(sA & sB))
        elif op == "subtract":
            g, ref = "ord_subtract(%s,%s,R0)" % (pa, pb), show(srt(sA - sB))
        elif op == "symdiff":
            g, ref = "ord_symdiff(%s,%s,R0)" % (pa, pb), show(srt(sA ^ sB))
        elif op == "union4":
            g, ref = "ord_union(%s,%s,U,N),R0=U-N" % (pa, pb), show(pair(srt(sA | sB), srt(sB - sA)))
        elif op == "int4":
            g, ref = "ord_intersection(%s,%s,U,N),R0=U-N" % (pa, pb), show(pair(srt(sA & sB), srt(sB - sA)))
        elif op == "subset":
            g, ref = "ord_subset(%s,%s)" % (pa, pb), "true" if sA <= sB else "false"
        elif op == "intersect":
            g, ref = "ord_intersect(%s,%s)" % (pa, pb), "true" if sA & sB else "false"
        else:
            g, ref = "ord_disjoint(%s,%s)" % (pa, pb), "false" if sA & sB else "true"
        q = q_bool(g) if op in ("subset", "intersect", "disjoint") else q_one(g)
        return {"fam": "ordsets", "op": op, "prolog": q, "mline": ["oset", op, show(sa), show(sb)], "ref": ref,
                "nontrivial": bool(a) and bool(b)}
    if op in ("add", "del"):
        pa, pe = pl(sa, rng), pl(e)
        if op == "add":
            g, ref = "ord_add_element(%s,%s,R0)" % (pa, pe), show(mklist(sorted(set(a) | {e}, key=KEY)))
        else:
            g, ref = "ord_del_element(%s,%s,R0)" % (pa, pe), show(mklist(sorted(set(a) - {e}, key=KEY)))
        return {"fam": "ordsets", "op": op, "prolog": q_one(g), "mline": ["oset", op, show(sa), show(e)], "ref": ref,
                "nontrivial": bool(a)}
    if op == "memberchk":
        return {"fam": "ordsets", "op": op, "prolog": q_bool("ord_memberchk(%s,%s)" % (pl(e), pl(sa, rng))),
                "mline": ["oset", op, show(e), show(sa)], "ref": "true" if e in set(a) else "false", "nontrivial": bool(a)}
    if op == "unionall":
        sets = a
        sl = mklist([mklist(s) for s in sets])
        u = set()
        for s in sets:
            u |= set(s)
        return {"fam": "ordsets", "op": op, "prolog": q_one("ord_union(%s,R0)" % pl(sl, rng)),
                "mline": ["oset", op, show(sl, strings=True)], "ref": show(mklist(sorted(u, key=KEY))), "nontrivial": len(sets) >= 2}
    if op == "is_ordset":
        ok = all(cmp_terms(x, y) < 0 for x, y in zip(a, a[1:]))
        return {"fam": "ordsets", "op": op, "prolog": q_bool("is_ordset(%s)" % pl(sa, rng)),
                "mline": ["oset", op, show(sa)], "ref": "true" if ok else "false", "nontrivial": len(a) >= 2}
    if op == "list_to_ord_set":
        return {"fam": "ordsets", "op": op, "prolog": q_one("list_to_ord_set(%s,R0)" % pl(sa, rng)),
                "mline": ["oset", op, show(sa)], "ref": show(mklist(ref_sort(a))), "nontrivial": len(a) >= 2}
    raise ValueError(op)


def assoc_item(rng, hist):
    """hist: list of (cmd, key|None, val|None)."""
    goals = ["A0=t"]
    cur = 0
    rs = []
    mline = ["assoc"]
    for j, (cmd, k, v) in enumerate(hist):
        r = "Q%d" % j
        rs.append(r)
        a = "A%d" % cur
        if cmd == "put":
            n = "A%d" % (cur + 1)
            goals.append("(put_assoc(%s,%s,%s,%s)->%s=%s;%s=no,%s=%s)" % (pl(k), a, pl(v), n, r, n, r, n, a))
            cur += 1
            mline += ["put", show(k), show(v)]
        elif cmd == "get":
            goals.append("(get_assoc(%s,%s,V%d)->%s=yes(V%d);%s=no)" % (pl(k), a, j, r, j, r))
            mline += ["get", show(k)]
        elif cmd == "del":
            n = "A%d" % (cur + 1)
            goals.append("(del_assoc(%s,%s,V%d,%s)->%s=yes(V%d,%s);%s=no,%s=%s)" % (pl(k), a, j, n, r, j, n, r, n, a))
            cur += 1
            mline += ["del", show(k)]
        elif cmd in ("delmin", "delmax"):
            n = "A%d" % (cur + 1)
            p = "del_min_assoc" if cmd == "delmin" else "del_max_assoc"
            goals.append("(%s(%s,K%d,V%d,%s)->%s=yes(K%d,V%d,%s);%s=no,%s=%s)" % (p, a, j, j, n, r, j, j, n, r, n, a))
            cur += 1
            mline += [cmd]
        elif cmd in ("min", "max"):
            goals.append("(%s_assoc(%s,K%d,V%d)->%s=yes(K%d,V%d);%s=no)" % (cmd, a, j, j, r, j, j, r))
            mline += [cmd]
        elif cmd == "list":
            goals.append("assoc_to_list(%s,%s)" % (a, r))
            mline += [cmd]
        elif cmd == "keys":
            goals.append("assoc_to_keys(%s,%s)" % (a, r))
            mline += [cmd]
        elif cmd == "values":
            goals.append("assoc_to_values(%s,%s)" % (a, r))
            mline += [cmd]
        elif cmd == "gen":
            goals.append("findall(GK-GV,gen_assoc(GK,%s,GV),%s)" % (a, r))
            mline += ["list"]
    goals.append("R0=[%s]" % ",".join(rs))
    return {"fam": "assoc", "op": "history", "prolog": q_one(",".join(goals)), "mline": mline, "ref": None,
            "hist": [[c, None if k is None else show(k), None if v is None else show(v)] for c, k, v in hist],
            "nontrivial": sum(1 for c, _, _ in hist if c in ("put", "del")) >= 3}


def l2a_item(rng, pairs_, ordered=False):
    l = mklist([pair(k, v) for k, v in pairs_])
    pred = "ord_list_to_assoc" if ordered else "list_to_assoc"
    goal = "catch((%s(%s,A),assoc_to_list(A,L),R0=ok(A,L)),error(E,_),(E=domain_error(D,_)->R0=domain_error;R0=err(E)))" % (pred, pl(l, rng))
    return {"fam": "assoc", "op": pred, "prolog": q_one(goal), "mline": ["ol2a" if ordered else "l2a", show(l)], "ref": None,
            "pairs": [[show(k), show(v)] for k, v in pairs_], "nontrivial": len(pairs_) >= 3}


def list_item(rng, op, a=None, b=None, n=None, e=None):
    la = mklist(a) if a is not None and op != "append2" else None
    pa = pl(la, rng) if la is not None else None
    multi = False
    if op == "append":
        lb = mklist(b)
        g, ml, ref = "append(%s,%s,R0)" % (pa, pl(lb, rng)), ["append", show(la), show(lb)], show(mklist(a + b))
    elif op == "append_splits":
        g, ml, multi = "append(X,Y,%s),R0=X-Y" % pa, ["append_splits", show(la)], True
        ref = show(mklist([pair(mklist(a[:i]), mklist(a[i:])) for i in range(len(a) + 1)]))
    elif op == "append_prefix":      # append(+,-,+)
        lb = mklist(b)
        g, ml = "append(%s,R0,%s)" % (pl(lb, rng), pa), None
        ref = show(mklist(a[len(b):])) if a[:len(b)] == b else "fail"
    elif op == "append_suffix":      # append(-,+,+)
        lb = mklist(b)
        g, ml = "append(R0,%s,%s)" % (pl(lb, rng), pa), None
        ref = show(mklist(a[:len(a) - len(b)])) if len(b) <= len(a) and a[len(a) - len(b):] == b else "fail"
    elif op == "append2":
        ll = mklist([mklist(x) for x in a])
        g, ml, ref = "append(%s,R0)" % pl(ll, rng), ["append2", show(ll)], show(mklist([y for x in a for y in x]))
    elif op == "reverse":
        g, ml, ref = "reverse(%s,R0)" % pa, ["reverse", show(la)], show(mklist(a[::-1]))
    elif op == "reverse_back":       # reverse(-,+)
        g, ml, ref = "reverse(R0,%s)" % pa, ["reverse", show(la)], show(mklist(a[::-1]))
    elif op == "length":
        g, ml, ref = "length(%s,R0)" % pa, ["length", show(la)], str(len(a))
    elif op == "length_gen":         # length(-,+): a list of n fresh variables
        g, ml = "length(L,%d),R0=L" % n, None
        ref = show(mklist([("v", "_G%d" % i) for i in range(n)]))
    elif op in ("nth0", "nth1"):
        g, ml = "%s(%d,%s,R0)" % (op, n, pa), [op, str(n), show(la)]
        i = n if op == "nth0" else n - 1
        ref = show(a[i]) if 0 <= i < len(a) else "fail"
    elif op in ("nth0_all", "nth1_all"):
        p = op[:4]
        g, ml, multi = "%s(N,%s,E),R0=N-E" % (p, pa), [op, show(la)], True
        off = 0 if p == "nth0" else 1
        ref = show(mklist([pair(I(i + off), x) for i, x in enumerate(a)]))
    elif op == "nth0_rest":
        g, ml = "nth0(%d,%s,E,Rest),R0=E-Rest" % (n, pa), [op, str(n), show(la)]
        ref = show(pair(a[n], mklist(a[:n] + a[n + 1:]))) if n < len(a) else "fail"
    elif op == "select_all":
        g, ml, multi = "select(X,%s,Ys),R0=X-Ys" % pa, [op, show(la)], True
        ref = show(mklist([pair(x, mklist(a[:i] + a[i + 1:])) for i, x in enumerate(a)]))
    elif op == "member_all":
        g, ml, multi, ref = "member(R0,%s)" % pa, [op, show(la)], True, show(la)
    elif op == "memberchk":
        g, ml = None, ["memberchk", show(e), show(la)]
        ref = "true" if e in a else "false"
        return {"fam": "lists", "op": op, "prolog": q_bool("memberchk(%s,%s)" % (pl(e), pa)), "mline": ["lst"] + ml, "ref": ref,
                "multi": False, "nontrivial": len(a) >= 2}
    elif op == "perms":
        import itertools
        g, ml, multi = "permutation(%s,R0)" % pa, [op, show(la)], True
        # select-based order = lexicographic order on positions
        ref = show(mklist([mklist([a[i] for i in p]) for p in itertools.permutations(range(len(a)))]))
    elif op == "sum_list":
        g, ml, ref = "sum_list(%s,R0)" % pa, [op, show(la)], str(sum(x[1] for x in a))
    elif op == "list_max":
        g, ml, ref = "list_max(%s,R0)" % pa, [op, show(la)], str(max(x[1] for x in a)) if a else "fail"
    elif op == "list_min":
        g, ml, ref = "list_min(%s,R0)" % pa, [op, show(la)], str(min(x[1] for x in a)) if a else "fail"
    elif op == "list_to_set":
        seen, out = set(), []
        for x in a:
            if x not in seen:
                seen.add(x)
                out.append(x)
        g, ml, ref = "list_to_set(%s,R0)" % pa, [op, show(la)], show(mklist(out))
    elif op == "pairs_kv":
        g, ml = "pairs_keys_values(%s,K,V),R0=K-V" % pa, [op, show(la)]
        ref = show(pair(mklist([p[2][0] for p in a]), mklist([p[2][1] for p in a])))
    elif op == "pairs_keys":
        g, ml, ref = "pairs_keys(%s,R0)" % pa, None, show(mklist([p[2][0] for p in a]))
    elif op == "pairs_values":
        g, ml, ref = "pairs_values(%s,R0)" % pa, None, show(mklist([p[2][1] for p in a]))
    elif op == "kv_pairs":
        lb = mklist(b)
        g, ml = "pairs_keys_values(R0,%s,%s)" % (pa, pl(lb, rng)), [op, show(la), show(lb)]
        ref = show(mklist([pair(x, y) for x, y in zip(a, b)])) if len(a) == len(b) else "fail"
    elif op == "group_pairs":
        out = []
        for p in a:
            k, v = p[2]
            if out and out[-1][0] == k:
                out[-1][1].append(v)
            else:
                out.append((k, [v]))
        g, ml, ref = "group_pairs_by_key(%s,R0)" % pa, [op, show(la)], show(mklist([pair(k, mklist(vs)) for k, vs in out]))
    else:
        raise ValueError(op)
    return {"fam": "lists", "op": op, "prolog": q_one(g), "mline": None if ml is None else ["lst"] + ml, "ref": ref, "multi": multi,
            "nontrivial": (a is not None and len(a) >= 2) or op == "length_gen"}


# ------------------------------------------------------------------ generators

def gen_sort_items(rng, n, maxlen):
    out = []
    for i in range(n):
        pred = "sort" if rng.random() < 0.5 else "keysort"
        r = rng.random()
        if pred == "sort":
            items = rand_list(rng, maxlen)
        else:
            ks = rand_list(rng, maxlen, 0.5)
            items = [pair(k, I(j)) if rng.random() < 0.7 else pair(k, rand_term(rng, 1)) for j, k in enumerate(ks)]
        tail = NIL
        if r < 0.06:
            pass            # the partial-string-prefix stream (finding C14-1)
            if pred == "sort" and items and not has_pstr_prefix(items):
                items = [A(rng.choice("abc"))] * rng.randint(1, 2) + items + [I(7)]
        else:
            items = avoid_pstr_prefix(rng, items)
        r = rng.random()
        if r < 0.05:
            tail = ("v", "T")
        elif r < 0.10:
            tail = rng.choice([A("foo"), I(3), C("f", A("x")), ("f", 1.0)])
        if pred == "keysort" and rng.random() < 0.08 and items:
            j = rng.randrange(len(items))
            items = items[:]
            items[j] = rng.choice([("v", "E"), A("foo"), I(1), C("f", I(1), I(2)), C("-", I(1)), mklist([I(1)]), C("-", I(1), I(2), I(3))])
        if tail != NIL and items and is_char(items[0]):
            items = [I(0)] + items
        r = rng.random()
        if r < 0.55:
            it = sort_item(rng, pred, items, tail, "var")
        elif r < 0.65:
            it = sort_item(rng, pred, items, tail, "same")
        elif r < 0.72:
            other = rand_list(rng, 4, chars=False)
            if pred == "keysort":
                other = [pair(x, I(0)) for x in other]
            it = sort_item(rng, pred, items, tail, "other", mklist(other))
        elif r < 0.80:
            it = sort_item(rng, pred, items, tail, "plist", rng.randint(0, 4))
        elif r < 0.88:
            it = sort_item(rng, pred, items, tail, "vlist", rng.randint(0, 6))
        else:
            bad = rng.choice([A("foo"), I(5), C("f", A("x")), mklist([A("aa")], A("bb")), ("f", 2.5)])
            if pred == "keysort" and rng.random() < 0.5:
                bad = mklist([pair(("v", "K0"), ("v", "V0")), rng.choice([A("foo"), I(1), C("g", I(1)), mklist([I(1), I(2)])]), ("v", "Z")])
            it = sort_item(rng, pred, items, tail, "error", bad)
        out.append(it)
    return out


def gen_oset_items(rng, n, maxlen):
    out = []
    ops2 = ["union", "int", "subtract", "symdiff", "union4", "int4", "subset", "intersect", "disjoint"]
    for i in range(n):
        a = rand_set(rng, maxlen)
        r = rng.random()
        if r < 0.6:
            op = rng.choice(ops2)
            r2 = rng.random()
            if r2 < 0.25 and a:
                b = ref_sort(rng.sample(a, rng.randint(0, len(a))))
                if rng.random() < 0.5:
                    a, b = b, a
            elif r2 < 0.5:
                b = ref_sort(rand_list(rng, maxlen, 0.2, chars=False) + (rng.sample(a, min(len(a), 3)) if a else []))
            else:
                b = rand_set(rng, maxlen)
            out.append(oset_item(rng, op, a, b))
        elif r < 0.85:
            op = rng.choice(["add", "del", "memberchk", "memberchk"])
            e = rng.choice(a) if a and rng.random() < 0.5 else rand_term(rng, 2, chars=False)
            out.append(oset_item(rng, op, a, e=e))
        elif r < 0.92:
            sets = [rand_set(rng, 6) for _ in range(rng.randint(0, 7))]
            out.append(oset_item(rng, "unionall", sets))
        elif r < 0.96:
            l = rand_list(rng, 6, chars=False) if rng.random() < 0.5 else a
            out.append(oset_item(rng, "is_ordset", l))
        else:
            out.append(oset_item(rng, "list_to_ord_set", avoid_pstr_prefix(rng, rand_list(rng, maxlen))))
    return out


def rand_keys(rng, n):
    keys = []
    while len(keys) < n:
        k = rand_term(rng, 1, chars=False) if rng.random() < 0.5 else I(rng.randint(0, 3 * n))
        if k not in keys:
            keys.append(k)
    return keys


def gen_assoc_items(rng, n, maxops):
    out = []
    for i in range(n):
        nk = rng.randint(1, 24)
        keys = rand_keys(rng, nk)
        mode = rng.random()
        if mode < 0.2:
            keys.sort(key=KEY)
        elif mode < 0.3:
            keys.sort(key=KEY, reverse=True)
        hist = []
        nops = rng.randint(3, maxops)
        phase_del = False
        ki = 0
        for j in range(nops):
            r = rng.random()
            if j > nops * 0.6 and rng.random() < 0.3:
                phase_del = True
            if (not phase_del and r < 0.55) or (phase_del and r < 0.15):
                if mode < 0.3 and ki < len(keys):
                    k = keys[ki]
                    ki += 1
                else:
                    k = rng.choice(keys)
                hist.append(("put", k, rng.choice([I(j), A("v%d" % j), mklist([I(j)])])))
            elif r < 0.70:
                hist.append(("del", rng.choice(keys), None))
            elif r < 0.80:
                hist.append(("get", rng.choice(keys), None))
            elif r < 0.84:
                hist.append((rng.choice(["delmin", "delmax"]), None, None))
            elif r < 0.90:
                hist.append((rng.choice(["min", "max"]), None, None))
            else:
                hist.append((rng.choice(["list", "keys", "values", "gen"]), None, None))
        hist.append(("list", None, None))
        out.append(assoc_item(rng, hist))
        if rng.random() < 0.6:
            ps = [(k, I(j)) for j, k in enumerate(keys[:rng.randint(0, nk)])]
            r = rng.random()
            if r < 0.2 and ps:
                ps.append((ps[0][0], I(99)))      # duplicate key -> domain_error
                rng.shuffle(ps)
            if rng.random() < 0.3:
                ps2 = sorted(ps, key=lambda p: KEY(p[0]))
                if rng.random() < 0.3 and len(ps2) >= 2:
                    ps2[0], ps2[1] = ps2[1], ps2[0]
                out.append(l2a_item(rng, ps2, ordered=True))
            else:
                out.append(l2a_item(rng, ps))
    return out


def gen_list_items(rng, n, maxlen):
    out = []
    ops = ["append", "append_splits", "append_prefix", "append_suffix", "append2", "reverse", "reverse_back", "length", "length_gen",
           "nth0", "nth1", "nth0_all", "nth1_all", "nth0_rest", "select_all", "member_all", "memberchk", "perms", "sum_list",
           "list_max", "list_min", "list_to_set", "pairs_kv", "pairs_keys", "pairs_values", "kv_pairs", "group_pairs"]
    for i in range(n):
        op = rng.choice(ops)
        a = rand_list(rng, maxlen)
        if op in ("append",):
            out.append(list_item(rng, op, a, rand_list(rng, 6)))
        elif op == "append_prefix":
            b = a[:rng.randint(0, len(a))] if rng.random() < 0.7 else rand_list(rng, 3)
            out.append(list_item(rng, op, a, b))
        elif op == "append_suffix":
            b = a[rng.randint(0, len(a)):] if rng.random() < 0.7 else rand_list(rng, 3)
            out.append(list_item(rng, op, a, b))
        elif op == "append2":
            out.append(list_item(rng, op, [rand_list(rng, 4) for _ in range(rng.randint(0, 5))]))
        elif op == "length_gen":
            out.append(list_item(rng, op, n=rng.randint(0, 12)))
        elif op in ("nth0", "nth1", "nth0_rest"):
            out.append(list_item(rng, op, a, n=rng.randint(0, len(a) + 2)))
        elif op == "memberchk":
            e = rng.choice(a) if a and rng.random() < 0.6 else rand_term(rng, 2)
            out.append(list_item(rng, op, a, e=e))
        elif op == "perms":
            out.append(list_item(rng, op, rand_list(rng, 4)))
        elif op in ("append_splits", "select_all", "nth0_all", "nth1_all"):
            out.append(list_item(rng, op, rand_list(rng, min(maxlen, 12))))
        elif op in ("sum_list", "list_max", "list_min"):
            ints = [I(rng.choice(BIG) if rng.random() < 0.2 else rng.randint(-50, 50)) for _ in range(rng.randint(0, 10))]
            out.append(list_item(rng, op, ints))
        elif op in ("pairs_kv", "pairs_keys", "pairs_values", "group_pairs"):
            ks = rand_list(rng, maxlen, 0.7)
            if op == "group_pairs":
                ks.sort(key=KEY)
                if rng.random() < 0.3:
                    rng.shuffle(ks)
            out.append(list_item(rng, op, [pair(k, I(j)) for j, k in enumerate(ks)]))
        elif op == "kv_pairs":
            b = rand_list(rng, maxlen)
            if rng.random() < 0.8:
                m = min(len(a), len(b))
                a, b = a[:m], b[:m]
            out.append(list_item(rng, op, a, b))
        else:
            out.append(list_item(rng, op, a))
    return out


# ------------------------------------------------------------------ cases

def make_case(cid, items):
    impl = ["Q\t%s_u\t1\t%s" % (cid, USE)]
    model = []
    for j, it in enumerate(items):
        it["id"] = "%s_%d" % (cid, j)
        impl.append("Q\t%s\t2\t%s" % (it["id"], it["prolog"]))
        if it.get("mline"):
            model.append("\t".join([it["mline"][0], it["id"]] + it["mline"][1:]))
    return {"id": cid, "impl": impl, "model": model, "items": items}


def chunks(items, n):
    return [items[i:i + n] for i in range(0, len(items), n)]


# ------------------------------------------------------------------ assoc reference (Python)

def tree_info(t):
    """(inorder pairs, height, ok) of a canonical assoc tree term; ok = balance tags right."""
    if t == A("t"):
        return [], 0, True
    if t[0] != "c" or t[1] != "t" or len(t[2]) != 5:
        return [], 0, False
    k, v, b, l, r = t[2]
    li, lh, lok = tree_info(l)
    ri, rh, rok = tree_info(r)
    tag = {0: "-", 1: "<", -1: ">"}.get(lh - rh)
    ok = lok and rok and tag is not None and b == A(tag)
    return li + [(k, v)] + ri, max(lh, rh) + 1, ok


def check_tree(t, expected_items):
    items, _, ok = tree_info(t)
    if not ok:
        return "tree is not AVL-balanced / balance tag wrong"
    if items != expected_items:
        return "in-order contents %s differ from the finite map %s" % (
            show(mklist([pair(k, v) for k, v in items])), show(mklist([pair(k, v) for k, v in expected_items])))
    return None


def assoc_reference(it, result_text):
    """checks one printed history result (implementation or model) against a Python finite map.
    returns None or a description of the first deviation."""
    try:
        rs, _ = unlist(parse(result_text))
    except Exception as e:
        return "unparsable result %r" % (result_text[:80],)
    hist = it["hist"]
    if len(rs) != len(hist):
        return "wrong number of results"
    m = []          # sorted list of (key, value)

    def find(k):
        for i, (kk, _) in enumerate(m):
            if kk == k:
                return i
        return None
    for j, ((cmd, ks, vs), r) in enumerate(zip(hist, rs)):
        k = parse(ks) if ks is not None else None
        v = parse(vs) if vs is not None else None
        where = "step %d (%s %s)" % (j, cmd, ks or "")
        if cmd == "put":
            i = find(k)
            if i is None:
                m.append((k, v))
                m.sort(key=lambda p: KEY(p[0]))
            else:
                m[i] = (m[i][0], v)
            e = check_tree(r, m)
            if e:
                return where + ": " + e
        elif cmd == "get":
            i = find(k)
            exp = A("no") if i is None else C("yes", m[i][1])
            if r != exp:
                return where + ": got %s expected %s" % (show(r), show(exp))
        elif cmd in ("del", "delmin", "delmax"):
            if cmd == "del":
                i = find(k)
            else:
                i = None if not m else (0 if cmd == "delmin" else len(m) - 1)
            if i is None:
                if r != A("no"):
                    return where + ": got %s expected no" % show(r)
            else:
                kk, vv = m.pop(i)
                if r[0] != "c" or r[1] != "yes":
                    return where + ": got %s expected yes(…)" % show(r)
                args = r[2]
                if cmd == "del":
                    if len(args) != 2 or args[0] != vv:
                        return where + ": deleted value %s expected %s" % (show(r), show(vv))
                else:
                    if len(args) != 3 or args[0] != kk or args[1] != vv:
                        return where + ": got %s expected key %s value %s" % (show(r), show(kk), show(vv))
                e = check_tree(args[-1], m)
                if e:
                    return where + ": " + e
        elif cmd in ("min", "max"):
            exp = A("no") if not m else C("yes", *(m[0] if cmd == "min" else m[-1]))
            if r != exp:
                return where + ": got %s expected %s" % (show(r), show(exp))
        elif cmd in ("list", "gen"):
            exp = mklist([pair(a, b) for a, b in m])
            if r != exp:
                return where + ": got %s expected %s" % (show(r), show(exp))
        elif cmd == "keys":
            if r != mklist([a for a, _ in m]):
                return where + ": keys %s" % show(r)
        elif cmd == "values":
            if r != mklist([b for _, b in m]):
                return where + ": values %s" % show(r)
    return None


def l2a_reference(it, result_text):
    ps = [(parse(k), parse(v)) for k, v in it["pairs"]]
    ordered = it["op"] == "ord_list_to_assoc"
    keys = [k for k, _ in ps]
    strictly = all(cmp_terms(x, y) < 0 for x, y in zip(keys, keys[1:]))
    dup = len(set(keys)) != len(keys)
    if (ordered and not strictly and ps) or (not ordered and dup):
        return None if result_text == "'domain_error'" else "expected a domain_error, got %s" % result_text[:80]
    try:
        r = parse(result_text)
    except Exception:
        return "unparsable result %r" % (result_text[:80],)
    if r[0] != "c" or r[1] != "ok":
        return "expected ok(Assoc,List), got %s" % result_text[:80]
    exp = sorted(ps, key=lambda p: KEY(p[0]))
    e = check_tree(r[2][0], exp)
    if e:
        return e
    if r[2][1] != mklist([pair(k, v) for k, v in exp]):
        return "assoc_to_list differs from the sorted pairs"
    return None


# ------------------------------------------------------------------ judge

def impl_rs(text):
    """`{Rs=[x]}` -> ('one', 'x'); errors/other -> ('raw', text)."""
    return text


def classify_known(it, iv):
    """recognise the shapes of the genuine defects so that they get a stable signature."""
    if it["fam"] in ("sort", "keysort") and it.get("pstr_prefix") and "'type_error'('list'," in iv:
        return "list-with-partial-string-prefix-rejected"
    if it["fam"] == "ordsets" and it["op"] == "list_to_ord_set" and "'type_error'('list'," in iv:
        return "list-with-partial-string-prefix-rejected"
    if it["fam"] == "keysort" and "'type_error'('pair'," in iv:
        return "keysort-pair-type-error-culprit"
    if it["op"] == "ord_list_to_assoc" and iv == "{Rs=['err'('existence_error'('procedure','/'('domain_error',2)))]}":
        return "ord_list_to_assoc-calls-undefined-domain_error/2"
    return None


def judge_item(it, impl, model):
    lid = it["id"]
    iv = impl.get(lid, "missing")
    mv = model.get(lid) if it.get("mline") else None
    fam, op = it["fam"], it["op"]
    sig = {"family": fam, "op": op}

    def fnd(kind, extra, detail):
        s = dict(sig)
        if "defect" in extra:
            s = {"family": "keysort" if extra["defect"].startswith("keysort") else ("assoc" if fam == "assoc" else "sort")}
        s.update(extra)
        c = {"items": [strip_item(it)], "expected": extra.get("expected"), "observed": iv, "model_out": mv, "query": it["prolog"]}
        return core.Finding(kind, s, detail, c)

    ref = it.get("ref")
    if it.get("mline") and (mv is None or mv in ("parse-error", "bad-op")):
        return "disagreement", fnd("disagreement", {"model": str(mv)}, "the model driver could not process the item")
    # 1. model against the independent Python computation
    if fam in ("sort", "keysort"):
        if ref is not None and mv is not None and mv.startswith("ok ") and mv[3:] != ref:
            return "disagreement", fnd("disagreement", {"input": it["input"], "model": mv, "ref": ref},
                                       "Lean model of %s differs from Python's sort with the Python standard order" % fam)
        expected = "{Rs=[%s]}" % expected_sort(it, mv)
    elif fam == "assoc":
        if op == "history":
            e = assoc_reference(it, mv)
            if e:
                return "disagreement", fnd("disagreement", {"model_vs_map": e}, "Lean assoc model deviates from the finite map: " + e)
            expected = wrap_model(mv)
        else:
            expected = None
            if mv == "domain_error":
                expected = "{Rs=['domain_error']}"
    else:
        if ref is not None and mv is not None and mv != ref:
            return "disagreement", fnd("disagreement", {"input": it["prolog"], "model": mv, "ref": ref},
                                       "Lean model differs from the Python reference computation")
        expected = wrap_model(mv if mv is not None else ref, it.get("multi", False))
    # 2. implementation against the oracle
    if fam == "assoc":
        if op == "history":
            inner = iv[5:-2] if iv.startswith("{Rs=[") and iv.endswith("]}") else None
            e = "implementation answered %s" % iv[:120] if inner is None else assoc_reference(it, inner)
            if e:
                return "violation", fnd("violation", {"deviation": e.split(":")[0], "hist_len": str(len(it["hist"]))},
                                        "library(assoc) deviates from the finite-map semantics: " + e)
            if iv != expected:
                return "disagreement", fnd("disagreement", {"expected": expected},
                                           "assoc trees of implementation and transcription differ in shape (both are valid AVL trees with the right contents)")
            return "agree", None
        inner = iv[5:-2] if iv.startswith("{Rs=[") and iv.endswith("]}") else iv
        e = l2a_reference(it, inner)
        if e:
            known = classify_known(it, iv)
            if known:
                return "known-shape", fnd("violation", {"defect": known}, "%s: %s" % (op, e))
            return "violation", fnd("violation", {"deviation": e[:60]}, "%s: %s" % (op, e))
        if mv == "domain_error":
            return ("agree", None) if iv == expected else ("disagreement", fnd("disagreement", {"expected": expected}, "model says domain_error"))
        # compare the tree shape with the transcription
        try:
            tr = parse(inner)[2][0]
            if show(tr) != mv:
                return "disagreement", fnd("disagreement", {"expected": mv}, "list_to_assoc builds a different (valid) tree than the transcription")
        except Exception:
            pass
        return "agree", None
    if iv == expected:
        return "agree", None
    known = classify_known(it, iv)
    if known:
        return "known-shape", fnd("violation", {"defect": known},
                                  "%s: the implementation answers %s, specified %s" % (fam, iv[:200], expected[:200]))
    return "violation", fnd("violation", {"input": it["prolog"], "impl": iv[:300], "expected": expected[:300]},
                            "%s/%s result differs from its specification" % (fam, op))


def strip_item(it):
    return {k: v for k, v in it.items() if k != "id"}


def run(ctx):
    rng, tier = ctx["rng"], ctx["tier"]
    rep = diff.replay_case(ctx)
    if rep is not None:
        cases = [make_case("rp%d" % i, [dict(x) for x in c["items"]]) for i, c in enumerate(rep)]
    else:
        cases = [make_case("k%d" % i, [dict(x) for x in c["items"]]) for i, c in enumerate(diff.load_corpus("C14"))]
        if tier == "quick":
            ns, no, na, nl, ml, mo = 1500, 1500, 200, 1500, 40, 60
        else:
            ns, no, na, nl, ml, mo = 20000, 20000, 2000, 20000, 120, 200
        items = gen_sort_items(rng, ns, ml) + gen_oset_items(rng, no, min(ml, 30)) + gen_list_items(rng, nl, min(ml, 30))
        rng.shuffle(items)
        for i, ch in enumerate(chunks(items, 50)):
            cases.append(make_case("c%d" % i, ch))
        for i, ch in enumerate(chunks(gen_assoc_items(rng, na, mo), 6)):
            cases.append(make_case("a%d" % i, ch))
    t0 = time.time()
    impl, model = diff.run_cases(cases, impl_env=IMPL_ENV)
    flaky = [it for c in cases for it in c["items"] if transient(impl.get(it["id"], "missing"))]
    retried = len(flaky)
    if flaky:
        rc = [make_case("y%d" % i, [dict(strip_item(it))]) for i, it in enumerate(flaky[:2000])]
        impl2, _ = diff.run_cases([{"id": c["id"], "impl": c["impl"]} for c in rc], impl_env=IMPL_ENV, parallel=False)
        for it, c in zip(flaky, rc):
            impl[it["id"]] = impl2.get(c["items"][0]["id"], "missing")
    core.log("[C14] correspondence run: %d cases, %.1fs, %d retried" % (len(cases), time.time() - t0, retried))
    findings, agree, total = [], 0, 0
    distinct = set()
    per_op, known_shape, err_kinds = {}, {}, {}
    for c in cases:
        for it in c["items"]:
            total += 1
            key = it["fam"] + ":" + it["op"]
            per_op[key] = per_op.get(key, 0) + 1
            if it.get("nontrivial"):
                distinct.add(it["prolog"])
            mv = model.get(it["id"], "")
            if it["fam"] in ("sort", "keysort") and mv and not mv.startswith("ok "):
                ek = " ".join(mv.split(" ")[:2])
                err_kinds[ek] = err_kinds.get(ek, 0) + 1
            status, f = judge_item(it, impl, model)
            if rep is not None:
                print("replay %s\n  impl  = %s\n  model = %s\n  ref   = %s\n  -> %s" % (
                    it["prolog"], impl.get(it["id"]), model.get(it["id"]), it.get("ref"), status))
            if status == "agree":
                agree += 1
            else:
                if status == "known-shape":
                    d = f.sig.get("defect")
                    known_shape[d] = known_shape.get(d, 0) + 1
                findings.append(f)
    samples = []
    for c in cases[:2] + cases[-2:]:
        samples += [it["prolog"][:300] for it in c["items"][:2]]
    return {
        "evaluations": total,
        "distinct_nontrivial": len(distinct),
        "rule": "random ground terms of mixed type (small/big integers, floats, atoms incl. non-ASCII and prefix-related names, strings, "
                "lists, compounds; many duplicates); sort/keysort with 5 patterns of the second argument and an error stream (partial "
                "lists, non-lists, variable / non-pair elements); ordsets on random strictly sorted lists (subsets, overlapping, disjoint); "
                "assoc histories of put/del/get/del_min/del_max/min/max/list on <=24 mixed keys (ascending, descending and random "
                "insertion orders), list_to_assoc/ord_list_to_assoc incl. duplicate keys; lists/pairs predicates in every terminating "
                "mode. non-trivial = list length >= 2 (assoc: >= 3 updates); distinct by query text",
        "samples": samples,
        "traces_validated_against_impl": agree,
        "disagreements_checked": total - agree,
        "retried_after_timeout": retried,
        "per_operation": per_op,
        "error_kinds_hit": err_kinds,
        "known_defect_instances": known_shape,
        "findings": findings,
    }
