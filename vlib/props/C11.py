"""C11 — Backtracking restores exactly the pre-goal state.

One abstract *case* = a clause
    t_<id>(O0, O2) :- T = f(H1..Hn), sv(S1), .., <pre-goal steps>, obs(Vars, Keys, O0),
                      <wrapper>( <goal steps>, obs(Vars, Keys, O1), ev(O1), … ), obs(Vars, Keys, O2).
over old heap variables `Hi` (cells of a structure), old stack variables `Sj` (permanent variables
first occurring as a goal argument), attributed variables (library(atts), attribute a/1), and
global variables (bb_put / bb_b_put / bb_get).  Goal steps: bind an unbound variable to a constant
or to a structure with a new variable, alias two unbound variables, put / change / delete an
attribute, bb_b_put, bb_put, bb_get, and nested scopes that undo their bindings
(\\+ \\+ G;  (G, fail ; true);  ((G, fail) -> true ; true);  findall(x, (G, fail), _);
 catch((G, throw(b)), b, true);  (G1, fail ; G2, fail ; true))  or keep them (once((G ; true))).
The *same* steps are rendered as operations of the machine model `Scryer.Trail` (Model/Trail.lean,
driver drv_C11): cell allocations in program order, bind/relink with the model's conditional
trailing, pushChoice / retry / trust / cut for the scopes.  Observations `obs` on both sides:
per tracked variable unbound / attributed(value) / bound(value), which variables are identical,
bb_get of every key — before the goal, inside it (logged with ev/1) and after its failure.
Compared: implementation observation == model observation at every observation point (so in
particular O2 == O0 up to the keys assigned by bb_put/2, which Props/C11.lean proves for the model).
"""
import hashlib
import json
import re

from .. import core, diff
from . import C12 as T   # term helpers / parser of the harness' canonical syntax (same author, read-only use)

LEVEL = "proof"
TRUSTED_BASE = [
    "Scryer.Trail (Model/Trail.lean): hand-written mirror of MachineState::trail, Machine::unwind_trail, the choice point instructions, cut_body and the global-variable table; cell contents other than unbound / unbound-attributed are opaque; the attribute-list relinking entry is a value-trail entry",
    "vlib/props/C11.py renders one abstract step list both as Prolog text and as model operations (cell addresses = allocation order, which is all the trailing condition depends on); which of two aliased variables is bound to the other, and how many auxiliary cells a structure takes, are not observable and chosen by the renderer",
    "attributes are observed through get_atts/2 and identity through the variable names of one answer term; bb values through bb_get/2 (whose caching side effect is part of the model: Op.bbGet)",
    "where the real compiler puts a variable (heap or stack) is decided by the renderer's reading of the WAM allocation rules (argument of a structure = heap; permanent variable first occurring as a goal argument = stack); a wrong guess changes only which trailing condition (h < hb or h < b) is exercised, not the expected observation",
]
ASSUMPTIONS = [
    "library(atts) with verify_attributes/3 accepting every binding; no two attributed variables are unified with each other",
    "goals stay within the generated step language (no occurs-check situations, no cyclic terms)",
]

SUPPORT = (":- use_module(library(atts)).\n"
           ":- attribute a/1.\n"
           "verify_attributes(_,_,[]).\n"
           ":- dynamic(evl/1).\n"
           "ev(X) :- assertz(evl(X)).\n"
           "evs(L) :- findall(X, evl(X), L), retractall(evl(_)).\n"
           "sv(_).\n"
           "oa(X,A) :- ( var(X) -> ( get_atts(X, a(V)) -> A = a(V) ; A = n ) ; A = b ).\n"
           "oas([],[]).\n"
           "oas([X|Xs],[A|As]) :- oa(X,A), oas(Xs,As).\n"
           "obk([],[]).\n"
           "obk([K|Ks],[B|Bs]) :- ( bb_get(K,V) -> B = V ; B = none ), obk(Ks,Bs).\n"
           "obs(Vs,Ks,o(Vs,As,Bs)) :- oas(Vs,As), obk(Ks,Bs).\n")

STRUCT = 500
UNDO_SCOPES = ["nn", "dj", "ite", "fa", "ca", "retry"]


class Sim:
    """Generation-time bookkeeping: which variables are unbound / attributed, cell addresses, and the
    operation list for the model. (The expected observations come from the Lean driver, not from here.)"""

    def __init__(self, rng, cid):
        self.rng = rng
        self.cid = cid
        self.heap = []       # 'U' | 'A' | ('V', v)
        self.stack = []
        self.link = {}       # attributed cell address -> its attribute link cell address
        self.vars = {}       # name -> ('h'|'s', addr)
        self.order = []      # tracked variable names
        self.keys = []       # bb key names (atoms); model key = index + 1
        self.ops = []
        self.nobs = 0
        self.feat = set()
        self.newv = 0

    # -- cells
    def nv(self):
        self.heap.append('U')
        self.ops.append("nv")
        return len(self.heap) - 1

    def nc(self, v):
        self.heap.append(('V', v))
        self.ops.append("nc:%d" % v)
        return len(self.heap) - 1

    def na(self):
        self.heap.append('A')
        self.ops.append("na")
        return len(self.heap) - 1

    def ns(self):
        self.stack.append('U')
        self.ops.append("ns")
        return len(self.stack) - 1

    def cell(self, sp, a):
        return (self.heap if sp == 'h' else self.stack)[a]

    def deref(self, name):
        sp, a = self.vars[name]
        while True:
            c = self.cell(sp, a)
            if isinstance(c, tuple):
                v = c[1]
                if v >= 2000:
                    sp, a = 's', v - 2000
                elif v >= 1000:
                    sp, a = 'h', v - 1000
                else:
                    return ('B', v)
            else:
                return (c, sp, a)

    def set(self, sp, a, v):
        if sp == 'h':
            self.heap[a] = ('V', v)
            self.ops.append("b:%d:%d" % (a, v))
        else:
            self.stack[a] = ('V', v)
            self.ops.append("bs:%d:%d" % (a, v))

    def snapshot(self):
        return (list(self.heap), list(self.stack), dict(self.link))

    def restore(self, snap):
        self.heap, self.stack, self.link = list(snap[0]), list(snap[1]), dict(snap[2])

    def obs_token(self):
        return "obs:%s:%s:%s" % (",".join(str(i) for i in range(len(self.heap))),
                                 ",".join(str(i) for i in range(len(self.stack))),
                                 ",".join(str(i + 1) for i in range(len(self.keys))))

    # -- observation (Prolog text + model token). obs/3 calls bb_get on every key: Op.bbGet
    def obs(self, var):
        for i in range(len(self.keys)):
            self.ops.append("get:%d" % (i + 1))
        self.ops.append(self.obs_token())
        self.nobs += 1
        return "obs([%s],[%s],%s)" % (",".join(self.order), ",".join(self.keys), var)

    # -- steps. each returns Prolog text or None if not applicable
    def unbound(self):
        out = []
        for n in self.order:
            d = self.deref(n)
            if d[0] in ('U', 'A'):
                out.append((n, d))
        return out

    def step_bind(self):
        c = self.unbound()
        if not c:
            return None
        n, d = self.rng.choice(c)
        v = self.rng.randint(1, 9)
        self.set(d[1], d[2], v)
        self.feat.add("bind-attr" if d[0] == 'A' else ("bind-stack" if d[1] == 's' else "bind-heap"))
        return "%s = %d" % (n, v)

    def step_struct(self):
        c = self.unbound()
        if not c:
            return None
        n, d = self.rng.choice(c)
        self.nc(STRUCT)
        self.nv()
        self.set(d[1], d[2], STRUCT)
        self.newv += 1
        self.feat.add("bind-struct")
        return "%s = g(_N%d)" % (n, self.newv)

    def step_alias(self):
        c = self.unbound()
        roots = {}
        for n, d in c:
            roots.setdefault((d[1], d[2]), (n, d))
        rs = list(roots.values())
        if len(rs) < 2:
            return None
        (n1, d1), (n2, d2) = self.rng.sample(rs, 2)
        if d1[0] == 'A' and d2[0] == 'A':
            return None
        # which cell is bound: a plain variable to an attributed one; a stack variable to a heap one;
        # otherwise the younger to the older
        def older_first(x, y):
            (_, dx), (_, dy) = x, y
            if dx[0] != dy[0]:
                return (x, y) if dx[0] == 'A' else (y, x)
            if dx[1] != dy[1]:
                return (x, y) if dx[1] == 'h' else (y, x)
            return (x, y) if dx[2] < dy[2] else (y, x)
        (tn, td), (sn, sd) = older_first((n1, d1), (n2, d2))
        self.set(sd[1], sd[2], (1000 if td[1] == 'h' else 2000) + td[2])
        self.feat.add("alias")
        return "%s = %s" % (n1, n2)

    def step_patt(self):
        c = self.unbound()
        if not c:
            return None
        n, d = self.rng.choice(c)
        v = self.rng.randint(1, 9)
        if d[0] == 'U':
            a = self.na()
            l = self.nc(v)
            self.link[a] = l
            self.set(d[1], d[2], 1000 + a)
            self.feat.add("put_atts-new")
        else:
            l = self.link[d[2]]
            self.heap[l] = ('V', v)
            self.ops.append("rl:%d:%d" % (l, v))
            self.feat.add("put_atts-change")
        return "put_atts(%s, a(%d))" % (n, v)

    def step_datt(self):
        c = [(n, d) for n, d in self.unbound() if d[0] == 'A' and self.heap[self.link[d[2]]] != ('V', 0)]
        if not c:
            return None
        n, d = self.rng.choice(c)
        l = self.link[d[2]]
        self.heap[l] = ('V', 0)
        self.ops.append("rl:%d:0" % l)
        self.feat.add("put_atts-delete")
        return "put_atts(%s, -a(_))" % n

    def step_bb(self):
        if not self.keys:
            return None
        i = self.rng.randrange(len(self.keys))
        r = self.rng.random()
        v = self.rng.randint(1, 9)
        if r < 0.55:
            self.ops.append("bput:%d:%d" % (i + 1, v))
            self.feat.add("bb_b_put")
            return "bb_b_put(%s, %d)" % (self.keys[i], v)
        if r < 0.8:
            self.ops.append("put:%d:%d" % (i + 1, v))
            self.feat.add("bb_put")
            return "bb_put(%s, %d)" % (self.keys[i], v)
        self.ops.append("get:%d" % (i + 1))
        self.feat.add("bb_get")
        return "( bb_get(%s, _) -> true ; true )" % self.keys[i]

    def steps(self, n, depth, inner_obs=True):
        out = []
        for _ in range(n):
            r = self.rng.random()
            t = None
            if depth > 0 and r < 0.22:
                t = self.scope(depth - 1)
            elif r < 0.45:
                t = self.step_bind()
            elif r < 0.55:
                t = self.step_struct()
            elif r < 0.68:
                t = self.step_alias()
            elif r < 0.8:
                t = self.step_patt()
            elif r < 0.85:
                t = self.step_datt()
            else:
                t = self.step_bb()
            if t:
                out.append(t)
        if inner_obs and self.rng.random() < 0.7:
            self.newv += 1
            o = "_O%d" % self.newv
            out.append(self.obs(o))
            out.append("ev(%s)" % o)
        return out or ["true"]

    def scope(self, depth, kind=None):
        kind = kind or self.rng.choice(UNDO_SCOPES + ["once"])
        self.feat.add("scope-" + kind)
        snap = self.snapshot()
        n = self.rng.randint(1, 4)
        if kind == "nn":
            self.ops += ["push", "push"]
            body = ", ".join(self.steps(n, depth))
            self.ops += ["cut:1", "trust"]
            self.restore(snap)
            return "\\+ \\+ ( %s )" % body
        if kind == "once":
            self.ops += ["push"]
            body = ", ".join(self.steps(n, depth))
            self.ops += ["cut:1"]
            return "once(( %s ; true ))" % body
        if kind == "retry":
            self.ops += ["push"]
            b1 = ", ".join(self.steps(n, depth))
            self.ops += ["retry"]
            self.restore(snap)
            b2 = ", ".join(self.steps(self.rng.randint(1, 3), depth))
            self.ops += ["trust"]
            self.restore(snap)
            return "( %s, fail ; %s, fail ; true )" % (b1, b2)
        self.ops += ["push"]
        body = ", ".join(self.steps(n, depth))
        self.ops += ["trust"]
        self.restore(snap)
        if kind == "dj":
            return "( %s, fail ; true )" % body
        if kind == "ite":
            return "( ( %s, fail ) -> true ; true )" % body
        if kind == "fa":
            return "findall(x, ( %s, fail ), _)" % body
        return "catch(( %s, throw(b) ), b, true)" % body


def gen_case(rng, cid):
    s = Sim(rng, cid)
    nh = rng.randint(2, 5)
    nst = rng.choice([0, 0, 1, 2])
    nk = rng.choice([0, 1, 2])
    s.keys = ["k%s_%d" % (cid, i) for i in range(nk)]
    goals = []
    # old heap variables: the arguments of a structure (functor cell, then one cell per argument)
    s.nc(STRUCT)
    hs = []
    for i in range(nh):
        n = "H%d" % (i + 1)
        s.vars[n] = ('h', s.nv())
        hs.append(n)
    s.order += hs
    goals.append("_T = f(%s)" % ",".join(hs))
    for i in range(nst):
        n = "S%d" % (i + 1)
        s.vars[n] = ('s', s.ns())
        s.order.append(n)
        goals.append("sv(%s)" % n)
    # pre-goal steps (outside any choice point of this clause: the clause itself is the only one
    # of its predicate, the toplevel's choice points are older than everything here)
    goals += [g for g in s.steps(rng.randint(0, 3), 0, inner_obs=False) if g != "true"]
    goals.append(s.obs("O0"))
    kind = rng.choice(UNDO_SCOPES)
    goals.append(s.scope(rng.choice([0, 1, 2]), kind))
    goals.append(s.obs("O2"))
    text = "t_%s(O0, O2) :- %s.\n" % (cid, ",\n    ".join(goals))
    return {"id": cid, "text": text, "ops": " ".join(s.ops), "order": list(s.order), "vars": dict(s.vars),
            "keys": list(s.keys), "nobs": s.nobs, "feat": sorted(s.feat), "cls": "gen"}


def boundary_case(rng, cid):
    """hb boundary without anything between the variable's creation and the choice point."""
    s = Sim(rng, cid)
    s.keys = []
    s.nc(STRUCT)
    s.vars["H1"] = ('h', s.nv())
    s.vars["H2"] = ('h', s.nv())
    s.order = ["H1", "H2"]
    v = rng.randint(1, 9)
    w = rng.randint(1, 9)
    s.ops += ["push"]
    s.set('h', 2, v)
    s.set('h', 1, w)
    inner = s.obs("_O1")
    s.ops += ["trust"]
    s.heap[1] = 'U'
    s.heap[2] = 'U'
    o2 = s.obs("O2")
    text = ("t_%s(O0, O2) :- _T = f(H1,H2), ( H2 = %d, H1 = %d, %s, ev(_O1), fail ; true ), O0 = none, %s.\n"
            % (cid, v, w, inner, o2))
    return {"id": cid, "text": text, "ops": " ".join(s.ops), "order": ["H1", "H2"], "vars": dict(s.vars),
            "keys": [], "nobs": s.nobs, "feat": ["newest-old-variable-at-hb-1", "boundary"], "cls": "boundary",
            "skip_o0": True}


def bb_shadow_case(cid):
    """the shape of finding C11-1"""
    k = "k%s_0" % cid
    text = ("t_%s(O0, O2) :- bb_b_put(%s, 1), obs([],[%s],O0), ( bb_b_put(%s, 5), bb_put(%s, 2), fail ; true ), "
            "obs([],[%s],O2).\n" % (cid, k, k, k, k, k))
    ops = "bput:1:1 get:1 obs:::1 push bput:1:5 put:1:2 trust get:1 obs:::1"
    return {"id": cid, "text": text, "ops": ops, "order": [], "vars": {}, "keys": [k], "nobs": 2,
            "feat": ["bb_put-after-bb_b_put-in-failed-goal"], "cls": "bb-put-after-bb-b-put"}


def lines(c):
    cid = c["id"]
    text = SUPPORT + c["text"]
    c["impl"] = [
        "Q\t%s.u\t1\tuse_module(library(iso_ext)), use_module(library(atts))." % cid,
        "L\t%s.l\tuser\t%s" % (cid, text.replace("\\", "\\\\").replace("\n", "\\n")),
        "Q\t%s.z\t1\tevs(_)." % cid,
        "Q\t%s.r\t3\tt_%s(O0, O2)." % (cid, cid),
        "Q\t%s.e\t2\tevs(L)." % cid,
    ]
    c["model"] = ["run\t%s.m\t%s" % (cid, c["ops"])]
    return c


# ------------------------------------------------------------------ views

def model_obs(c, res):
    """driver result -> list of observations, each (atts, classes, values, bbs) in the judge's alphabet"""
    if res is None or res.startswith("bad"):
        return None
    body = res.split(" # ")[0]
    out = []
    for fld in body.split(" | "):
        hs, ss, ks = fld.split(";")
        heap = hs.split(",") if hs else []
        stack = ss.split(",") if ss else []
        bbs = ks.split(",") if ks else []

        def deref(sp, a):
            while True:
                cell = (heap if sp == 'h' else stack)[a]
                if cell.startswith("V"):
                    v = int(cell[1:])
                    if v >= 2000:
                        sp, a = 's', v - 2000
                    elif v >= 1000:
                        sp, a = 'h', v - 1000
                    else:
                        return ('B', v)
                else:
                    return (cell, sp, a)
        atts, ident, vals = [], [], []
        # the attribute link cell of an attributed variable is the cell right after it
        for n in c["order"]:
            sp, a = c["vars"][n]
            d = deref(sp, a)
            if d[0] == 'B':
                atts.append("b")
                ident.append(None)
                vals.append("g" if d[1] == STRUCT else str(d[1]))
            elif d[0] == 'U':
                atts.append("n")
                ident.append((d[1], d[2]))
                vals.append(None)
            else:
                l = heap[d[2] + 1]
                v = int(l[1:])
                atts.append("n" if v == 0 else "a(%d)" % v)
                ident.append((d[1], d[2]))
                vals.append(None)
        out.append({"atts": atts, "classes": classes(ident), "vals": vals,
                    "bbs": ["none" if b == "-" else b for b in bbs]})
    return out


def classes(ident):
    """partition of the indices of unbound variables by identity, canonical form"""
    seen = {}
    out = []
    for i, x in enumerate(ident):
        if x is None:
            out.append(-1)
        else:
            out.append(seen.setdefault(x, len(seen)))
    return out


def impl_obs_term(t):
    """'o'(Vs, As, Bs) parsed term -> observation"""
    if t[0] != 's' or t[1] != 'o' or len(t[2]) != 3:
        raise ValueError("not an observation")
    vs = T.unlist(t[2][0])
    as_ = T.unlist(t[2][1])
    bs = T.unlist(t[2][2])
    atts, ident, vals = [], [], []
    for v, a in zip(vs, as_):
        if a[0] == 'a':
            atts.append(a[1])
        else:
            atts.append("a(%d)" % a[2][0][1])
        if v[0] == 'v':
            ident.append(v[1])
            vals.append(None)
        else:
            ident.append(None)
            vals.append(str(v[1]) if v[0] == 'i' else "g")
    return {"atts": atts, "classes": classes(ident), "vals": vals,
            "bbs": [("none" if b == ('a', 'none') else str(b[1])) for b in bs]}


BAD = ("timeout", "panic(", "abort(", "skipped(", "error(", "exception(")


def impl_obs(c, run_res, ev_res):
    """-> list of observations in program order [O0, inner…, O2] or None (inconclusive) or {'raw':…}"""
    if run_res is None or ev_res is None:
        return None
    if any(b in run_res for b in ("timeout", "abort(", "skipped(")) or any(b in ev_res for b in ("timeout", "abort(", "skipped(")):
        return None
    try:
        its = T.split_items(run_res.strip())
        if its and its[-1] == "false":
            its = its[:-1]
        if len(its) != 1 or not its[0].startswith("{"):
            return {"raw": run_res}
        b = T.parse_bindings(its[0][1:-1])
        evs = ev_res.strip()
        if not (evs.startswith("{L=") and evs.endswith("}")):
            return {"raw": ev_res}
        inner = [impl_obs_term(e) for e in T.unlist(T.parse_canon(evs[3:-1]))]
        # O0 and O2 are parts of ONE answer: variable names are shared, so "the same variables are
        # still distinct / identical" is visible; each is normalised on its own here
        o0 = None if c.get("skip_o0") else impl_obs_term(b["O0"])
        o2 = impl_obs_term(b["O2"])
    except (ValueError, IndexError, KeyError, TypeError):
        return {"raw": run_res + " / " + ev_res}
    return ([o0] if o0 is not None else []) + inner + [o2]


def gen_cases(rng, tier, seed):
    n = 600 if tier == "quick" else 6000
    cases = []
    for k in range(n):
        cases.append(gen_case(rng, "c%d_%d" % (seed, k)))
    for k in range(20 if tier == "quick" else 100):
        cases.append(boundary_case(rng, "b%d_%d" % (seed, k)))
    cases.append(bb_shadow_case("s%d_0" % seed))
    return [lines(c) for c in cases]


def strip(c):
    return {k: c[k] for k in ("id", "text", "ops", "order", "vars", "keys", "nobs", "feat", "cls") if k in c} | (
        {"skip_o0": True} if c.get("skip_o0") else {})


def rebuild(c):
    c = dict(c)
    c["vars"] = {k: tuple(v) for k, v in c["vars"].items()}
    return lines(c)


def run(ctx):
    rng, tier = ctx["rng"], ctx["tier"]
    rep = diff.replay_case(ctx)
    if rep is not None:
        cases = [rebuild(c) for c in rep]
    else:
        cases = [rebuild(c) for c in diff.load_corpus("C11")] + gen_cases(rng, tier, ctx["seed"])
    env = {"SV_TIMEOUT_MS": "30000"}
    impl, model = diff.run_cases(cases, impl_env=env) if cases else ({}, {})

    def judge(c):
        mv = model_obs(c, model.get(c["id"] + ".m"))
        iv = impl_obs(c, impl.get(c["id"] + ".r"), impl.get(c["id"] + ".e"))
        return mv, iv
    retry = []
    for c in cases:
        mv, iv = judge(c)
        if mv is not None and (iv is None or isinstance(iv, dict) or iv != mv):
            retry.append(c)
    retried = len(retry)
    retry = retry[:40]     # bound the sequential pass; what stays inconclusive is counted and reported
    if retry:
        i3, _ = diff.run_cases([{"impl": ["R\t%s.R" % c["id"]] + c["impl"]} for c in retry],
                               impl_env={"SV_TIMEOUT_MS": "60000"}, parallel=False)
        impl.update(i3)
    findings, agree, inconclusive = [], 0, 0
    feats, classes_n = {}, {}
    distinct = set()
    samples = []
    points = 0
    for c in cases:
        mv, iv = judge(c)
        classes_n[c["cls"]] = classes_n.get(c["cls"], 0) + 1
        if rep is not None:
            print("replay %s\n%s impl: %s\n       events %s\n model: %s\n ops: %s" % (
                c["id"], c["text"], impl.get(c["id"] + ".r"), impl.get(c["id"] + ".e"), model.get(c["id"] + ".m"), c["ops"]))
        if mv is None:
            findings.append(core.Finding("disagreement", {"cls": c["cls"], "part": "model-driver"},
                                         "no interpretable model result: %r" % model.get(c["id"] + ".m"), strip(c)))
            continue
        if iv is None:
            inconclusive += 1
            continue
        for f in c["feat"]:
            feats[f] = feats.get(f, 0) + 1
        distinct.add(hashlib.sha1(c["text"].replace(c["id"], "").encode()).hexdigest())
        if not isinstance(iv, dict) and iv == mv:
            agree += 1
            points += len(mv)
            if len(samples) < 3 and len(c["text"]) < 700:
                samples.append({"program": c["text"], "model_ops": c["ops"], "observations": mv})
            continue
        sig = {"cls": c["cls"], "part": "observation"}
        if isinstance(iv, dict):
            sig["part"] = "uninterpretable"
        else:
            if len(iv) != len(mv):
                sig["part"] = "number-of-observations"
            else:
                k = [i for i in range(len(mv)) if iv[i] != mv[i]]
                where = "after-goal" if k == [len(mv) - 1] else ("before-goal" if 0 in k and not c.get("skip_o0") else "inside-goal")
                parts = sorted({p for i in k for p in ("atts", "classes", "vals", "bbs") if iv[i][p] != mv[i][p]})
                sig["part"] = where + ":" + "+".join(parts)
                if parts == ["bbs"] and "bb_put" in " ".join(c["feat"]) + c["text"] and shadowed(c, iv, mv, k):
                    sig = {"cls": c["cls"], "defect": "bb-put-shadowed-by-restored-bb-b-put"}
        detail = ("implementation and model observations differ.\nprogram:\n%s\nmodel ops: %s\nimpl : %s\nmodel: %s\nraw: %s / %s" % (
            c["text"], c["ops"], json.dumps(iv), json.dumps(mv), impl.get(c["id"] + ".r"), impl.get(c["id"] + ".e")))
        findings.append(core.Finding("violation", sig, detail, strip(c)))
    if inconclusive > max(3, len(cases) // 100):
        # the implementation delivers no result (timeout / abort) even on the sequential re-run with a
        # long time limit: the machine itself is broken (e.g. a trailing defect that stops the library
        # from loading); never let that pass as "nothing to compare"
        bad = [c for c in cases if judge(c)[1] is None][:1]
        findings.append(core.Finding(
            "violation", {"cls": "any", "part": "no-result"},
            "%d of %d cases gave no result on the implementation (timeout/abort) after a sequential re-run; first: %s -> %r"
            % (inconclusive, len(cases), bad[0]["id"] if bad else "?", impl.get(bad[0]["id"] + ".r") if bad else None),
            strip(bad[0]) if bad else None))
    return {
        "evaluations": len(cases),
        "distinct_nontrivial": len(distinct),
        "rule": "random step lists (2..6 old heap/stack variables, 0..2 bb keys, nested undoing scopes to depth 2) rendered as "
                "Prolog and as model operations; every case binds old and/or new cells under a choice point and fails; "
                "distinct by program text",
        "samples": samples,
        "traces_validated_against_impl": agree,
        "observation_points_compared": points,
        "disagreements_checked": len(findings),
        "impl_inconclusive_after_retry": inconclusive,
        "retried": retried,
        "features": feats,
        "classes": classes_n,
        "findings": findings,
    }


def shadowed(c, iv, mv, k):
    """C11-1: after the failure of a goal that did bb_b_put(K,_) … bb_put(K,V), the implementation answers the
    value K had before the goal where the model (and the statement) have V."""
    m = re.search(r"bb_put\((k\w+), (\d+)\)", c["text"])
    return m is not None
