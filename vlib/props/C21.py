"""C21 — Atom identity is text identity.

Static part: the inline decision and encodings of src/atom_table.rs and build/static_string_indexing.rs are
compared with the mirrored model (constants, expressions), and the table the build script really generated
(static_atoms.rs: STRINGS and every `atom!` index) is compared with what the model's `intern` computes.
Dynamic part: atoms of equal and of neighbouring texts are built by many routes; the ==, compare/3, functor-name,
first-argument-indexing and decode matrices must be those of text identity / code-point order (and the model's
`internAll` over the real static table must give the same equality classes)."""
import glob
import os
import re

from .. import core, diff
from .C22 import A, I, L, S, V, to_prolog, hesc, P, parse_result

LEVEL = "proof"
TRUSTED_BASE = [
    "the regular expressions of vlib/props/C21.py that pick INLINED_ATOM_MAX_LEN, the inline test and the packing expressions out of src/atom_table.rs and build/static_string_indexing.rs, and the parser of the generated static_atoms.rs (Rust string literals)",
    "the Prolog helper program c21_* (routes that build an atom from a code list) loaded into the machine, and the rendering of literals (quoted atoms with \\xHH\\ escapes)",
    "atoms are observed only through ==, compare/3, unification of functors, clause indexing and atom_codes/2 (the 64-bit index itself is not visible through run_query)",
]
ASSUMPTIONS = [
    "one thread creates atoms (the update lock / epoch retry loop of build_with is not exercised)",
    "dynamic offsets stay below 2^48 (the name field); growing the block keeps offsets",
]


def repo_path():
    if os.environ.get("SV_REPO"):
        return os.environ["SV_REPO"]
    hb = os.environ.get("SV_HARNESS_BIN")
    if hb:
        w = os.path.join(os.path.dirname(os.path.dirname(os.path.dirname(os.path.abspath(hb)))), "repo")
        if os.path.isdir(os.path.join(w, "src")):
            return w
    return "/repo"


def target_dir():
    return os.path.dirname(os.path.dirname(os.path.abspath(core.HARNESS_BIN)))


# ------------------------------------------------------------------ static part

INLINE_TEST = r"!string.is_empty() && string.len() <= INLINED_ATOM_MAX_LEN && !string.contains('\u{0}')"


def norm(s):
    return re.sub(r"\s+", " ", s)


def source_facts(repo):
    """-> list of (what, ok, detail)"""
    out = []
    at = open(os.path.join(repo, "src", "atom_table.rs")).read()
    bs = open(os.path.join(repo, "build", "static_string_indexing.rs")).read()
    for name, src in (("atom_table.rs", at), ("static_string_indexing.rs", bs)):
        m = re.findall(r"const INLINED_ATOM_MAX_LEN: usize = (\d+);", src)
        out.append(("INLINED_ATOM_MAX_LEN in " + name, m == ["6"], "found %r, the model has 6" % (m,)))
        out.append(("inline test in " + name, norm(src).count(INLINE_TEST) == 1,
                    "the expression `%s` must occur exactly once" % INLINE_TEST))
        out.append(("little-endian packing in " + name,
                    "string_buf[..string.len()].copy_from_slice(string.as_bytes());" in norm(src) and "u64::from_le_bytes(string_buf)" in src,
                    "new_inlined / static_string_index no longer pack the text with u64::from_le_bytes"))
    n = norm(at)
    out.append(("index = (name << 1) | is_inlined", "index: (self.name() << 1) | self.is_inlined() as u64" in n, "AtomCell::get_name changed"))
    out.append(("build script index", "(u64::from_le_bytes(string_buf) << 1) | 1" in norm(bs) and "(index << 1) as u64" in norm(bs), "static_string_index changed"))
    out.append(("inlined_to_str", ".position(|&b| b == 0u8) .unwrap_or(INLINED_ATOM_MAX_LEN)" in n.replace("( ", "(") or
                ".position(|&b| b == 0u8).unwrap_or(INLINED_ATOM_MAX_LEN)" in n.replace(" .", "."), "inlined_to_str changed"))
    out.append(("new_char_inlined NUL case", "if c == '\\u{0}' { return Self::new_static(NULL_ATOM.flat_index()); }" in n, "new_char_inlined changed"))
    out.append(("dynamic index", ".with_name((STRINGS.len() + len_offset) as u64)" in n, "build_with no longer numbers dynamic atoms STRINGS.len() + offset"))
    out.append(("Atom equality is index equality", "#[derive(Copy, Clone, Debug, PartialEq, Eq, Hash)] pub struct Atom { pub index: u64, }" in n, "struct Atom changed"))
    return out


def rust_str(lit):
    """decodes the inside of a Rust string literal"""
    out, i = [], 0
    while i < len(lit):
        c = lit[i]
        if c != '\\':
            out.append(c)
            i += 1
            continue
        d = lit[i + 1]
        if d == 'u':
            j = lit.index('}', i)
            out.append(chr(int(lit[i + 3:j], 16)))
            i = j + 1
        elif d == 'x':
            out.append(chr(int(lit[i + 2:i + 4], 16)))
            i += 4
        else:
            out.append({'0': '\0', 'n': '\n', 't': '\t', 'r': '\r', '\\': '\\', '"': '"', "'": "'"}[d])
            i += 2
    return ''.join(out)


STR = r'"((?:[^"\\]|\\.)*)"'


def generated_table():
    """-> (path, STRINGS, [(key, index)]) from the newest static_atoms.rs of the build the harness came from"""
    cands = glob.glob(os.path.join(target_dir(), "release", "build", "scryer-prolog-*", "out", "static_atoms.rs"))
    if not cands:
        return None, [], []
    path = max(cands, key=os.path.getmtime)
    src = open(path).read()
    head = src[:src.index("macro_rules! atom")]
    strings = [rust_str(m) for m in re.findall(r"^\s*" + STR + r",\s*$", head, flags=re.M)]
    mac = src[src.index("macro_rules! atom"):src.index("pub static STATIC_ATOMS_MAP")]
    arms = [(rust_str(k), int(v)) for k, v in re.findall(r"\(" + STR + r"\) => \{\s*Atom \{\s*index: (\d+)u64,?\s*\}", mac)]
    return path, strings, arms


def hx(s):
    return s.encode("utf-8", "surrogatepass").hex()


# ------------------------------------------------------------------ dynamic part

HELPER = r"""
:- use_module(library(lists)).
:- use_module(library(charsio)).
:- use_module(library(between)).
:- dynamic(c21_tmp/1).
:- dynamic(c21_idx/2).
c21_cc(C, Ch) :- char_code(Ch, C).
c21_route(lit(A), _, A).
c21_route(codes, Cs, A) :- atom_codes(A, Cs).
c21_route(chars, Cs, A) :- maplist(c21_cc, Cs, Chs), atom_chars(A, Chs).
c21_route(concat, Cs, A) :- length(Cs, N), K is N // 2, length(X, K), append(X, Y, Cs), atom_codes(AX, X), atom_codes(AY, Y), atom_concat(AX, AY, A).
c21_route(concat1, [C|Y], A) :- char_code(AX, C), atom_codes(AY, Y), atom_concat(AX, AY, A).
c21_route(concat_tail, Cs, A) :- append(Cs, [0'#,0't,0'a,0'i,0'l], Cs2), atom_codes(Z, Cs2), atom_concat(A, '#tail', Z).
c21_route(concat_enum, Cs, A) :- atom_codes(Z, [0'<|Cs]), atom_concat(X, A, Z), X == (<), !.
c21_route(sub, Cs, A) :- append([0'<|Cs], [0'>,0'>], Cs2), atom_codes(Z, Cs2), length(Cs, Len), sub_atom(Z, 1, Len, 2, A).
c21_route(sub_whole, Cs, A) :- atom_codes(Z, Cs), sub_atom(Z, 0, _, 0, A).
c21_route(char, [C], A) :- char_code(A, C).
c21_route(number, Cs, A) :- number_codes(N, Cs), number_chars(N, Chs), atom_chars(A, Chs).
c21_route(read, Cs, A) :- atom_codes(A0, Cs), write_term_to_chars([A0], [quoted(true)], Q), append(Q, " .", Q2), read_from_chars(Q2, [A]).
c21_route(findall, Cs, A) :- findall(A0, atom_codes(A0, Cs), [A]).
c21_route(assert, Cs, A) :- atom_codes(A0, Cs), assertz(c21_tmp(A0)), retract(c21_tmp(A)).
c21_route(copy, Cs, A) :- atom_codes(A0, Cs), copy_term(f(A0, _), f(A, _)).
c21_route(univ, Cs, A) :- atom_codes(A0, Cs), T =.. [A0, x], functor(T, A, _).
c21_mk(R-Cs, A) :- ( c21_route(R, Cs, A0) -> A = A0 ; A = '$c21_route_failed'(R) ).
c21_o(<, 0). c21_o(=, 1). c21_o(>, 2).
c21_run(Specs, Eq, Cmp, Fun, Idx, Lit, Rt) :-
    maplist(c21_mk, Specs, As),
    findall(B, (member(X, As), member(Y, As), (X == Y -> B = 1 ; B = 0)), Eq),
    findall(O, (member(X, As), member(Y, As), compare(O0, X, Y), c21_o(O0, O)), Cmp),
    findall(B, (member(X, As), member(Y, As), catch((functor(TX, X, 1), functor(TY, Y, 1), (TX = TY -> B = 1 ; B = 0)), _, B = 9)), Fun),
    retractall(c21_idx(_, _)),
    ( nth0(I, As, X), assertz(c21_idx(X, I)), false ; true ),
    findall(Js, (member(X, As), findall(J, c21_idx(X, J), Js)), Idx),
    findall(Js, (member(X, As), findall(J, c21_lit(X, J), Js)), Lit),
    findall(Cs, (member(X, As), (atom(X) -> atom_codes(X, Cs) ; Cs = failed)), Rt).
c21_g1(Tag, I, A) :- number_codes(I, Cs), append(Tag, Cs, Cs2), atom_codes(A, Cs2).
c21_g2(Tag, I, A) :- number_chars(I, Chs), atom_codes(T, Tag), atom_chars(S, Chs), atom_concat(T, S, A).
c21_diff([], [], _, []).
c21_diff([X|Xs], [Y|Ys], I, Ds) :- ( X == Y -> Ds = Ds1 ; Ds = [I|Ds1] ), I1 is I + 1, c21_diff(Xs, Ys, I1, Ds1).
c21_growth(TagAtom, N, Same, Distinct, Again, Back) :-
    atom_codes(TagAtom, Tag),
    findall(I0, between(1, N, I0), Ns),
    maplist(c21_g1(Tag), Ns, As1), maplist(c21_g2(Tag), Ns, As2),
    c21_diff(As1, As2, 1, Same),
    sort(As1, Sorted), length(Sorted, Distinct),
    maplist(c21_g1(Tag), Ns, As3),
    c21_diff(As1, As3, 1, Again),
    maplist(atom_codes, As1, Cs1), maplist(atom_codes, As3, Cs3),
    c21_diff(Cs1, Cs3, 1, Back).
"""

ROUTES_ANY = ["codes", "chars", "concat", "concat_tail", "concat_enum", "sub", "sub_whole", "read", "findall", "assert", "copy", "univ"]
BUILTIN_NAMES = ['[]', '{}', '.', 'true', '', 'false', '!', ',', ';', '|', '-', 'is', 'call', 'user', 'atom_length', 'end_of_file',
                 'instantiation_error', 'type_error', 'append', '\x00', 'a', 'nil', 'error', '$atom_length', 'dynamic']
CH1 = list("abzAZ09_ -")
CH2 = ['é', 'ß', '\x80', '\u07ff', 'ü']
CH3 = ['€', '\u0800', '\uffff', '一', '\u0301']
CH4 = ['😀', '\U00010000', '\U0010ffff']


def rand_text(rng, nbytes):
    """a text of (about) nbytes bytes made of characters of mixed widths"""
    out, n = [], 0
    while n < nbytes:
        room = nbytes - n
        pools = [CH1] + ([CH2] if room >= 2 else []) + ([CH3] if room >= 3 else []) + ([CH4] if room >= 4 else [])
        if rng.random() < 0.35:
            pools = [CH1]
        c = rng.choice(rng.choice(pools))
        out.append(c)
        n += len(c.encode())
    return ''.join(out)


def neighbours(rng, t):
    out = []
    cs = list(t)
    if cs:
        x = cs[:]
        x[-1] = rng.choice(CH1 + CH2 + CH3 + CH4)
        out.append(''.join(x))
        out.append(''.join(cs[:-1]))
        x = cs[:]
        x[0] = rng.choice(CH1 + CH2)
        out.append(''.join(x))
    out.append(t + rng.choice(CH1 + CH2 + CH3 + CH4))
    out.append(t + '\x00')
    out.append('\x00' + t)
    if len(cs) >= 2:
        k = rng.randrange(1, len(cs))
        out.append(''.join(cs[:k]) + '\x00' + ''.join(cs[k:]))
        out.append(''.join(cs[:k]))
    return out


def make_case(rng, cid, statics, force=None):
    r = rng.random()
    if force is not None:
        base = force
    elif r < 0.55:
        base = rand_text(rng, rng.choice([0, 1, 2, 3, 4, 5, 5, 6, 6, 6, 7, 7, 7, 8, 9, 12, 16, 31, 41, 64, 200]))
    elif r < 0.75:
        base = rng.choice(BUILTIN_NAMES)
    elif r < 0.9 and statics:
        base = rng.choice(statics)
    else:
        base = str(rng.choice([0, 7, 123456, 1234567, 12345678, 999999, 1000000]))
    texts = [base] + rng.sample(neighbours(rng, base), k=min(4, len(neighbours(rng, base))))
    if rng.random() < 0.4:
        texts.append(rng.choice(BUILTIN_NAMES))
    if rng.random() < 0.3:
        texts.append(rand_text(rng, rng.choice([5, 6, 7])))
    texts = list(dict.fromkeys(texts))[:7]
    specs = []      # (route, text)
    for t in texts:
        routes = ["lit"] + rng.sample(ROUTES_ANY, 4)
        if len(t) == 1:
            routes.append("char")
        if len(t) >= 1:
            routes.append("concat1")
        if t.isdigit() and t.isascii() and (t == "0" or not t.startswith("0")):
            routes.append("number")
        for ro in routes:
            specs.append((ro, t))
    rng.shuffle(specs)
    return {"id": "c%d" % cid, "kind": "matrix", "texts": [hx(t) for t in texts], "specs": [[ro, hx(t)] for ro, t in specs]}


def unhx(h):
    return bytes.fromhex(h).decode("utf-8", "surrogatepass")


def case_lines(c):
    n = c["id"][1:]
    if c["kind"] == "growth":
        return ["L\th%s\tuser\t%s" % (n, hesc(HELPER + "c21_lit(none, -1).\n")),
                "Q\t%s\t1\tc21_growth('%s', %d, Same, Distinct, Again, Back)." % (c["id"], c["tag"], c["n"])]
    texts = [unhx(h) for h in c["texts"]]
    lit = "".join("c21_lit(%s, %d).\n" % (to_prolog(A(t)), j) for j, t in enumerate(texts))
    specs = []
    for ro, h in c["specs"]:
        t = unhx(h)
        r = "lit(%s)" % to_prolog(A(t)) if ro == "lit" else ro
        specs.append("%s-[%s]" % (r, ",".join(str(ord(ch)) for ch in t)))
    q = "c21_run([%s], Eq, Cmp, Fun, Idx, Lit, Rt)." % ",".join(specs)
    return ["L\th%s\tuser\t%s" % (n, hesc(HELPER + lit)), "Q\t%s\t1\t%s" % (c["id"], hesc(q))]


def model_lines(c, statics_line):
    if c["kind"] != "matrix":
        return []
    return ["M\t%s\t%s" % (c["id"], ",".join(h for _, h in c["specs"]))]


def ints(t):
    """a parsed list of integers -> python list"""
    if t == ('a', '[]'):
        return []
    if t[0] == 'l' and t[2] == ('a', '[]'):
        return [e[1] if e[0] == 'i' else None for e in t[1]]
    return None


def expected(c):
    ts = [unhx(h) for _, h in c["specs"]]
    texts = [unhx(h) for h in c["texts"]]
    m = len(ts)
    eq = [1 if ts[i] == ts[j] else 0 for i in range(m) for j in range(m)]
    cmpm = [0 if ts[i] < ts[j] else 1 if ts[i] == ts[j] else 2 for i in range(m) for j in range(m)]
    idx = [[j for j in range(m) if ts[j] == ts[i]] for i in range(m)]
    lit = [[texts.index(t)] for t in ts]
    rt = [[ord(ch) for ch in t] for t in ts]
    return eq, cmpm, idx, lit, rt


def judge_matrix(c, ires, mres):
    out = []
    eq, cmpm, idx, lit, rt = expected(c)
    m = len(c["specs"])
    sig0 = {"family": "atoms"}
    # the model: equality classes of internAll over the real static table = text identity
    toks = (mres or "").split(" ")
    first = [next(j for j in range(m) if c["specs"][j][1] == c["specs"][i][1]) for i in range(m)]
    if len(toks) != m or any(not re.fullmatch(r"[isd]\d+[+-]", t) for t in toks):
        out.append(("disagreement", dict(sig0, what="model-output", model=str(mres)[:80]), "unusable model output"))
    else:
        for i, t in enumerate(toks):
            if int(t[1:-1]) != first[i] or t[-1] != '+':
                out.append(("disagreement", dict(sig0, what="model-class", text=c["specs"][i][1]),
                            "the model's internAll gives text %s class %s (expected %d, decode %s)" % (c["specs"][i][1], t, first[i], t[-1])))
                break
    pr = parse_result(ires, True)
    if pr[0] != 'ans' or len(pr[1]) != 1:
        out.append(("violation", dict(sig0, what="no-result", impl=str(ires)[:100], texts="/".join(c["texts"])[:60]), "the atom matrix query gave no answer: %s" % str(ires)[:300]))
        return out
    b = pr[1][0]

    def routes_of(i, j=None):
        s = "%s(%s)" % (c["specs"][i][0], c["specs"][i][1])
        return s if j is None else s + " vs %s(%s)" % (c["specs"][j][0], c["specs"][j][1])
    for name, exp in (("Eq", eq), ("Cmp", cmpm), ("Fun", eq)):
        got = ints(b.get(name, ('a', '?')))
        if got is None or len(got) != m * m:
            out.append(("violation", dict(sig0, what=name + "-shape"), "%s matrix unusable: %s" % (name, str(b.get(name))[:200])))
            continue
        for k in range(m * m):
            if got[k] != exp[k]:
                i, j = divmod(k, m)
                out.append(("violation", dict(sig0, what=name, routes="%s/%s" % (c["specs"][i][0], c["specs"][j][0]),
                                              texts="%s/%s" % (c["specs"][i][1], c["specs"][j][1])),
                            "%s of %s is %s, text identity/order says %s" % (name, routes_of(i, j), got[k], exp[k])))
                break
    for name, exp in (("Idx", idx), ("Lit", lit), ("Rt", rt)):
        t = b.get(name)
        got = None
        if t is not None and (t == ('a', '[]') or (t[0] == 'l' and t[2] == ('a', '[]'))):
            got = [ints(e) for e in (t[1] if t[0] == 'l' else [])]
        if got is None or len(got) != m:
            out.append(("violation", dict(sig0, what=name + "-shape"), "%s unusable: %s" % (name, str(t)[:200])))
            continue
        for i in range(m):
            if got[i] != exp[i]:
                out.append(("violation", dict(sig0, what=name, route=c["specs"][i][0], text=c["specs"][i][1]),
                            "%s of %s is %s, expected %s" % (name, routes_of(i), str(got[i])[:100], str(exp[i])[:100])))
                break
    return out


def judge_growth(c, ires):
    pr = parse_result(ires, True)
    sig0 = {"family": "growth"}
    if pr[0] != 'ans' or len(pr[1]) != 1:
        return [("violation", dict(sig0, what="no-result", impl=str(ires)[:100]), "growth query: %s" % str(ires)[:300])]
    b = pr[1][0]
    out = []
    for name in ("Same", "Again", "Back"):
        if b.get(name) != ('a', '[]'):
            out.append(("violation", dict(sig0, what=name), "%d atoms with tag %s: positions %s differ (%s)" % (
                c["n"], c["tag"], str(b.get(name))[:100],
                {"Same": "atom_codes vs atom_concat route", "Again": "re-created after the table grew", "Back": "text read back"}[name])))
    if b.get("Distinct") != ('i', c["n"]):
        out.append(("violation", dict(sig0, what="Distinct"), "%d distinct texts gave %s distinct atoms" % (c["n"], b.get("Distinct"))))
    return out


def run(ctx):
    rng, tier = ctx["rng"], ctx["tier"]
    findings = []
    quick = tier == "quick"
    # ---- static part
    repo = repo_path()
    facts = source_facts(repo)
    for what, ok, detail in facts:
        if not ok:
            findings.append(core.Finding("disagreement", {"family": "source", "what": what},
                                         "the source no longer has the form mirrored by Model/Atoms.lean: %s (%s)" % (what, detail), None))
    path, strings, arms = generated_table()
    static_lines = ["S\ts0\t%s" % ",".join(hx(s) for s in strings)]
    rep = diff.replay_case(ctx)
    # the index the model's intern computes for every atom!() key, against the generated macro table
    probe = [{"id": "k%d" % i, "kind": "matrix", "texts": [hx(k)], "specs": [["lit", hx(k)]]} for i, (k, _) in enumerate(arms)]
    if rep is not None:
        cases = rep
    else:
        cases = diff.load_corpus("C21")
        for k, c in enumerate(cases):
            c["id"] = "r%d" % k
        n = 160 if quick else 2500
        base = len(cases)
        forced = BUILTIN_NAMES + ['abcdef', 'abcdefg', 'abcde\x00', 'aé€', 'a😀é', '😀é', '€€', '€€a', 'ééé', 'éééa', '\U0010ffff\U0010ffff']
        for i in range(n):
            cases.append(make_case(rng, base + i, strings, force=forced[i] if i < len(forced) else None))
        for g in range(1 if quick else 3):
            cases.append({"id": "c%d" % (base + n + g), "kind": "growth", "tag": "c21_grow_%d_%d_%d_" % (ctx["seed"], g, rng.randrange(10 ** 6)),
                          "n": 6000 if quick else 20000})
    env = {"SV_TIMEOUT_MS": "120000"}
    impl = core.run_impl_parallel([case_lines(c) for c in cases], env=env)
    again = [c for c in cases if str(impl.get(c["id"], "missing")).startswith(("timeout", "missing", "abort(", "skipped"))]
    if again:
        impl.update(core.run_impl([l for c in again for l in case_lines(c)], env=env))
    mlines = list(static_lines)
    for c in cases:
        mlines += model_lines(c, None)
    mlines += ["I\t%s\t%s" % (p["id"], p["specs"][0][1]) for p in probe]
    model = core.run_model(mlines)
    # static table facts
    sres = model.get("s0", "")
    static_ok = 0
    if path is None or not strings:
        findings.append(core.Finding("disagreement", {"family": "generated", "what": "static_atoms.rs not found"},
                                     "no generated static_atoms.rs under %s" % target_dir(), None))
    else:
        if "nodup=true" not in sres or "noinline=true" not in sres or "nul=none" in sres:
            findings.append(core.Finding("violation", {"family": "generated", "what": "static-table-invariant"},
                                         "STRINGS of %s breaks the table invariant (duplicates / an inlineable text / no \"\\0\"): %s" % (path, sres), None))
        for p, (k, v) in zip(probe, arms):
            got = model.get(p["id"])
            if got != str(v):
                findings.append(core.Finding("violation", {"family": "generated", "what": "atom-macro-index", "text": hx(k)},
                                             "atom!(%r) is index %d in the generated table, build_with (model) computes %s for that text: "
                                             "the build-time and the run-time representation decision differ" % (k, v, got), None))
            else:
                static_ok += 1
    agree, distinct, routes_hit, kinds = 0, set(), {}, {"i": 0, "s": 0, "d": 0}
    for c in cases:
        ires = impl.get(c["id"])
        if rep is not None:
            print("replay %s\n impl : %s\n model: %s" % (case_lines(c)[-1][:600], str(ires)[:3000], model.get(c["id"])))
        js = judge_growth(c, ires) if c["kind"] == "growth" else judge_matrix(c, ires, model.get(c["id"]))
        if c["kind"] == "matrix":
            for ro, h in c["specs"]:
                routes_hit[ro] = routes_hit.get(ro, 0) + 1
                distinct.add((ro, h))
            for t in (model.get(c["id"]) or "").split(" "):
                if t[:1] in kinds:
                    kinds[t[:1]] += 1
        if not js:
            agree += 1
        for kind_, sig, detail in js:
            findings.append(core.Finding(kind_, sig, detail, {k: v for k, v in c.items() if k != "corpus"}))
    return {
        "evaluations": len(cases),
        "distinct_nontrivial": len(distinct),
        "rule": "each case: a base text (0-12 bytes of 1/2/3/4-byte characters biased to 5-7 bytes, a predefined atom name, a text of the real static table, or a digit string) with up to 6 neighbours (last/first character changed, one character more/less, NUL appended / prepended / inserted, prefix), each built by the literal and 4-7 other routes (atom_codes, atom_chars, atom_concat in 4 modes, sub_atom in 2 modes, char_code, number->chars->atom, writeq+read, findall copy, assert/retract, copy_term, =../functor) in random order; all-pairs ==, compare/3, functor unification, dynamic and consulted first-argument indexing, atom_codes read-back; plus growth cases (6000/20000 fresh atoms by two routes before and after the table grows); distinct by (route, text)",
        "samples": [{"texts": c.get("texts"), "routes": [s[0] for s in c.get("specs", [])][:8]} for c in cases[:3]],
        "traces_validated_against_impl": agree,
        "disagreements_checked": len(cases) - agree,
        "source_facts_checked": len(facts),
        "static_strings": len(strings),
        "atom_macro_indices_equal_to_model": static_ok,
        "atom_macro_indices_total": len(arms),
        "routes_hit": routes_hit,
        "representation_of_created_atoms": kinds,
        "retried_after_timeout": len(again),
        "exhaustive": False,
        "findings": findings,
    }
