"""C18 — Text decoding does not depend on how input arrives."""
import itertools
from .. import core, diff

LEVEL = "proof"
TRUSTED_BASE = [
    "Rust's str::from_utf8 error model (valid_up_to / error_len) is characterised by Model/Utf8.decodeFirst; the harness prints std's own decoding (op U8) and it is compared with decodeAll on every byte string",
    "hook verif_hooks::char_reader_script drives the real CharReader over a scripted Read (one chunk per read call, then end of input)",
]
ASSUMPTIONS = [
    "the underlying reader returns non-empty chunks of at most 8192 bytes and then 0 forever (Read contract: Ok(0) means end of input)",
    "after a bad-bytes error the caller consumes the reported bytes (what the reader's own unit tests do)",
]

PIECES = [
    # (bytes, kind)
    (b"a", "ascii"), (b"Z", "ascii"), (b"\n", "ascii"), (b"\x00", "ascii"), (b"\x7f", "ascii"),
    ("é".encode(), "2"), ("ß".encode(), "2"), ("߿".encode(), "2"), ("\u0080".encode(), "2"),
    ("€".encode(), "3"), ("ࠀ".encode(), "3"), ("￿".encode(), "3"), ("퟿".encode(), "3"), ("".encode(), "3"),
    ("😀".encode(), "4"), ("\U00010000".encode(), "4"), ("\U0010ffff".encode(), "4"),
    (b"\x80", "stray"), (b"\xbf", "stray"), (b"\xc0\x80", "overlong"), (b"\xc1\xbf", "overlong"),
    (b"\xe0\x80\x80", "overlong"), (b"\xe0\x9f\xbf", "overlong"), (b"\xf0\x80\x80\x80", "overlong"), (b"\xf0\x8f\xbf\xbf", "overlong"),
    (b"\xed\xa0\x80", "surrogate"), (b"\xed\xbf\xbf", "surrogate"),
    (b"\xf4\x90\x80\x80", "toobig"), (b"\xf5\x80\x80\x80", "toobig"), (b"\xff", "invalid"), (b"\xfe", "invalid"),
    (b"\xc3", "trunc"), (b"\xe2\x82", "trunc"), (b"\xe2", "trunc"), (b"\xf0\x9f\x98", "trunc"), (b"\xf0\x9f", "trunc"), (b"\xf0", "trunc"),
    (b"\xe2\x28\xa1", "badcont"), (b"\xf0\x9f\x28\x80", "badcont"), (b"\xc3\x28", "badcont"),
]


def rand_bytes(rng, maxpieces):
    n = rng.randint(0, maxpieces)
    out, kinds = b"", set()
    for _ in range(n):
        if rng.random() < 0.55:
            b, k = rng.choice(PIECES[:17])
        else:
            b, k = rng.choice(PIECES)
        out += b
        kinds.add(k)
    return out, kinds


def rand_partition(rng, data, bias):
    if not data:
        return []
    cuts = set()
    n = len(data)
    if bias == "one":
        pass
    elif bias == "bytes":
        cuts = set(range(1, n))
    else:
        k = rng.randint(0, min(n - 1, 6))
        cuts = set(rng.sample(range(1, n), k)) if n > 1 else set()
    pts = [0] + sorted(cuts) + [n]
    return [data[a:b] for a, b in zip(pts, pts[1:])]


def all_partitions(data):
    n = len(data)
    if n == 0:
        yield []
        return
    for mask in range(1 << (n - 1)):
        pts = [0] + [i + 1 for i in range(n - 1) if mask >> i & 1] + [n]
        yield [data[a:b] for a, b in zip(pts, pts[1:])]


def rand_script(rng, nbytes):
    r = rng.random()
    if r < 0.5:
        return "r" * (nbytes + 2)
    s = []
    for _ in range(nbytes + 6):
        x = rng.random()
        if x < 0.25:
            s.append("p")
        elif x < 0.85:
            s.append("r")
        else:
            s.append("rb")
    return "".join(s) + "rr"


def mk_case(i, data, chunks, script):
    ch = ",".join(c.hex() for c in chunks)
    return {"id": "c%d" % i, "bytes": data.hex(), "chunks": ch, "script": script,
            "impl": ["CR\tc%d\t%s\t%s" % (i, ch, script), "U8\tu%d\t%s" % (i, data.hex())],
            "model": ["CR\tc%d\t%s\t%s" % (i, ch, script), "SP\ts%d\t%s\t%s" % (i, data.hex(), script),
                      "U8\tu%d\t%s" % (i, data.hex())]}


def run(ctx):
    rng, tier = ctx["rng"], ctx["tier"]
    rep = diff.replay_case(ctx)
    cases = []
    kinds_hit = {}
    exhaustive_strings = 0
    if rep is not None:
        cases = rep
    else:
        cases = diff.load_corpus("C18")
        i = len(cases)
        n_rand = 2500 if tier == "quick" else 60000
        for _ in range(n_rand):
            data, kinds = rand_bytes(rng, rng.choice([1, 2, 3, 4, 6, 10, 16]))
            if rng.random() < 0.15:
                data = bytes(rng.choice(b"abcdefgh") for _ in range(rng.randint(1, 12))) + data
            for k in kinds:
                kinds_hit[k] = kinds_hit.get(k, 0) + 1
            chunks = rand_partition(rng, data, rng.choice(["one", "bytes", "rand", "rand", "rand"]))
            cases.append(mk_case(i, data, chunks, rand_script(rng, len(data))))
            i += 1
        # every partition of short strings (the compaction / put-back-space branches depend on
        # where the cut falls relative to buffer offset 4)
        n_ex = 60 if tier == "quick" else 1200
        for _ in range(n_ex):
            data, kinds = rand_bytes(rng, rng.choice([2, 3, 4]))
            pre = bytes(rng.choice(b"abc") for _ in range(rng.randint(0, 5)))
            data = (pre + data)[: (8 if tier == "quick" else 10)]
            exhaustive_strings += 1
            for chunks in all_partitions(data):
                cases.append(mk_case(i, data, chunks, "r" * (len(data) + 2) if rng.random() < 0.7 else rand_script(rng, len(data))))
                i += 1
    impl, model = diff.run_cases(cases)
    findings, agree = [], 0
    distinct = set()
    for c in cases:
        n = c["id"][1:]
        icr, mcr = impl.get("c" + n, "missing"), model.get("c" + n, "missing")
        spec = model.get("s" + n, "missing")
        iu8, mu8 = impl.get("u" + n, "missing"), model.get("u" + n, "missing")
        if rep is not None:
            print("replay bytes=%s chunks=%s script=%s\n impl : %s\n model: %s\n spec : %s\n std  : %s\n dAll : %s" % (
                c["bytes"], c["chunks"], c["script"], icr, mcr, spec, iu8, mu8))
        if "," in c["chunks"] or any(k in c["bytes"] for k in ("ff", "e2", "f0", "c3", "ed")):
            distinct.add((c["chunks"], c["script"]))
        sig = {"family": "chunks", "bytes": c["bytes"], "chunks": c["chunks"], "script": c["script"]}
        cc = {k: c[k] for k in ("id", "bytes", "chunks", "script", "impl", "model")}
        ok = True
        if iu8 != mu8:
            ok = False
            findings.append(core.Finding("disagreement", dict(sig, what="std-vs-decodeAll", impl=iu8, model=mu8),
                                         "std::str::from_utf8's decoding differs from Model/Utf8.decodeAll (model of the UTF-8 error rule is wrong)", cc))
        if icr != spec:
            ok = False
            findings.append(core.Finding("violation", dict(sig, what="impl-vs-spec", impl=icr, spec=spec),
                                         "the real CharReader's output under this chunking differs from the decoding of the bytes (or it panicked)", cc))
        elif icr != mcr:
            ok = False
            findings.append(core.Finding("disagreement", dict(sig, what="impl-vs-mechanism-model", impl=icr, model=mcr),
                                         "mechanism model of char_reader.rs differs from the implementation", cc))
        if ok:
            agree += 1
    return {
        "evaluations": len(cases),
        "distinct_nontrivial": len(distinct),
        "rule": "byte strings assembled from valid 1-4 byte characters and invalid pieces (stray continuation, overlong, surrogate, >U+10FFFF, truncated, bad continuation), split into random / one-byte / single chunks, plus ALL partitions of %d short strings; scripts of read/peek/put-back; non-trivial = more than one chunk or a multi-byte/invalid sequence present; distinct by (chunks, script)" % exhaustive_strings,
        "samples": [{"chunks": c["chunks"], "script": c["script"]} for c in cases[:4]],
        "traces_validated_against_impl": agree,
        "disagreements_checked": len(cases) - agree,
        "piece_kinds_hit": kinds_hit,
        "findings": findings,
    }
