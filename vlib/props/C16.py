"""C16 — Numeric literals and number/text conversions are exact.

Abstract items (all rendered here, both for the implementation and for drv_C16):
  lit   a text T (list of code points): number_codes/number_chars on T, read_term_from_chars on
        T ++ " ." and a consulted fact (when the model accepts T) against `numberFromText`
        (Model/NumLex.lean; the proved specification of the value and of acceptance)
  tok   a literal followed by a suffix that starts a new token: the reader must split the text
        where the model's `numberToken` does (maximal-prefix theorems)
  int   an integer n: number_codes / number_chars / write give exactly `showInt n`; reading the
        text back gives n
  flt   a double b (by bits): the three printed texts must read back to b, both by the
        implementation and by the model's exact `rne` reader, and be shortest (`shortestOK`)
Two phases: the model is asked first (cheap), then the implementation lines are built.
"""
import re
import struct
import time

from .. import core, diff

LEVEL = "proof"
TRUSTED_BASE = [
    "vlib/props/C16.py renders a text as code/char lists for the implementation and as decimal code points for drv_C16 (same list), and parses the harness' canonical answers",
    "lexical (float parsing), ryu (float printing), dashu (`Integer::from_str_radix`, `to_string`) are not modelled: their results are COMPARED with the model's exact definitions (Horner value, `rne` of the exact decimal, `showInt`, `shortestOK`) on every generated case",
    "Rust `char::is_whitespace` / `is_control` are modelled by the Unicode White_Space / Cc code point lists",
    "the harness prints floats by their IEEE bits and integers in decimal through scryer's public Term API",
]
ASSUMPTIONS = [
    "default operator table and flags (double_quotes=chars); `-` is a prefix operator",
    "atom_number/2 does not exist in scryer-prolog (existence_error): that clause of the statement has no subject",
    "-0.0 is not a distinct number in scryer-prolog (floats are interned by ==, fmt_float prints it as 0.0): reading `-0.0` as 0.0 is exact",
    "the character NUL is not used inside literal texts",
]

IMPL_ENV = {"SV_TIMEOUT_MS": "30000"}


def transient(r):
    return r == "missing" or r.startswith("timeout") or r.startswith("abort") or r.startswith("skipped")


# ------------------------------------------------------------------ rendering

def esc_line(s):
    return s.replace("\\", "\\\\").replace("\n", "\\n").replace("\t", "\\t").replace("\r", "\\r")


def pl_codes(t):
    return "[" + ",".join(str(ord(c)) for c in t) + "]"


def pl_chars_line(t):
    """char list as it must appear in a harness line (backslashes doubled by esc_line)."""
    return "[" + ",".join("'\\x%x\\'" % ord(c) for c in t) + "]"


def drv_codes(t):
    return " ".join(str(ord(c)) for c in t)


def bits_of(f):
    return struct.unpack(">Q", struct.pack(">d", f))[0]


def float_of(b):
    return struct.unpack(">d", struct.pack(">Q", b))[0]


# ------------------------------------------------------------------ parsing harness answers

def split_top(s, sep=","):
    out, depth, cur, i, q = [], 0, [], 0, None
    while i < len(s):
        ch = s[i]
        if q:
            cur.append(ch)
            if ch == "\\" and i + 1 < len(s):
                cur.append(s[i + 1])
                i += 1
            elif ch == q:
                q = None
        elif ch in "'\"":
            q = ch
            cur.append(ch)
        elif ch in "([{":
            depth += 1
            cur.append(ch)
        elif ch in ")]}":
            depth -= 1
            cur.append(ch)
        elif ch == sep and depth == 0:
            out.append("".join(cur))
            cur = []
        else:
            cur.append(ch)
        i += 1
    if cur or out:
        out.append("".join(cur))
    return out


def bindings(ans):
    """`{A=..,B=..}` -> dict; `true` -> {}; anything else -> None"""
    a = ans.split(" ;; ")[0]
    if a == "true":
        return {}
    if not (a.startswith("{") and a.endswith("}")):
        return None
    d = {}
    for part in split_top(a[1:-1]):
        k, _, v = part.partition("=")
        d[k] = v
    return d


def unq_string(v):
    """harness string "..." or list of ints or [] -> python text; None if neither"""
    if v == "[]":
        return ""
    if v.startswith('"') and v.endswith('"'):
        body, out, i = v[1:-1], [], 0
        while i < len(body):
            if body[i] == "\\" and i + 1 < len(body):
                n = body[i + 1]
                if n == "x":
                    j = body.index("\\", i + 2)
                    out.append(chr(int(body[i + 2:j], 16)))
                    i = j + 1
                    continue
                out.append({"n": "\n", "t": "\t"}.get(n, n))
                i += 2
            else:
                out.append(body[i])
                i += 1
        return "".join(out)
    if v.startswith("[") and v.endswith("]"):
        try:
            return "".join(chr(int(x)) for x in v[1:-1].split(","))
        except ValueError:
            return None
    return None


def num_of(v):
    """canonical number -> ('int', n) | ('flt', bits) | None"""
    if v is None:
        return None
    m = re.fullmatch(r"f\(([0-9a-f]{16})\)", v)
    if m:
        return ("flt", int(m.group(1), 16))
    if re.fullmatch(r"-?[0-9]+", v):
        return ("int", int(v))
    return None


def impl_num(ans, var="N", evar="E"):
    """-> ('int',n) | ('flt',bits) | ('err', kind) | ('other', text)"""
    if ans.startswith("error("):
        m = re.match(r"error\('error'\('syntax_error'\('([a-z0-9_]+)'\)", ans)
        return ("err", m.group(1)) if m else ("other", ans)
    b = bindings(ans)
    if b is None:
        return ("other", ans)
    if evar in b:
        m = re.fullmatch(r"'syntax_error'\('([a-z0-9_]+)'\)", b[evar])
        return ("err", m.group(1)) if m else ("other", ans)
    n = num_of(b.get(var))
    return n if n else ("other", ans)


def model_num(r):
    """drv `num` result -> same shape"""
    f = r.split(" ")
    if f[0] == "int":
        return ("int", int(f[1]))
    if f[0] == "flt":
        return ("flt", int(f[1], 16))
    if f[0] == "err":
        return ("err", f[1])
    return ("other", r)


def canon_num(n):
    return str(n[1]) if n[0] == "int" else "f(%016x)" % n[1]


# ------------------------------------------------------------------ generators

DIG = "0123456789"
LAYOUTS = [" ", "  ", "\n", "\t", " \n ", "% c\n", "/* c */", "/**/", " /* * / **/ ", "\x0b", "\x0c", "\r\n"]
PLAIN_CHARS = "azAZ09_ !#$%&()*+,-./:;<=>?@[]^{|}~" + "\u00e9\u20ac\U0001f600\u0660\u00bd\u4e2d"
ODD_CHARS = "\t\n\r\x0b\x1f\x7f\u0085\u00a0\u2028\u3000\u1680\u200b"
ESCAPES = ["\\n", "\\t", "\\a", "\\b", "\\f", "\\v", "\\r", "\\\\", "\\'", "\\\"", "\\`", "\\0\\", "\\7\\",
           "\\101\\", "\\x41\\", "\\x20AC\\", "\\x1F600\\", "\\x10FFFF\\", "\\00000000000000101\\", "\\x0041\\",
           "\\377\\", "\\xfF\\", "\\xD7FF\\", "\\xE000\\"]
BAD_ESCAPES = ["\\e", "\\s", "\\z", "\\x\\", "\\xG\\", "\\x41", "\\101", "\\8", "\\xD800\\", "\\xDFFF\\",
               "\\x110000\\", "\\x100000000\\", "\\40000000000\\", "\\37777777777\\", "\\xFFFFFFFF\\", "\\", "\\\n", "\\x",
               "\\1a\\", "\\x4G\\", "\\ ", "\\N"]


def rdigits(rng, n, alphabet=DIG):
    return "".join(rng.choice(alphabet) for _ in range(n))


def gen_int_text(rng):
    k = rng.random()
    n = rng.choice([1, 1, 2, 3, 5, 9, 17, 18, 19, 20, 21, 40, 80])
    s = rdigits(rng, n)
    if k < 0.2:
        s = "0" * rng.randrange(1, 4) + s
    if k > 0.55 and n > 1:
        # digit groups
        parts, i = [], 0
        while i < len(s):
            j = i + rng.randrange(1, 5)
            parts.append(s[i:j])
            i = j
        sepr = lambda: "_" + (rng.choice(LAYOUTS) if rng.random() < 0.35 else "")
        out = parts[0]
        for p in parts[1:]:
            out += sepr() + p
        s = out
    return s


def gen_radix_text(rng):
    p = rng.choice(["0x", "0o", "0b"])
    alpha = {"0x": "0123456789abcdefABCDEF", "0o": "01234567", "0b": "01"}[p]
    n = rng.choice([1, 2, 3, 8, 15, 16, 17, 20, 33, 64, 70])
    return p + rdigits(rng, n, alpha)


def gen_char_text(rng):
    k = rng.random()
    if k < 0.35:
        return "0'" + rng.choice(PLAIN_CHARS)
    if k < 0.6:
        return "0'" + rng.choice(ESCAPES)
    if k < 0.72:
        return "0'" + rng.choice(["''", "\"", "`", "'", "''''", "'a"])
    if k < 0.88:
        return "0'" + rng.choice(BAD_ESCAPES)
    return "0'" + rng.choice(ODD_CHARS)


def exact_decimal(num, k2):
    """the decimal expansion of num / 2^k2 (exact)"""
    n = num * 5 ** k2
    s = str(n)
    if k2 >= len(s):
        s = "0" * (k2 - len(s) + 1) + s
    ip, fp = s[:len(s) - k2], s[len(s) - k2:]
    fp = fp.rstrip("0") or "0"
    return ip + "." + fp


def Vb(b):
    return b if b < (1 << 52) else ((1 << 52) + (b & ((1 << 52) - 1))) << ((b >> 52) - 1)


BOUNDARY_BITS = [0, 1, 2, (1 << 52) - 1, 1 << 52, (1 << 52) + 1, 0x3ff0000000000000, 0x3ff0000000000001,
                 0x3fefffffffffffff, 0x4330000000000000, 0x433fffffffffffff, 0x4340000000000000, 0x4340000000000001,
                 0x7fefffffffffffff, 0x7feffffffffffffe, 0x7fe0000000000000, 0x0010000000000001, 0x000fffffffffffff,
                 0x3fb999999999999a, 0x3fd5555555555555, 0x44b52d02c7e14af6, 0x3e7ad7f29abcaf48, 0x444b1ae4d6e2ef50,
                 0x4202a05f20000000, 0x3f50624dd2f1a9fc, 0x3eb0c6f7a0b5ed8d, 0x430c6bf526340000, 0x4341c37937e08000]


def rand_bits(rng):
    k = rng.random()
    if k < 0.2:
        return rng.choice(BOUNDARY_BITS)
    if k < 0.3:
        return rng.randrange(0, 1 << 52)                      # subnormal
    if k < 0.6:
        return rng.randrange(0x3e0 << 52, 0x440 << 52)          # everyday magnitudes
    if k < 0.7:
        # integers / short decimals
        return bits_of(float(rng.choice([rng.randrange(0, 10 ** 6), rng.randrange(0, 10 ** 17), rng.randrange(1, 1000) / 8,
                                         rng.randrange(1, 10 ** 4) / 100, 10.0 ** rng.randrange(-20, 30)])))
    return rng.randrange(0, 0x7ff << 52)


def midpoint_text(rng, b):
    """exact decimal of the midpoint between patterns b and b+1, sometimes nudged by one digit"""
    mid2 = Vb(b) + Vb(b + 1)          # = 2 * midpoint * 2^1074
    t = exact_decimal(mid2, 1075)
    j = rng.random()
    if j < 0.3:
        t = t + "1"
    elif j < 0.6 and t[-1] != "0":
        t = t[:-1] + str(int(t[-1]) - 1) + "9"
    return t


def to_exp_form(t, rng):
    """I.F -> d.ddd e X (same value)"""
    ip, fp = t.split(".")
    digs = (ip + fp).lstrip("0")
    if not digs:
        return t
    lead = len(ip + fp) - len(digs)
    e = len(ip) - lead - 1
    digs = digs.rstrip("0") or "0"
    return digs[0] + "." + (digs[1:] or "0") + rng.choice("eE") + (rng.choice(["", "+"]) if e >= 0 else "") + str(e)


def gen_float_text(rng):
    k = rng.random()
    if k < 0.22:
        b = rand_bits(rng)
        if b >= 0x7fe << 52 and rng.random() < 0.5:
            b = 0x7fefffffffffffff
        t = midpoint_text(rng, min(b, 0x7fefffffffffffff))
        if len(t) > 60 or rng.random() < 0.3:
            t = to_exp_form(t, rng) if rng.random() < 0.8 else t
        return t
    if k < 0.32:
        # the exact value of a double, or its shortest form
        b = rand_bits(rng)
        b = min(b, 0x7fefffffffffffff)
        return repr(float_of(b)) if rng.random() < 0.5 and "e" not in repr(float_of(b)) else to_exp_form(exact_decimal(Vb(b), 1074), rng)
    if k < 0.6:
        nd = rng.choice([1, 2, 5, 15, 16, 17, 18, 19, 20, 21, 25, 40])
        m = rdigits(rng, nd)
        e = rng.choice([rng.randrange(-345, 312), rng.randrange(-30, 30), rng.choice([-324, -323, -308, -307, 308, 309, 22, 23])])
        sgn = rng.choice(["", "", "+", "-"]) if e >= 0 else "-"
        return m[0] + "." + (m[1:] or "0") + rng.choice("eE") + sgn + ("0" * rng.choice([0, 0, 0, 2])) + str(abs(e))
    if k < 0.85:
        nd = rng.choice([2, 3, 6, 16, 17, 18, 19, 20, 21, 30])
        m = rdigits(rng, nd)
        p = rng.randrange(1, nd)
        return m[:p] + "." + m[p:]
    return rng.choice(["0.0", "0.0e0", "0.0e-0", "0.0e999999999999999999999", "1.0e999999999999999999999", "1.0e-999999999999999999999",
                       "0.0e-999999999999999999999", "00.00", "1.0e+0", "1.0E-0", "1.0e400", "1.0e309", "1.7976931348623157e308",
                       "1.7976931348623158e308", "1.7976931348623159e308", "179769313486231580793728971405303415079934132710037826936173778980444968292764750946649017977587207096330286416692887910946555547851940402630657488671505820681908902000708383676273854845817711531764475730270069855571366959622842914819860834936475292719074168444365510704342711559699508093042880177904174497791.999",
                       "4.9e-324", "2.4703282292062327e-324", "2.4703282292062328e-324", "2.2250738585072014e-308", "2.2250738585072011e-308",
                       "9007199254740993.0", "9007199254740992.5", "9007199254740993.00000000000000000001", "0.1", "0.30000000000000004",
                       "123456789012345678901234567890.0", "0.000000000000000000000000000001", "1.0e23", "8.5e22", "1.0e22", "5.0e-324", "1.0e-323"])


PREFIXES = ["", "", "", "", "-", "-", " ", "\n", "- ", " -", " - ", "/* c */", "% c\n", "-% c\n", "- /**/ ", "\t-\t", "+", "- -", "--",
            "'-'", "'-' ", " '\\x2d\\'", "'+'", "-/**/", "'--'", "-.", "\\"]


def gen_valid_text(rng):
    k = rng.random()
    if k < 0.22:
        body = gen_int_text(rng)
    elif k < 0.34:
        body = gen_radix_text(rng)
    elif k < 0.54:
        body = gen_char_text(rng)
    else:
        body = gen_float_text(rng)
    return rng.choice(PREFIXES) + body


MUT_POOL = "0123456789_.eE+-xob'\\ \n\t%/*aAgz\"`"


def mutate(rng, t):
    k = rng.random()
    if not t or k < 0.35:
        i = rng.randrange(0, len(t) + 1)
        return t[:i] + rng.choice(MUT_POOL) + t[i:]
    if k < 0.6:
        i = rng.randrange(0, len(t))
        return t[:i] + t[i + 1:]
    if k < 0.85:
        i = rng.randrange(0, len(t))
        return t[:i] + rng.choice(MUT_POOL) + t[i + 1:]
    return t + rng.choice([" ", ".", "e", "e+", "e5", "_", "_ ", "_/", "_/*", "_%", "x", "'", ".5", ". ", "\n", "a", "r2", "Inf", "NaN", ".0Inf"])


FIXED_MALFORMED = ["", " ", "\n", "-", "- ", "a", "-a", "A", "_", "_1", ".5", "-.5", "+1", "1e10", "1.e5", "1.", "1.0e", "1.0e+", "1.0e-", "1_",
                   "1__0", "1_a", "1_ ", "1_\n", "1_/", "1_/*", "1_/**/", "1_%", "1_% c\n", "1 _0", "0x", "0o", "0b", "0xg", "0o8", "0b2", "0'",
                   "0''", "0'\\", "0'\\x", "0'\\x4", "0'\\1", "12 ", "12\n", "1 2", "12.", "12.a", "1.5_0", "1r2", "1R2", "0x1_0", "0x1.0", "0X1F", "0B1",
                   "0O7", "00x1", "0_x1", "1.0Inf", "inf", "nan", "1.0e1.0", "1.0e1e1", "1.0.0", "1..0", "(1)", "[1]", "\"1\"", "'1'", "1,2", "1;2", "- - 1",
                   "-(1)", "- (1)", "1 .", "1.0 .", "!", ";", "[]", "{}", "0'a b", "0'ab", "0'\t", "0'\n", "'-'", "'-'a", "`1`", "1/**/", "1%", "1% c",
                   "/*", "/* c", "/", "%", "% c", "/ 1", "/**/", "1e", "1E5", "１２", "٣", "1٣", "½"]

SUFFIXES = ["", " ", "e a", "e+a", "e-a", "e", "e ", "E", "x g", "xg", "o 8", "o8", "b 2", "b2", ".e", ". ", ".a", "e+ 5", "e5", "e+5", "e-5",
            "E+5", ".5", ".5e3", "_", "_1", "_ 1", "'", "'a", "''", "x1", "xF", "o7", "b1", "b0b1", ".", "..", ".(", " e a", "x", "o", "b", "e+", "e-",
            "e+a", "e++a", "ee", "e.5", ".e5", "xx g", "r2"]
TOK_HEADS = ["0", "1", "00", "01", "10", "12", "0.0", "1.0", "1.5", "0.5e3", "1.5e+3", "1.5E-3", "0x1", "0xF", "0o7", "0b1", "0'a", "0''", "0'''",
             "0'\\n", "1_0", "0_1", "123456789012345678901234567890", "1.0e10", "1.0e", "1.0e+", "0'", "0'\\\\", "1__0", "0'e", "0'x", "0'0"]


def gen_int_value(rng):
    k = rng.random()
    if k < 0.35:
        p = rng.choice([0, 1, 7, 8, 15, 16, 31, 32, 52, 53, 54, 55, 56, 57, 62, 63, 64, 65, 127, 128, 255, 256, 1000])
        v = (1 << p) + rng.choice([-2, -1, 0, 1, 2])
    elif k < 0.5:
        v = 10 ** rng.choice([0, 1, 2, 9, 10, 17, 18, 19, 20, 21, 38, 39, 100]) + rng.choice([-1, 0, 1])
    elif k < 0.8:
        v = rng.randrange(0, 10 ** rng.choice([1, 3, 9, 16, 17, 19, 20, 30, 60, 150, 300]))
    else:
        v = rng.randrange(0, 1 << rng.choice([8, 56, 57, 64, 128, 512]))
    return -v if rng.random() < 0.45 else v


# ------------------------------------------------------------------ items -> lines

def model_lines(it):
    i = it["id"]
    if it["kind"] == "lit":
        f = ("\t" + drv_codes(it["text"])) if it["text"] else ""
        return ["num\t%s_m%s" % (i, f), "nump\t%s_p%s" % (i, f)]
    if it["kind"] == "tok":
        return ["tok\t%s_m\t%s" % (i, drv_codes(it["text"] + " ."))]
    if it["kind"] == "int":
        return ["show\t%s_m\t%d" % (i, it["value"])]
    return []


OPS = "[e,x,o,b]"


def impl_lines(it, mres):
    i = it["id"]
    out = ["Q\t%s_u\t1\tuse_module(library(charsio)), use_module(library(lists))." % i]
    if it["kind"] == "lit":
        t = it["text"]
        out.append("Q\t%s_nc\t1\tcatch(number_codes(N, %s), error(E,_), true)." % (i, pl_codes(t)))
        out.append("Q\t%s_nh\t1\tcatch(number_chars(N, %s), error(E,_), true)." % (i, esc_line(pl_chars_line(t))))
        m = model_num(mres.get(i + "_m", "missing"))
        if m[0] in ("int", "flt") or it.get("force_read"):
            out.append("Q\t%s_rd\t1\tcatch(read_term_from_chars(%s, N, []), error(E,_), true)." % (i, esc_line(pl_chars_line(t + " ."))))
        if m[0] in ("int", "flt") and it.get("consult") and "\x00" not in t:
            out.append("L\t%s_ld\tuser\t%s" % (i, esc_line("c16_%s(%s)." % (i, t))))
            out.append("Q\t%s_cq\t2\tc16_%s(N)." % (i, i))
    elif it["kind"] == "tok":
        t = it["text"]
        out.append("Q\t%s_rd\t1\top(700,xfx,%s), catch(read_term_from_chars(%s, N, []), error(E,_), true), op(0,xfx,%s)."
                   % (i, OPS, esc_line(pl_chars_line(t + " .")), OPS))
    elif it["kind"] == "int":
        v = it["value"]
        out.append("Q\t%s_q\t1\tN = %d, number_codes(N, C1), number_codes(M1, C1), number_chars(N, C2), number_chars(M2, C2), "
                   "write_term_to_chars(N, [quoted(true)], C3), append(C3, \" .\", C4), read_term_from_chars(C4, M3, [])." % (i, v))
        out.append("L\t%s_ld\tuser\tc16_%s(%d)." % (i, i, v))
        out.append("Q\t%s_cq\t2\tc16_%s(N)." % (i, i))
    elif it["kind"] == "flt":
        out.append("Q\t%s_q\t1\tX = %s, number_chars(X, C1), catch(number_chars(Y1, C1), error(E1,_), true), number_codes(X, C2), "
                   "catch(number_codes(Y2, C2), error(E2,_), true), write_term_to_chars(X, [quoted(true)], C3), append(C3, \" .\", C4), "
                   "catch(read_term_from_chars(C4, Y3, []), error(E3,_), true)." % (i, it["src"]))
    return out


def make_case(it, mres):
    return {"id": it["id"], "impl": impl_lines(it, mres)}


# ------------------------------------------------------------------ judging

def sig_digits(text):
    """significant digits of the mantissa of the (first) float literal in text"""
    m = re.search(r"([0-9]+)\.([0-9]+)", text)
    if not m:
        return 0
    return len((m.group(1) + m.group(2)).lstrip("0"))


def ulp_diff(a, b):
    sa, sb = a >> 63, b >> 63
    if sa != sb:
        return None
    return abs((a & ~(1 << 63)) - (b & ~(1 << 63)))


DEF_ROUND = "float-literal-not-correctly-rounded"
DEF_USCORE = "digit-group-underscore-at-end-of-text-accepted"
DEF_NCODES = "number_codes-prints-float-in-unreadable-exponent-form"


def mini_case(it):
    keep = {k: it[k] for k in it if k != "id" and not k.startswith("_")}
    return {"items": [keep]}


def classify_num(it, via, iv, m, mp, stats):
    """compare one implementation outcome with the model; returns (status, Finding|None)"""
    text = it["text"]
    if iv[0] == m[0] and (iv[0] == "err" or iv[1] == m[1]):
        if iv[0] == "err" and m[1] != "?" and iv[1] != m[1]:
            stats["err_kind_mismatch"] = stats.get("err_kind_mismatch", 0) + 1
            sig = {"family": "numlit", "via": via, "text": repr(text), "impl": "syntax_error(%s)" % iv[1], "model": "syntax_error(%s)" % m[1]}
            return "disagreement", core.Finding("disagreement", sig, "both reject the text but with different syntax_error kinds (mechanism changed?)", mini_case(it))
        return "agree", None
    base = {"family": "numlit", "via": via}
    if mp != m and iv[0] == mp[0] and iv[1] == mp[1]:
        sig = dict(base, defect=DEF_USCORE)
        return "known-shape", core.Finding("violation", sig,
                                           "%s accepts %r as %s although the reader rejects a digit group separator that is not followed by a digit"
                                           % (via, text, canon_num(iv)), mini_case(it))
    INF = 0x7ff0000000000000
    if (iv[0], m) == ("flt", ("err", "infinite_float")):      # overflow threshold: infinity is one step above the largest double
        m = ("flt", INF | (iv[1] & (1 << 63)))
    elif (m[0], iv) == ("flt", ("err", "infinite_float")):
        iv = ("flt", INF | (m[1] & (1 << 63)))
    if iv[0] == "flt" and m[0] == "flt":
        d = ulp_diff(iv[1], m[1])
        sd = sig_digits(text)
        sig = dict(base, defect=DEF_ROUND, ulps=str(d), digits=("over19" if sd > 19 else "upto19"))
        return "known-shape" if (d == 1 and sd > 19) else "violation", core.Finding(
            "violation", sig, "%s reads %r as %s; the correctly rounded double of the exact decimal value is %s"
            % (via, text if len(text) < 120 else text[:117] + "...", canon_num(iv), canon_num(m)), mini_case(it))
    exp = canon_num(m) if m[0] in ("int", "flt") else "syntax_error(%s)" % m[1]
    got = canon_num(iv) if iv[0] in ("int", "flt") else ("syntax_error(%s)" % iv[1] if iv[0] == "err" else iv[1][:120])
    sig = dict(base, text=repr(text), impl=got, expected=exp)
    return "violation", core.Finding("violation", sig, "%s on %r: implementation %s, exact value/acceptance per the grammar: %s" % (via, text, got, exp),
                                     mini_case(it))


def expected_tok_term(mres):
    """model `tok` answer -> canonical term the reader must produce for text ++ ' .', 'error', or None"""
    r = mres
    if r.startswith("err "):
        return "error"
    if r == "part" or "SELFCHECK" in r:
        return None
    m = re.fullmatch(r"(int (\d+)|flt ([0-9a-f]{16})|inf) rest ?([0-9 ]*)", r)
    if not m:
        return None
    if m.group(1) == "inf":
        return "error"
    val = m.group(2) if m.group(2) is not None else "f(%s)" % m.group(3)
    rest = "".join(chr(int(x)) for x in m.group(4).split()) if m.group(4) else ""
    # the text given to both sides ends with " ." (the end token)
    if rest.endswith(" ."):
        rest = rest[:-2]
    elif rest == ".":
        rest = ""
    else:
        return None
    if rest.strip(" \n\t") == "":
        return val
    mm = re.fullmatch(r"\s*([exob]) ([agz0-9])", rest)
    if mm:
        arg = mm.group(2)
        return "'%s'(%s,%s)" % (mm.group(1), val, arg if arg.isdigit() else "'%s'" % arg)
    mm = re.fullmatch(r"e([+-])([agz])", rest)
    if mm:
        return "'e'(%s,'%s'('%s'))" % (val, mm.group(1), mm.group(2))
    mm = re.fullmatch(r"e([+-]) ([0-9])", rest)
    if mm:
        # `+ 5` is the compound +(5); `- 5` is the number -5
        return "'e'(%s,%s)" % (val, "'+'(%s)" % mm.group(2) if mm.group(1) == "+" else "-" + mm.group(2))
    return None


def run(ctx):
    rng, tier = ctx["rng"], ctx["tier"]
    rep = diff.replay_case(ctx)
    items = []
    if rep is not None:
        for c in rep:
            items += [dict(it) for it in c.get("items", [])]
    else:
        for c in diff.load_corpus("C16"):
            items += [dict(it) for it in c.get("items", [])]
        n_lit, n_mal, n_tok, n_int, n_flt = (1500, 700, 500, 300, 700) if tier == "quick" else (28000, 14000, 4000, 4000, 20000)
        for t in FIXED_MALFORMED:
            items.append({"kind": "lit", "text": t, "cls": "fixed-malformed", "force_read": False})
        for b in ESCAPES + BAD_ESCAPES:
            items.append({"kind": "lit", "text": "0'" + b, "cls": "escape", "consult": True})
        for c in PLAIN_CHARS + ODD_CHARS + "'\"`\\":
            items.append({"kind": "lit", "text": "0'" + c, "cls": "char", "consult": True})
        for _ in range(n_lit):
            items.append({"kind": "lit", "text": gen_valid_text(rng), "cls": "grammar", "consult": rng.random() < 0.3})
        for _ in range(n_mal):
            t = gen_valid_text(rng)
            for _ in range(rng.choice([1, 1, 1, 2])):
                t = mutate(rng, t)
            items.append({"kind": "lit", "text": t, "cls": "mutated"})
        heads = list(TOK_HEADS)
        for h in TOK_HEADS:
            for s in SUFFIXES:
                items.append({"kind": "tok", "text": h + s, "cls": "tok-grid"})
        for _ in range(n_tok):
            k = rng.random()
            h = gen_int_text(rng) if k < 0.25 else gen_radix_text(rng) if k < 0.4 else gen_char_text(rng) if k < 0.55 else gen_float_text(rng)
            if len(h) > 400:
                continue
            items.append({"kind": "tok", "text": h + rng.choice(SUFFIXES), "cls": "tok-random"})
        for v in [0, 1, -1, 9, 10, -10, (1 << 55) - 1, 1 << 55, -(1 << 55), -(1 << 55) - 1, (1 << 63) - 1, 1 << 63, -(1 << 63), -(1 << 63) - 1, 1 << 64]:
            items.append({"kind": "int", "value": v, "cls": "int-boundary"})
        for _ in range(n_int):
            items.append({"kind": "int", "value": gen_int_value(rng), "cls": "int"})
        for b in BOUNDARY_BITS:
            for s in (0, 1):
                if b == 0 and s:
                    continue
                items.append({"kind": "flt", "bits": b | (s << 63), "cls": "flt-boundary"})
        items.append({"kind": "flt", "bits": 0, "src": "-0.0", "cls": "flt-negzero"})
        for _ in range(n_flt):
            b = min(rand_bits(rng), 0x7fefffffffffffff)
            items.append({"kind": "flt", "bits": b | (rng.choice([0, 0, 1]) << 63), "cls": "flt"})
    items = [it for it in items if "\x00" not in it.get("text", "")]
    for k, it in enumerate(items):
        it["id"] = "i%d" % k
        if it["kind"] == "flt" and "src" not in it:
            f = float_of(it["bits"])
            r = repr(f)
            if "e" in r and "." not in r.split("e")[0]:
                r = r.replace("e", ".0e")
            if "inf" in r or "nan" in r:
                r = "1.0"
                it["bits"] = bits_of(1.0)
            it["src"] = r.replace("e+", "e")
            if it["bits"] == 1 << 63:       # -0.0 is the number 0.0 (see ASSUMPTIONS)
                it["bits"] = 0

    t0 = time.time()
    # phase 1: the model
    _, mres = diff.run_cases([{"id": it["id"], "impl": [], "model": model_lines(it)} for it in items])
    # phase 2: the implementation
    cases = [make_case(it, mres) for it in items]
    impl, _ = diff.run_cases(cases, impl_env=IMPL_ENV)
    flaky = [c for c in cases if any(transient(impl.get(core.line_id(l), "missing")) for l in c["impl"])]
    retried = len(flaky)
    if flaky:
        impl2, _ = diff.run_cases(flaky[:3000], impl_env=IMPL_ENV, parallel=False)
        impl.update(impl2)
    t_impl = time.time() - t0

    # phase 3: the printed float texts go back to the model
    fpr_lines = []
    for it in items:
        if it["kind"] != "flt":
            continue
        b = bindings(impl.get(it["id"] + "_q", "missing"))
        it["_b"] = b
        if not b:
            continue
        x = num_of(b.get("X"))
        if not x or x[0] != "flt":
            continue
        it["_x"] = x[1]
        for j, var in enumerate(("C1", "C2", "C3")):
            txt = unq_string(b.get(var, ""))
            it["_t%d" % j] = txt
            if txt:
                fpr_lines.append("fpr\t%s_f%d\t%016x\t%s" % (it["id"], j, x[1], drv_codes(txt)))
    _, fres = diff.run_cases([{"id": "fpr", "impl": [], "model": fpr_lines}]) if fpr_lines else ({}, {})
    core.log("[C16] correspondence run: %d items, %.1fs, %d retried" % (len(items), time.time() - t0, retried))

    findings, agree, total = [], 0, 0
    stats, per_cls, known_shape, distinct = {}, {}, {}, set()
    branches = {"int_groups": 0, "int_group_layout": 0, "radix": 0, "char_plain": 0, "char_escape": 0, "float_exp": 0, "float_over19_digits": 0,
                "float_subnormal_result": 0, "float_overflow": 0, "negative": 0, "leading_layout": 0, "model_accepts": 0, "model_rejects": 0,
                "tok_split_observed": 0, "tok_unobserved": 0}
    err_kinds = {}

    def record(status, f, it):
        nonlocal agree
        if status == "agree":
            agree += 1
        else:
            if status == "known-shape":
                d = f.sig.get("defect", "?")
                known_shape[d] = known_shape.get(d, 0) + 1
            findings.append(f)

    for it in items:
        per_cls[it["cls"]] = per_cls.get(it["cls"], 0) + 1
        i = it["id"]
        if it["kind"] == "lit":
            t = it["text"]
            m = model_num(mres.get(i + "_m", "missing"))
            mp = model_num(mres.get(i + "_p", "missing"))
            if "SELFCHECK" in mres.get(i + "_m", "") or m[0] == "other":
                total += 1
                findings.append(core.Finding("disagreement", {"family": "numlit", "model_internal": "selfcheck", "text": repr(t)},
                                             "the model's rne result fails its own specification rneOK (model defect)", mini_case(it)))
                continue
            if m[0] == "err":
                branches["model_rejects"] += 1
                err_kinds[m[1]] = err_kinds.get(m[1], 0) + 1
            else:
                branches["model_accepts"] += 1
                distinct.add(t)
                if m[0] == "flt" and m[1] & ~(1 << 63) < (1 << 52) and m[1] & ~(1 << 63):
                    branches["float_subnormal_result"] += 1
                if re.search(r"[0-9]_", t):
                    branches["int_groups"] += 1
                    if re.search(r"_[^0-9]", t):
                        branches["int_group_layout"] += 1
                if re.search(r"0[xob][0-9a-fA-F]", t):
                    branches["radix"] += 1
                if "0'\\" in t:
                    branches["char_escape"] += 1
                elif "0'" in t:
                    branches["char_plain"] += 1
                if m[0] == "flt" and re.search(r"[eE]", t):
                    branches["float_exp"] += 1
                if m[0] == "flt" and sig_digits(t) > 19:
                    branches["float_over19_digits"] += 1
                if t.lstrip(" \n\t").startswith("-") or t.lstrip().startswith("'"):
                    branches["negative"] += 1
                if t[:1] in " \n\t/%":
                    branches["leading_layout"] += 1
            if m == ("err", "infinite_float"):
                branches["float_overflow"] += 1
            vias = [("number_codes", "_nc"), ("number_chars", "_nh")]
            if i + "_rd" in impl and m[0] in ("int", "flt"):
                vias.append(("read_term", "_rd"))
            if i + "_cq" in impl:
                vias.append(("consult", "_cq"))
            for via, sfx in vias:
                total += 1
                iv = impl_num(impl.get(i + sfx, "missing"))
                status, f = classify_num(it, via, iv, m, mp, stats)
                if rep is not None:
                    print("replay %r via %s: impl=%s model=%s pinned-model=%s -> %s" % (t, via, iv, m, mp, status))
                record(status, f, it)
        elif it["kind"] == "tok":
            total += 1
            exp = expected_tok_term(mres.get(i + "_m", "missing"))
            ans = impl.get(i + "_rd", "missing")
            b = bindings(ans)
            if "SELFCHECK" in mres.get(i + "_m", ""):
                findings.append(core.Finding("disagreement", {"family": "numtok", "model_internal": "selfcheck", "text": repr(it["text"])},
                                             "model self-check failed", mini_case(it)))
                continue
            got = "error" if (b is not None and "E" in b and "syntax_error" in b["E"]) else (b.get("N") if b else None)
            if rep is not None:
                print("replay tok %r: impl=%s model=%s expected=%s" % (it["text"], ans, mres.get(i + "_m"), exp))
            if exp is None:
                branches["tok_unobserved"] += 1
                agree += 1
                continue
            branches["tok_split_observed"] += 1
            distinct.add("tok:" + it["text"])
            if got == exp:
                agree += 1
                continue
            # float rounding defect seen through the reader
            fg, fe = re.findall(r"f\([0-9a-f]{16}\)", got or ""), re.findall(r"f\([0-9a-f]{16}\)", exp)
            mg = me = None
            if len(fg) == 1 and len(fe) == 1 and (got or "").replace(fg[0], "F") == exp.replace(fe[0], "F"):
                mg, me = num_of(fg[0]), num_of(fe[0])
            if mg and me and mg[0] == "flt" and me[0] == "flt":
                status, f = classify_num(it, "read_term", mg, me, me, stats)
                record(status, f, it)
                continue
            sig = {"family": "numtok", "text": repr(it["text"]), "impl": str(got)[:100], "expected": exp}
            findings.append(core.Finding("violation", sig,
                                         "the reader does not split %r at the end of the maximal numeric literal (expected term %s, got %s)"
                                         % (it["text"], exp, str(got)[:100]), mini_case(it)))
        elif it["kind"] == "int":
            total += 1
            v = it["value"]
            distinct.add("int:%d" % v)
            mtxt = "".join(chr(int(x)) for x in mres.get(i + "_m", "").split())
            b = bindings(impl.get(i + "_q", "missing")) or {}
            cq = bindings(impl.get(i + "_cq", "missing")) or {}
            texts = [unq_string(b.get(k, "?")) for k in ("C1", "C2", "C3")]
            backs = [b.get("M1"), b.get("M2"), b.get("M3"), cq.get("N")]
            ok = mtxt == str(v) and all(t == mtxt for t in texts) and all(x == str(v) for x in backs)
            if rep is not None:
                print("replay int %d: texts=%s backs=%s model=%r" % (v, texts, backs, mtxt))
            if ok:
                agree += 1
            else:
                sig = {"family": "numtext", "kind": "integer", "value": str(v)[:60], "texts": "|".join(str(t)[:40] for t in texts), "back": "|".join(str(x)[:40] for x in backs)}
                findings.append(core.Finding("violation" if mtxt == str(v) else "disagreement", sig,
                                             "integer -> text -> integer is not the identity, or the text is not the decimal representation", mini_case(it)))
        else:
            b = it.get("_b")
            if not b or "_x" not in it:
                total += 1
                findings.append(core.Finding("disagreement", {"family": "numtext", "kind": "float", "src": it["src"], "answer": impl.get(i + "_q", "missing")[:160]},
                                             "float round-trip query did not produce bindings", mini_case(it)))
                continue
            x = it["_x"]
            distinct.add("flt:%016x" % x)
            if x != it["bits"]:
                total += 1
                status, f = classify_num(dict(it, text=it["src"]), "query_reader", ("flt", x), ("flt", it["bits"]), ("flt", it["bits"]), stats)
                record(status, f, it)
            for j, (via, cvar, yvar, evar) in enumerate((("number_chars", "C1", "Y1", "E1"), ("number_codes", "C2", "Y2", "E2"), ("write_term", "C3", "Y3", "E3"))):
                total += 1
                txt = it.get("_t%d" % j)
                fr = fres.get("%s_f%d" % (i, j), "missing")
                y = num_of(b.get(yvar))
                back_ok = y == ("flt", x)
                if rep is not None:
                    print("replay flt %016x via %s: text=%r model-check=%s impl-back=%s err=%s" % (x, via, txt, fr, b.get(yvar), b.get(evar)))
                if fr == "ok" and back_ok:
                    agree += 1
                    continue
                base = {"family": "numtext", "kind": "float", "via": via}
                if via == "number_codes" and txt and re.fullmatch(r"-?[0-9]+(\.[0-9]+)?e-?[0-9]+", txt) and fr != "ok":
                    # Rust `{:?}` exponent form: `1e21`, `1.5e-7`, `1.2e22` … ; reading it back must fail or differ
                    if re.fullmatch(r"-?[0-9]+e-?[0-9]+", txt) or not back_ok:
                        sig = dict(base, defect=DEF_NCODES)
                        record("known-shape", core.Finding("violation", sig,
                                                           "number_codes(%s, Cs) gives %r, which number_codes/2 itself (and the reader) does not read back as the same float (model: %s, implementation: %s %s)"
                                                           % (it["src"], txt, fr, b.get(yvar), b.get(evar)), mini_case(it)), it)
                        continue
                what = "text does not read back to the same float" if (not back_ok or fr.startswith("bits") or fr.startswith("noparse")) else "text is not the shortest that reads back"
                sig = dict(base, bits="%016x" % x, text=str(txt)[:60], model_check=fr, impl_back=str(b.get(yvar, b.get(evar)))[:60])
                findings.append(core.Finding("violation" if (not back_ok or fr != "notshortest") else "disagreement", sig, what, mini_case(it)))
    summary = {}
    for f in findings:
        k = "%s/%s/%s" % (f.kind, f.sig.get("family"), f.sig.get("defect", f.sig.get("via", "-")))
        summary[k] = summary.get(k, 0) + 1
    core.log("[C16] findings by class: %s" % summary)
    for f in [f for f in findings if "defect" not in f.sig][:15]:
        core.log("[C16]   %s %s" % (f.kind, f.detail[:300]))
    samples = [repr(it.get("text", it.get("value", it.get("src")))) for it in items[:: max(1, len(items) // 8)]][:8]
    return {
        "evaluations": total,
        "distinct_nontrivial": len(distinct),
        "rule": "lit: texts generated from the literal grammar (decimal with `_` groups and layout/comments after `_`, 0x/0o/0b, 0'c with every "
                "escape incl. ill-formed ones and non-ASCII/control characters, floats: midpoints between adjacent doubles ±1 digit, exact values, "
                "1–40 digit mantissas, exponents −345…311 and huge, subnormal/overflow boundaries) with layout/sign prefixes, plus single/double edit "
                "mutants and a fixed malformed list; each run through number_codes, number_chars and (when accepted) read_term_from_chars and a "
                "consulted fact. tok: literal × suffix grid + random, observed through the term the reader builds under ops e,x,o,b. int/flt: "
                "boundary-biased values through number_codes, number_chars, write_term_to_chars and back. non-trivial = the model accepts the text "
                "(lit), the split is observable (tok), or a number (int/flt); distinct by text/value",
        "samples": samples,
        "traces_validated_against_impl": agree,
        "disagreements_checked": total - agree,
        "retried_after_timeout": retried,
        "items_per_class": per_cls,
        "branches_hit": branches,
        "error_kinds_hit": err_kinds,
        "error_kind_mismatches": stats.get("err_kind_mismatch", 0),
        "known_defect_instances": known_shape,
        "impl_seconds": round(t_impl, 1),
        "exhaustive": False,
        "findings": findings,
    }
