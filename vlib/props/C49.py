"""C49 — Integer relation builtins enumerate exactly their relations.

between/3, succ/2, numlist/3 (library(between), library(iso_ext)) and length/2 (library(lists)):
every generated goal is run on the implementation (first n answers, errors caught as bindings)
and on the Lean model `Model/IntRel.lean` twice: the clause-by-clause *mechanism* model and the
closed-form *specification* (`Props/C49.lean` proves where the two coincide).  Answers are
canonicalised to the tuples of the relation, error formals to `err …`.
"""
import struct

from .. import core, diff

LEVEL = "proof"
TRUSTED_BASE = [
    "vlib/props/C49.py: rendering of an abstract goal to Prolog text and to the driver's tokens, and the canonicalisation of harness answers (bindings -> tuple of the relation; `_G` variables -> fresh<count> when pairwise distinct)",
    "Prolog control constructs used by the transcribed clauses (cut, if-then-else, findall/3, is/2, comparison, unification of integers/lists) are modelled by their textbook meaning",
    "a resource error surfaces through the library `run_query` API as a non-error ball (`exception(<goal>)`); it is canonicalised to `err res_memory`",
]
ASSUMPTIONS = [
    "no attributed variables and no cyclic lists in the arguments of length/2",
    "length/2 with a partial list and an integer length is only run for lengths up to 64 beyond the prefix, or of at least 2^55 (where the allocation is refused at once); the range in between would allocate gigabytes",
    "numlist/3 with an unbound bound is only run with the other bound and the list elements in -6..6 (the candidate enumeration starts at 0 and is linear in the magnitude)",
    "a goal that gives no further answer within SV_TIMEOUT_MS=1500 ms is reported as `hang` (used for 4-8 goals per run for which the mechanism model proves an unending search)",
]

P55, P63, P64 = 2 ** 55, 2 ** 63, 2 ** 64
SMALL = list(range(-3, 7))


def fbits(x):
    return "f(%016x)" % struct.unpack(">Q", struct.pack(">d", x))[0]


# ill-typed terms: (Prolog text, canonical harness text)
BAD = [
    ("a", "'a'"), ("inf", "'inf'"), ("infinite", "'infinite'"), ("1.0", fbits(1.0)), ("2.5", fbits(2.5)),
    ("-1.5", fbits(-1.5)), ("f(x)", "'f'('x')"), ("1+1", "'+'(1,1)"), ("[]", "[]"), ("[1]", "[1]"),
    ("\"3\"", "\"3\""), ("'3'", "'3'"), ("-(1)", "'-'(1)"), ("foo(1,2)", "'foo'(1,2)"), ("1.0e10", fbits(1.0e10)),
]


def rand_int(rng):
    """an integer near a boundary or a random 56..130-bit value (thorough tier variety)."""
    r = rng.random()
    if r < 0.6:
        return rng.choice(BOUNDARY)
    v = rng.getrandbits(rng.choice([56, 62, 63, 64, 65, 100, 130]))
    return v if rng.random() < 0.5 else -v


def boundary_ints():
    out = []
    for b in (0, P55, -P55, P63, -P63, P64, -P64, 2 ** 31, -2 ** 31, 2 ** 70):
        for d in (-2, -1, 0, 1, 2):
            out.append(b + d)
    return out


BOUNDARY = boundary_ints()


# ------------------------------------------------------------------ abstract arguments
# ('v', Name) | ('i', int) | ('b', index into BAD)

def p_arg(a):
    if a[0] == 'v':
        return a[1]
    if a[0] == 'i':
        return str(a[1]) if a[1] >= 0 else "(%d)" % a[1]
    return BAD[a[1]][0]


def m_arg(a, varids):
    if a[0] == 'v':
        return "v%d" % varids.setdefault(a[1], len(varids))
    if a[0] == 'i':
        return "i%d" % a[1]
    return "b%d" % a[1]


def is_big(v):
    return abs(v) >= P55 - 2


# ------------------------------------------------------------------ harness answer parsing

def split_top(s, sep=","):
    out, depth, cur, i, q = [], 0, [], 0, None
    while i < len(s):
        c = s[i]
        if q:
            cur.append(c)
            if c == "\\" and i + 1 < len(s):
                cur.append(s[i + 1])
                i += 1
            elif c == q:
                q = None
        elif c in "'\"":
            q = c
            cur.append(c)
        elif c in "([{":
            depth += 1
            cur.append(c)
        elif c in ")]}":
            depth -= 1
            cur.append(c)
        elif c == sep and depth == 0:
            out.append("".join(cur))
            cur = []
        else:
            cur.append(c)
        i += 1
    out.append("".join(cur))
    return out


def parse_bindings(item):
    """'{A=t,B=u}' -> dict; 'true' -> {}; None when it is not a binding set."""
    if item in ("true", "{}"):
        return {}
    if not (item.startswith("{") and item.endswith("}")):
        return None
    d = {}
    for part in split_top(item[1:-1]):
        name, eq, val = part.partition("=")
        if not eq:
            return None
        d[name] = val
    return d


def is_int_text(t):
    return t.lstrip("-").isdigit() and t not in ("", "-")


def parse_int_list(t):
    if t == "[]":
        return []
    if t.startswith("[") and t.endswith("]"):
        parts = split_top(t[1:-1])
        if all(is_int_text(p) for p in parts):
            return [int(p) for p in parts]
    return None


def fresh_list(t):
    """'[_G0,_G1]' -> 'fresh2' if the elements are pairwise distinct anonymous variables."""
    if t == "[]":
        return "fresh0"
    if t.startswith("[") and t.endswith("]"):
        parts = split_top(t[1:-1])
        if all(p.startswith("_G") and p[2:].isdigit() for p in parts) and len(set(parts)) == len(parts):
            return "fresh%d" % len(parts)
    return "raw:" + t


def canon_error(formal):
    if formal == "'instantiation_error'":
        return "err inst"
    pre = "'type_error'('integer',"
    if formal.startswith(pre) and formal.endswith(")"):
        cul = formal[len(pre):-1]
        for k, (_, canon) in enumerate(BAD):
            if canon == cul:
                return "err type_int b%d" % k
        return "err type_int ?" + cul
    pre = "'domain_error'('not_less_than_zero',"
    if formal.startswith(pre) and formal.endswith(")"):
        return "err dom_nlz " + formal[len(pre):-1]
    if formal == "'resource_error'('finite_memory')":
        return "err res_finite"
    if formal == "'resource_error'('memory')":
        return "err res_memory"
    return "err ?" + formal


def canon_impl(res, tuple_of):
    """harness result -> the driver's format. tuple_of(bindings) renders one answer."""
    if res is None:
        return "missing"
    if res == "timeout":
        return "hang"
    if res.startswith("exception(") or res.startswith("panic(") or res.startswith("abort("):
        # a resource error through run_query arrives as a ball that is the goal itself
        return "err res_memory" if res.startswith("exception('catch'(") else "raw:" + res
    items = res.split(" ;; ")
    if items == ["false", "..."]:       # answer limit 1: the harness counts `false` as an item
        return "false"
    out = []
    for k, it in enumerate(items):
        if it == "...":
            out.append("...")
            continue
        if it == "false":
            if k == 0 and len(items) == 1:
                return "false"
            if k == len(items) - 1:
                continue        # a last choice point that failed: determinism is not part of the property
            out.append("raw:false")
            continue
        b = parse_bindings(it)
        if b is None:
            out.append("raw:" + it)
            continue
        if "E" in b:
            if k == 0 and len(b) == 1:
                return canon_error(b["E"]) if len(items) == 1 or items[1:] == ["..."] else "raw:" + res
            out.append("raw:" + it)     # an error after an answer: none of the relations does that
            continue
        out.append(tuple_of(b))
    return " ;; ".join(out) if out else "false"


def canon_model(m):
    if m is None:
        return "missing"
    if m == "hang" or m.endswith(" ;; hang"):
        return "hang"       # a timeout on the implementation loses the answers before it
    return m


# ------------------------------------------------------------------ cases

def val_of(arg, b, name):
    if arg[0] == 'i':
        return str(arg[1])
    t = b.get(name)
    return t if t is not None and is_int_text(t) else "raw:%s" % t


def extra_bindings(b, allowed):
    return [k for k in b if k not in allowed]


def mk_between(cid, n, L, U, X):
    names = {}
    args = []
    for a, nm in ((L, "L"), (U, "U"), (X, "X")):
        args.append(('v', nm) if a[0] == 'v' else a)
    L, U, X = args
    goal = "between(%s,%s,%s)" % (p_arg(L), p_arg(U), p_arg(X))
    ids = {}
    margs = "\t".join(m_arg(a, ids) for a in (L, U, X))

    def tup(b):
        if extra_bindings(b, ["X"] if X[0] == 'v' else []):
            return "raw:%r" % b
        return val_of(X, b, "X")
    big = any(a[0] == 'i' and is_big(a[1]) for a in (L, U, X))
    mode = "".join("-" if a[0] == 'v' else ("+" if a[0] == 'i' else "?") for a in (L, U, X))
    return case(cid, "between", goal, n, "%d\t%s" % (n, margs), tup, mode, big, {})


def mk_succ(cid, n, I, S):
    I = ('v', "I") if I[0] == 'v' else I
    S = ('v', "S") if S[0] == 'v' else S
    goal = "succ(%s,%s)" % (p_arg(I), p_arg(S))
    ids = {}
    margs = "\t".join(m_arg(a, ids) for a in (I, S))

    def tup(b):
        if extra_bindings(b, [x[1] for x in (I, S) if x[0] == 'v']):
            return "raw:%r" % b
        return "%s|%s" % (val_of(I, b, "I"), val_of(S, b, "S"))
    big = any(a[0] == 'i' and is_big(a[1]) for a in (I, S))
    mode = "".join("-" if a[0] == 'v' else ("+" if a[0] == 'i' else "?") for a in (I, S))
    return case(cid, "succ", goal, n, "%d\t%s" % (n, margs), tup, mode, big, {})


def mk_numlist3(cid, n, L, U, Xs, fuel=None):
    """Xs: None (unbound) or a list of ints."""
    L = ('v', "L") if L[0] == 'v' else L
    U = ('v', "U") if U[0] == 'v' else U
    xs_text = "Xs" if Xs is None else "[%s]" % ",".join(str(x) for x in Xs)
    goal = "numlist(%s,%s,%s)" % (p_arg(L), p_arg(U), xs_text)
    ids = {}
    mxs = "v" if Xs is None else "l" + ",".join(str(x) for x in Xs)
    if fuel is None:
        mags = [abs(a[1]) for a in (L, U) if a[0] == 'i'] + [abs(x) for x in (Xs or [])]
        d = 2 * (max(mags) if mags else 0) + 2
        fuel = n + 4 + (d * d if (L[0] != 'i' and U[0] != 'i') else d)
    margs = "%d\t%d\t%s\t%s\t%s" % (n, fuel, m_arg(L, ids), m_arg(U, ids), mxs)

    def tup(b):
        allowed = [x[1] for x in (L, U) if x[0] == 'v'] + (["Xs"] if Xs is None else [])
        if extra_bindings(b, allowed):
            return "raw:%r" % b
        if Xs is None:
            lst = parse_int_list(b.get("Xs", "?"))
            xt = ",".join(str(x) for x in lst) if lst is not None else "raw:%s" % b.get("Xs")
        else:
            xt = ",".join(str(x) for x in Xs)
        return "%s|%s|%s" % (val_of(L, b, "L"), val_of(U, b, "U"), xt)
    big = any(a[0] == 'i' and is_big(a[1]) for a in (L, U))
    mode = "".join("-" if a[0] == 'v' else ("+" if a[0] == 'i' else "?") for a in (L, U)) + ("-" if Xs is None else "+")
    cls = {}
    if Xs is not None and (L[0] == 'v' or U[0] == 'v') and L[0] != 'b' and U[0] != 'b':
        cls["cls"] = "numlist3_unbound_bound_with_bound_list"
    return case(cid, "numlist3", goal, n, margs, tup, mode, big, cls)


ELEMS = ["a", "b", "1", "c", "foo", "0", "z", "-1"]


def mk_length(cid, n, k, tail, N, elem_vars=False):
    """tail: 'nil' | 'var' | 'same' (the tail is the variable N) | 'nonlist'."""
    N = ('v', "N") if N[0] == 'v' else N
    if tail == "same" and N[0] != 'v':
        tail = "var"
    nvars = 0
    elems = []
    for j in range(k):
        if elem_vars and j % 2 == 0:
            elems.append("A%d" % j)
            nvars += 1
        else:
            elems.append(ELEMS[j % len(ELEMS)])
    tt = {"nil": None, "var": "T", "same": "N", "nonlist": "b"}[tail]
    if k == 0:
        lst = "[]" if tt is None else tt
    else:
        lst = "[%s%s]" % (",".join(elems), "" if tt is None else "|" + tt)
    goal = "length(%s,%s)" % (lst, p_arg(N))
    # model variable numbering: tail var 0, N var 1 (0 when it is the tail), element vars after
    ids = {"T": 0}
    if tail == "same":
        ids["N"] = 0
    else:
        ids["N"] = 1
    mt = {"nil": "nil", "var": "var0", "same": "var0", "nonlist": "nonlist"}[tail]
    fresh = 2 + nvars
    margs = "%d\t%d\t%d\t%s\t%s" % (n, fresh, k, mt, m_arg(N, ids))

    def tup(b):
        allowed = (["N"] if N[0] == 'v' else []) + (["T"] if tail == "var" else [])
        if extra_bindings(b, allowed):
            return "raw:%r" % b
        if tail == "var":
            ext = fresh_list(b["T"]) if "T" in b else "raw:unbound"
        else:
            ext = "fresh0"
        return "%s|%s" % (val_of(N, b, "N"), ext)
    big = N[0] == 'i' and is_big(N[1])
    mode = {"nil": "list", "var": "partial", "same": "partial=N", "nonlist": "nonlist"}[tail] + ("-" if N[0] == 'v' else ("+" if N[0] == 'i' else "?"))
    cls = {}
    if N[0] == 'i' and N[1] < -P63:
        cls["cls"] = "length_int_below_i64_min"
    return case(cid, "length", goal, n, margs, tup, mode, big, cls)


def case(cid, pred, goal, n, margs, tup, mode, big, cls):
    q = "catch(%s, error(E,_), true)." % goal
    lib = {"between": "between", "numlist3": "between", "succ": "iso_ext", "length": "lists"}[pred]
    c = {"id": cid, "pred": pred, "goal": goal, "mode": mode, "n": n, "big": big,
         "impl": ["Q\tu%s\t1\tuse_module(library(%s))." % (cid, lib), "Q\t%s\t%d\t%s" % (cid, n, q)],
         "model": ["%s\t%s\t%s" % (pred, cid, margs), "%s_spec\ts%s\t%s" % (pred, cid, margs)],
         "margs": margs}
    c.update(cls)
    c["_tup"] = tup
    return c


I = lambda v: ('i', v)
V = ('v', "_")
B = lambda k: ('b', k)


def gen_cases(rng, tier):
    cases = []
    hang_cases = []
    cnt = [0]

    def cid():
        cnt[0] += 1
        return "k%d" % cnt[0]
    thorough = tier == "thorough"

    # ---- between
    small_triples = [(l, u, x) for l in SMALL for u in SMALL for x in SMALL + [None]]
    if not thorough:
        small_triples = rng.sample(small_triples, 500)
    for l, u, x in small_triples:
        cases.append(mk_between(cid(), 16, I(l), I(u), V if x is None else I(x)))
    for _ in range(2000 if thorough else 60):     # answer limit below the number of answers
        l = rng.choice(SMALL + BOUNDARY)
        cases.append(mk_between(cid(), rng.choice([1, 2, 3, 5]), I(l), I(l + rng.choice([0, 1, 2, 4, 6, 9])), V))
    for a in ([V] + [I(v) for v in (-1, 0, 3, P64)]):          # unbound bounds: every combination
        for b in ([V] + [I(v) for v in (-1, 0, 3, P64)]):
            for c in ([V] + [I(v) for v in (0, 3)] + [B(0), B(3)]):
                if a[0] == 'v' or b[0] == 'v':
                    cases.append(mk_between(cid(), 8, a, b, c))
    for _ in range(12000 if thorough else 350):
        base = rand_int(rng) if thorough else rng.choice(BOUNDARY)
        span = rng.choice([-2, -1, 0, 1, 2, 3, 5, 9])
        l, u = base, base + span
        r = rng.random()
        if r < 0.5:
            x = V
        else:
            x = I(l + rng.choice([-2, -1, 0, 1, span - 1, span, span + 1, span + 2]))
        cases.append(mk_between(cid(), 16, I(l), I(u), x))
    for _ in range(1500 if thorough else 80):     # upper bound out of reach: first 8 answers
        l = rng.choice(BOUNDARY + SMALL)
        u = l + rng.choice([P64, 2 ** 70, P55, 10 ** 30, 1000])
        cases.append(mk_between(cid(), 8, I(l), I(u), V))
    argpool = [V] + [I(v) for v in (-1, 0, 2, P64, -P64)] + [B(k) for k in range(len(BAD))]
    for _ in range(6000 if thorough else 300):   # ill-typed / unbound arguments
        a = [rng.choice(argpool) for _ in range(3)]
        if all(x[0] == 'i' for x in a[:2]) and a[2][0] != 'b':
            a[rng.randrange(2)] = rng.choice([V] + [B(k) for k in range(len(BAD))])
        cases.append(mk_between(cid(), 8, *a))

    # ---- succ
    pool = [V] + [I(v) for v in SMALL] + [B(0), B(3), B(6)]
    pairs = [(a, b) for a in pool for b in pool]
    if not thorough:
        pairs = rng.sample(pairs, 120)
    for a, b in pairs:
        cases.append(mk_succ(cid(), 4, a, b))
    for _ in range(8000 if thorough else 250):
        i = rand_int(rng) if thorough else rng.choice(BOUNDARY)
        r = rng.random()
        if r < 0.3:
            a, b = I(i), V
        elif r < 0.6:
            a, b = V, I(i)
        elif r < 0.85:
            a, b = I(i), I(i + rng.choice([1, 1, 0, 2, -1]))
        else:
            a, b = rng.choice([I(i), B(rng.randrange(len(BAD)))]), rng.choice([B(rng.randrange(len(BAD))), I(i), V])
        cases.append(mk_succ(cid(), 4, a, b))

    # ---- numlist/3
    def perturb(xs):
        xs = list(xs)
        r = rng.random()
        if r < 0.4 or not xs:
            return xs
        k = rng.randrange(len(xs))
        if r < 0.55:
            del xs[k]
        elif r < 0.7:
            xs[k] += rng.choice([-1, 1])
        elif r < 0.8:
            xs.append(xs[-1] + rng.choice([0, 1, 2]))
        elif r < 0.9:
            xs.insert(0, xs[0] - rng.choice([0, 1]))
        else:
            xs = []
        return xs
    lu = [(l, u) for l in SMALL for u in SMALL]
    for l, u in (lu if thorough else rng.sample(lu, 60)):
        cases.append(mk_numlist3(cid(), 4, I(l), I(u), None))
        cases.append(mk_numlist3(cid(), 4, I(l), I(u), perturb(range(l, u + 1))))
    for _ in range(5000 if thorough else 120):
        l = rand_int(rng) if thorough else rng.choice(BOUNDARY)
        u = l + rng.choice([-1, 0, 1, 2, 4, 7])
        cases.append(mk_numlist3(cid(), 4, I(l), I(u), None if rng.random() < 0.5 else perturb(range(l, u + 1))))
    for _ in range(1500 if thorough else 60):
        a = [rng.choice(argpool), rng.choice(argpool)]
        if all(x[0] != 'b' for x in a):
            a[rng.randrange(2)] = B(rng.randrange(len(BAD)))
        cases.append(mk_numlist3(cid(), 4, a[0], a[1], rng.choice([None, [1, 2], []])))
    # unbound bounds, unbound list: first n answers of the unending enumeration
    for v in (SMALL if thorough else rng.sample(SMALL, 5)):
        cases.append(mk_numlist3(cid(), 8, I(v), V, None))
        cases.append(mk_numlist3(cid(), 8, V, I(v), None))
    cases.append(mk_numlist3(cid(), 8, V, V, None))
    cases.append(mk_numlist3(cid(), 40 if thorough else 20, V, V, None))
    # unbound bound(s), bound list: the relation has at most one tuple.
    # n = 1 with a matching list: the answer is found (safe); n = 2 or no match: the search goes on
    for _ in range(40 if thorough else 10):
        l = rng.choice(range(-4, 5))
        u = l + rng.choice([0, 1, 2, 3])
        xs = list(range(l, u + 1))
        m = rng.choice([(I(l), V), (V, I(u)), (V, V)])
        cases.append(mk_numlist3(cid(), 1, m[0], m[1], xs))
    hang_shapes = [(V, V, [2, 3], 2), (I(1), V, [1, 2, 3], 2), (V, I(3), [1, 2, 3], 2), (V, V, [1, 3], 1),
                   (I(1), V, [], 1), (V, V, [], 1), (I(2), V, [1, 2], 1), (V, I(-1), [-2, -1], 2)]
    for sh in (hang_shapes if thorough else hang_shapes[:3] + rng.sample(hang_shapes[3:], 1)):
        hang_cases.append(mk_numlist3(cid(), sh[3], sh[0], sh[1], sh[2]))

    # ---- length/2
    nvals = [V] + [I(v) for v in range(-3, 9)]
    shapes = [(k, t) for k in range(0, 6) for t in ("nil", "var", "nonlist", "same")]
    combos = [(k, t, nv) for (k, t) in shapes for nv in nvals]
    for k, t, nv in (combos if thorough else rng.sample(combos, 150)):
        cases.append(mk_length(cid(), 8, k, t, nv, elem_vars=rng.random() < 0.3))
    for k, t in shapes:                                        # unbound length: every shape
        cases.append(mk_length(cid(), rng.choice([1, 3, 8]), k, t, V, elem_vars=rng.random() < 0.5))
    for _ in range(10000 if thorough else 300):
        k, t = rng.choice(shapes)
        r = rng.random()
        if r < 0.6:
            v = rand_int(rng) if thorough else rng.choice(BOUNDARY)
            if t in ("var", "same") and 64 < v - k < P55 - 8:
                v = rng.choice([P55, P63, P64, -P64, -P63 - 1])
            nv = I(v)
        elif r < 0.85:
            nv = B(rng.randrange(len(BAD)))
        else:
            nv = rng.choice([V, I(k), I(k + 1), I(k - 1), I(k + 20)])
        cases.append(mk_length(cid(), 8, k, t, nv, elem_vars=rng.random() < 0.3))
    return cases, hang_cases


def nontrivial(c, mv):
    return c["big"] or mv.startswith("err") or " ;; " in mv or c["mode"].startswith("partial") or mv == "hang"


def strip(c):
    return {k: v for k, v in c.items() if not k.startswith("_")}


def rebuild(c):
    """re-create the answer canonicaliser of a stored case (replay / corpus)."""
    f = c["margs"].split("\t")

    def arg(tok):
        return V if tok[0] == 'v' else (I(int(tok[1:])) if tok[0] == 'i' else B(int(tok[1:])))
    p = c["pred"]
    if p == "between":
        return mk_between(c["id"], int(f[0]), arg(f[1]), arg(f[2]), arg(f[3]))
    if p == "succ":
        return mk_succ(c["id"], int(f[0]), arg(f[1]), arg(f[2]))
    if p == "numlist3":
        xs = None if f[4] == "v" else [int(x) for x in f[4][1:].split(",") if x]
        return mk_numlist3(c["id"], int(f[0]), arg(f[2]), arg(f[3]), xs, fuel=int(f[1]))
    if p == "length":
        tail = {"nil": "nil", "nonlist": "nonlist"}.get(f[3], "var")
        if tail == "var" and f[4] == "v0":
            tail = "same"
        return mk_length(c["id"], int(f[0]), int(f[2]), tail, arg(f[4]), elem_vars=int(f[1]) > 2)
    return c


def run(ctx):
    rng, tier = ctx["rng"], ctx["tier"]
    rep = diff.replay_case(ctx)
    if rep is not None:
        cases, hang_cases = [], []
        for c in rep:
            c2 = rebuild(c)
            (hang_cases if c.get("hang_probe") else cases).append(c2)
            if c.get("hang_probe"):
                c2["hang_probe"] = True
    else:
        cases, hang_cases = gen_cases(rng, tier)
        for c in diff.load_corpus("C49"):
            c2 = rebuild(c)
            (hang_cases if c.get("hang_probe") else cases).append(c2)
        for c in hang_cases:
            c["hang_probe"] = True
    impl, model = diff.run_cases(cases) if cases else ({}, {})
    if hang_cases:
        i2, m2 = diff.run_cases(hang_cases, impl_env={"SV_TIMEOUT_MS": "1500"})
        impl.update(i2)
        model.update(m2)
    # confirmation pass: every case whose first run does not match is run again, sequentially, on a
    # fresh harness process (hang probes with a longer limit); only a mismatch that persists is
    # reported (a starved worker on a loaded machine must not become a false alarm)
    retry, retry_hang = [], []
    for c in cases + hang_cases:
        iv = canon_impl(impl.get(c["id"]), c["_tup"])
        if not (iv == canon_model(model.get(c["id"])) == canon_model(model.get("s" + c["id"]))):
            (retry_hang if c.get("hang_probe") else retry).append(c)
    reruns = len(retry) + len(retry_hang)
    if retry:
        i3, _ = diff.run_cases([{"impl": c["impl"]} for c in retry], parallel=False)
        impl.update(i3)
    if retry_hang:
        i3, _ = diff.run_cases([{"impl": c["impl"]} for c in retry_hang], impl_env={"SV_TIMEOUT_MS": "5000"})
        impl.update(i3)
    findings, agree = [], 0
    distinct = set()
    by_pred, err_kinds, modes = {}, {}, {}
    hangs = 0
    fixed_seen = 0
    allc = cases + hang_cases
    for c in allc:
        i = c["id"]
        iv = canon_impl(impl.get(i), c["_tup"])
        mv = canon_model(model.get(i))
        sv = canon_model(model.get("s" + i))
        by_pred[c["pred"]] = by_pred.get(c["pred"], 0) + 1
        modes[c["pred"] + " " + c["mode"]] = modes.get(c["pred"] + " " + c["mode"], 0) + 1
        if mv.startswith("err"):
            ek = " ".join(mv.split(" ")[:2])
            err_kinds[ek] = err_kinds.get(ek, 0) + 1
        if mv == "hang":
            hangs += 1
        if nontrivial(c, mv):
            distinct.add(c["goal"] + "#%d" % c["n"])
        if rep is not None:
            print("replay %s (n=%d): impl=%s | model=%s | spec=%s" % (c["goal"], c["n"], iv, mv, sv))
        if iv == mv == sv:
            agree += 1
            continue
        if iv == sv and c.get("cls"):
            # a class in which the mechanism model mirrors a recorded defect of the pinned code
            # (C49-1, C49-2): the implementation meets the specification, i.e. it has been fixed
            fixed_seen += 1
            continue
        sig = {"family": "intrel", "pred": c["pred"], "mode": c["mode"], "cls": c.get("cls", "other"),
               "goal": c["goal"], "n": str(c["n"]), "impl": iv[:200], "spec": sv[:200], "model": mv[:200]}
        if iv != sv:
            findings.append(core.Finding(
                "violation", sig,
                "the implementation's answers/error differ from the relation's specification (spec = oracle; "
                "`hang` = no further answer and no termination within the time limit)", strip(c)))
        else:
            findings.append(core.Finding(
                "disagreement", sig,
                "mechanism model differs from implementation and specification (model defect or changed mechanism)",
                strip(c)))
    # unexpected findings first: the orchestration reports at most 12 distinct signatures
    findings.sort(key=lambda f: (f.sig["cls"] != "other", f.kind != "violation"))
    fclasses = {}
    for f in findings:
        key = "%s/%s/%s" % (f.kind, f.sig["pred"], f.sig["cls"])
        fclasses[key] = fclasses.get(key, 0) + 1
    samples = [c["goal"] for c in allc[:2]] + [c["goal"] for c in allc[len(allc) // 2: len(allc) // 2 + 2]] + [c["goal"] for c in allc[-3:]]
    return {
        "evaluations": len(allc),
        "distinct_nontrivial": len(distinct),
        "rule": "goals of between/3, succ/2, numlist/3, length/2 in all instantiation modes: arguments exhaustively (thorough) or sampled (quick) from -3..6, boundary integers {0,±2^31,±2^55,±2^63,±2^64,2^70}±2 with spans -2..9, unreachable upper bounds (first 8 answers), 15 ill-typed terms (atoms incl. inf, floats, compounds, lists, strings) and unbound variables in every position, lists with k<=5 cells and tail [] / variable / the length variable / non-list; non-trivial = an error, at least two answers, a partial list, a magnitude >= 2^55 or an unending search; distinct by goal text and answer limit",
        "samples": samples,
        "traces_validated_against_impl": agree,
        "disagreements_checked": len(allc) - agree,
        "by_predicate": by_pred,
        "modes_hit": modes,
        "error_kinds_hit": err_kinds,
        "unending_searches_probed": hangs,
        "cases_run_twice": reruns,
        "finding_classes": fclasses,
        "cases_in_recorded_defect_classes_meeting_the_spec": fixed_seen,
        "exhaustive": False,
        "findings": findings,
    }
