"""C51 — CSV parsing and writing follow the documented format (library(csv)).

One abstract case = (frame, write options, read options) or (raw text, read options).
Phase 0 asks the implementation how it prints the floats of the pool (`~w`), phase 1 runs the
Lean model (documented writer `W`, writer-as-the-code-stands `A`, reader on both, hypotheses
`WF` of the round-trip theorem), phase 2 runs the implementation: write_csv/2,3 to a scratch
file under build/tmp/C51/<run>/, read the file back as characters, parse_csv//1,2 on them and on
the model's documented text. Cases that lost their machine (timeout/abort under load) are run
again alone; every case about to be reported is run a second time and judged on the second run
(except the two open writer defects, recognised by the text being exactly what the model of the
present code predicts). See notes/design/C51.md.
"""
import os
import re
import shutil
import struct

from .. import core, diff

LEVEL = "proof"
TRUSTED_BASE = [
    "float fields are handled as lexemes: that `~w` prints a double as a lexeme which number_chars/2 reads back to the same double is not part of C51 (the lexemes of the pool are taken from the implementation at run time and must be float lexemes of the model)",
    "typing of unquoted tokens is modelled for the fragment [layout][-][layout]digits[.digits[(e|E)[+|-]digits]]; radix/char-code notations, digit groups and comments inside a token are not generated",
    "Python rendering of frames/options/texts to Prolog text and the parser of the harness' canonical answer syntax (vlib/props/C51.py)",
    "only the first solution of phrase/2 is observed (parse_csv//2 leaves choice points that repeat the same answer)",
]
ASSUMPTIONS = [
    "field texts avoid control characters other than TAB/LF/CR (how `~w` escapes them inside list syntax is not modelled; irrelevant to the documented format)",
    "scratch files are written below /verif/build/tmp/C51/ and removed after the run",
]

TMP = os.path.join(core.BUILD, "tmp", "C51")

# ------------------------------------------------------------------ encodings

def enc_text(s):
    return ".".join("%x" % ord(c) for c in s) if s else "_"


def dec_text(s):
    return "" if s == "_" else "".join(chr(int(w, 16)) for w in s.split("."))


def enc_field(f):
    k = f[0]
    if k == "N":
        return "N"
    if k == "S":
        return "S" + enc_text(f[1])
    if k == "I":
        return "I%d" % f[1]
    return "F" + enc_text(f[1])


def enc_row(r):
    return "[" + ",".join(enc_field(f) for f in r) + "]"


def enc_frame(h, rows):
    return "/".join([enc_row(h)] + [enc_row(r) for r in rows])


def dec_frame(s):
    """model frame text -> normal form (tuple of rows; floats by value)."""
    out = []
    for w in s.split("/"):
        inner = w[1:-1]
        row = []
        if inner:
            for f in inner.split(","):
                if f == "N":
                    row.append(("N",))
                elif f[0] == "S":
                    row.append(("S", dec_text(f[1:])))
                elif f[0] == "I":
                    row.append(("I", int(f[1:])))
                else:
                    row.append(("F", fval(float(dec_text(f[1:])))))
        out.append(tuple(row))
    return tuple(out)


def fval(x):
    return 0.0 if x == 0 else x          # the reader cannot produce -0.0 (number_chars("-0.0") is 0.0)


def enc_opts(o):
    return "%x %d %s %s" % (ord(o["sep"]), 1 if o["hdr"] else 0, enc_text(o["ls"]),
                            "-" if o["nv"] is None else enc_text(o["nv"]))


# ------------------------------------------------------------------ Prolog text

def pl_escape(s, q):
    out = []
    for c in s:
        if c == "\\":
            out.append("\\\\")
        elif c == q:
            out.append("\\" + q)
        elif c == "\n":
            out.append("\\n")
        elif c == "\r":
            out.append("\\r")
        elif c == "\t":
            out.append("\\t")
        else:
            out.append(c)
    return "".join(out)


def pl_string(s):
    return '"' + pl_escape(s, '"') + '"'


def pl_atom(s):
    return "'" + pl_escape(s, "'") + "'"


def pl_field(f):
    k = f[0]
    if k == "N":
        return "[]"
    if k == "S":
        return pl_string(f[1])
    if k == "I":
        return "%d" % f[1]
    return f[2]          # the lexeme used in the query text


def pl_row(r):
    return "[" + ",".join(pl_field(f) for f in r) + "]"


def pl_frame(h, rows):
    return "frame(%s,[%s])" % (pl_row(h), ",".join(pl_row(r) for r in rows))


def pl_wopts(o, rng):
    items = []
    if o["sep"] != "," or rng.random() < 0.3:
        items.append("token_separator(%s)" % pl_atom(o["sep"]))
    if not o["hdr"] or rng.random() < 0.3:
        items.append("with_header(%s)" % ("true" if o["hdr"] else "false"))
    if o["ls"] != "\n" or rng.random() < 0.3:
        items.append("line_separator(%s)" % pl_atom(o["ls"]))
    if o["nv"] is not None or rng.random() < 0.3:
        items.append("null_value(%s)" % ("empty" if o["nv"] is None else pl_atom(o["nv"])))
    rng.shuffle(items)
    return items


def pl_ropts(o, rng):
    items = []
    if o["sep"] != "," or rng.random() < 0.3:
        items.append("token_separator(%s)" % pl_atom(o["sep"]))
    if not o["hdr"] or rng.random() < 0.3:
        items.append("with_header(%s)" % ("true" if o["hdr"] else "false"))
    rng.shuffle(items)
    return items


def harness_escape(s):
    return s.replace("\\", "\\\\").replace("\n", "\\n").replace("\t", "\\t").replace("\r", "\\r")


def qline(i, goal):
    return "Q\t%s\t1\t%s" % (i, harness_escape(goal))


USE = "use_module(library(csv)), use_module(library(dcgs)), use_module(library(pio)), use_module(library(format))."


# ------------------------------------------------------------------ canonical answer parser

class P:
    def __init__(self, s):
        self.s, self.i = s, 0

    def peek(self):
        return self.s[self.i] if self.i < len(self.s) else ""

    def quoted(self, q):
        assert self.s[self.i] == q
        self.i += 1
        out = []
        while True:
            c = self.s[self.i]
            if c == "\\":
                d = self.s[self.i + 1]
                if d == "x":
                    j = self.s.index("\\", self.i + 2)
                    out.append(chr(int(self.s[self.i + 2:j], 16)))
                    self.i = j + 1
                else:
                    out.append(d)
                    self.i += 2
            elif c == q:
                self.i += 1
                return "".join(out)
            else:
                out.append(c)
                self.i += 1

    def term(self):
        c = self.peek()
        if c == '"':
            return ("str", self.quoted('"'))
        if c == "'":
            name = self.quoted("'")
            if self.peek() == "(":
                return ("cmp", name, self.args(")"))
            return ("atom", name)
        if c == "[":
            return ("list", self.args("]"))
        m = re.compile(r"f\(([0-9a-f]{16})\)").match(self.s, self.i)
        if m:
            self.i = m.end()
            return ("flt", struct.unpack(">d", bytes.fromhex(m.group(1)))[0])
        m = re.compile(r"-?[0-9]+").match(self.s, self.i)
        if m:
            self.i = m.end()
            return ("int", int(m.group(0)))
        m = re.compile(r"[A-Za-z_][A-Za-z0-9_]*(\([^)]*\))?").match(self.s, self.i)
        self.i = m.end()
        return ("other", m.group(0))

    def args(self, close):
        self.i += 1
        out = []
        if self.peek() == close:
            self.i += 1
            return out
        while True:
            out.append(self.term())
            c = self.peek()
            self.i += 1
            if c == close:
                return out
            assert c == ",", (self.s, self.i)


def parse_answer(text, var="R"):
    """'{A=term,R=term} ;; ...' -> the term bound to `var` in the first answer, or ('raw', text)."""
    if text.startswith("{"):
        try:
            p = P(text)
            p.i = 1
            while True:
                m = re.compile(r"[A-Za-z_][A-Za-z0-9_]*=").match(p.s, p.i)
                name = m.group(0)[:-1]
                p.i = m.end()
                t = p.term()
                if name == var:
                    return t
                if p.peek() != ",":
                    break
                p.i += 1
        except Exception:
            pass
    return ("raw", text)


def as_text(t):
    if t[0] == "str":
        return t[1]
    if t == ("list", []):
        return ""
    return None


def field_nf(t):
    if t == ("list", []):
        return ("N",)
    if t[0] == "str":
        return ("S", t[1])
    if t[0] == "int":
        return ("I", t[1])
    if t[0] == "flt":
        return ("F", fval(t[1]))
    return ("?", repr(t))


def row_nf(t):
    if t[0] == "list":
        return tuple(field_nf(f) for f in t[1])
    if t[0] == "str":           # a row made only of one-character atoms cannot come out of the reader
        return ("?", repr(t))
    return ("?", repr(t))


def frame_nf(t):
    """'frame'(H, Rows) term -> normal form (header row first)."""
    if t[0] == "cmp" and t[1] == "frame" and len(t[2]) == 2:
        h, rs = t[2]
        if rs[0] == "list":
            return tuple([row_nf(h)] + [row_nf(r) for r in rs[1]])
    return ("?", repr(t))


def table_nf(h, rows):
    def f(x):
        if x[0] == "F":
            return ("F", fval(float(x[1])))
        return tuple(x[:2])
    return tuple([tuple(f(x) for x in h)] + [tuple(f(x) for x in r) for r in rows])


# ------------------------------------------------------------------ generators

FLOAT_POOL = ["2.5", "0.1", "100.0", "-2.5", "0.0", "123456.789", "1.5e-10", "1.0e16", "1.0e100",
              "3.141592653589793", "1.0e-5", "-0.001", "5.0e-324", "1.7976931348623157e308",
              "1000000000000000.0", "-1.0e22", "0.30000000000000004", "12.0"]

ALPHA = list('""",,;;|: \t\n\r\r\nab Z019.-e+\'\\[]é日😀%_x')
SPECIAL = ['"', '""', ',', '","', "\r\n", "\n", " 12", "12 ", "12", "1.5", "-3", " x ", "a b", "a,b", 'say "hi"',
           "l1\nl2", "l1\r\nl2", "é", "日本", "😀", "0", "-", "1e5", "[a,b]", "'q'", "\\N", "x\\", "\t", " ", "true", "[]",
           "1.0e10", "-0.5", "+1", "007", ";", "|"]
SEPS = [",", ",", ",", ",", ";", ";", "|", "\t", " ", ":", "x"]
ODD_SEPS = ['"', "1", "-", ".", "e", "\n", "0"]
LSEPS = ["\n", "\n", "\n", "\r\n", "\r\n", "\r"]
ODD_LSEPS = [";", "\n\n", "", "|", "\r\n\r\n", " "]
NULLS = ["\\N", "NULL", "NA", "0", "-", "n/a", "null", '""', " "]
INTS = [0, 1, -1, 2, 7, 10, 42, -17, 100, 255, 2 ** 31, -2 ** 63, 2 ** 64, 10 ** 30, -10 ** 25 - 7, 99, 1000000]


def gen_str(rng):
    if rng.random() < 0.45:
        return rng.choice(SPECIAL)
    return "".join(rng.choice(ALPHA) for _ in range(rng.choice([1, 1, 2, 2, 3, 4, 6])))


def gen_field(rng, pool, p_null=0.15):
    x = rng.random()
    if x < p_null:
        return ("N",)
    if x < 0.65 or not pool:
        return ("S", gen_str(rng))
    if x < 0.85:
        return ("I", rng.choice(INTS) if rng.random() < 0.7 else rng.randint(-10 ** 6, 10 ** 6))
    q = rng.choice(pool)
    return ("F", q[1], q[0])            # (kind, lexeme as printed by ~w, lexeme in the query text)


def gen_opts(rng, odd):
    o = {"sep": rng.choice(SEPS), "hdr": rng.random() < 0.6, "ls": rng.choice(LSEPS), "nv": None}
    if odd:
        k = rng.randrange(4)
        if k == 0:
            o["sep"] = rng.choice(ODD_SEPS)
        elif k == 1:
            o["ls"] = rng.choice(ODD_LSEPS)
        else:
            o["nv"] = rng.choice(NULLS)
    return o


def gen_table_case(rng, pool, kind):
    """kind: 'wf' (hypotheses of the theorem intended to hold), 'nostr' (no string fields: the
    writer's open defect is not in the way), 'odd' (odd options / shapes), 'mixed' read options."""
    odd = kind == "odd"
    o = gen_opts(rng, odd and rng.random() < 0.7)
    w = rng.choice([1, 1, 2, 2, 3, 3, 4])
    n = rng.choice([0, 1, 1, 2, 2, 3, 4])

    def fld():
        if kind == "nostr":
            x = rng.random()
            if x < 0.25:
                return ("N",)
            if x < 0.7 or not pool:
                return ("I", rng.choice(INTS) if rng.random() < 0.7 else rng.randint(-10 ** 6, 10 ** 6))
            q = rng.choice(pool)
            return ("F", q[1], q[0])
        return gen_field(rng, pool)

    def mkrow(width):
        r = [fld() for _ in range(width)]
        if not odd and len(r) == 1 and r[0] == ("N",):      # a lone empty field is "no line"
            r = [("I", 0)] if kind == "nostr" else [("S", gen_str(rng))]
        return r

    h = mkrow(w)
    rows = []
    for _ in range(n):
        ww = w
        if odd and rng.random() < 0.3:
            ww = rng.choice([0, 1, 2, 3, 4, 5])
        elif rng.random() < 0.08:
            ww = rng.choice([1, 2, 3, 4])      # ragged rows are fine for both directions
        rows.append(mkrow(ww) if ww else [])
    if odd and rng.random() < 0.1:
        h = []
    ro = {"sep": o["sep"], "hdr": o["hdr"]}
    if kind == "mixed":
        if rng.random() < 0.5:
            ro["hdr"] = not ro["hdr"]
        else:
            ro["sep"] = rng.choice([s for s in SEPS if s != o["sep"]])
    return {"kind": "rt", "gen": kind, "h": h, "rows": rows, "wo": o, "ro": ro}


RAW_FIELDS = ["a", "abc", "12", " 12", "12 ", "-3", "- 3", "1.5", "1.5e3", "1.5E-3", "2.50", "007", "+1", "1e5", ".5", "5.",
              '"q"', '"a""b"', '"x,y"', '"x;y"', '"l1\nl2"', '"l1\r\nl2"', '""', '""""', "", "", 'x"y', '"abc"def', '"open',
              " ", "é", '"日本"', "a b", " - 1.5", "\t7", "1 2", "--1", "-", "1.5e", "1.5e+", "12345678901234567890",
              "-0.0", "0.0", "1.0e10", '"', '" "', "'q'", "[a,b]"]
RAW_EOL = ["\n", "\n", "\n", "\r\n", "\r\n", "\r", "\n\n", "\r\r\n", "\n\r", "\r\n\r\n", "\r\n\n"]
SOUP = list('aa1122,,,;""""\n\n\r  .-e')
NUMSOUP = list("0011199...--+eE  \t")
BIGEXP = re.compile(r"[eE][+-]?[0-9]{3,}")


def num_token(rng):
    """number-looking token over digits . - + e E blank tab (no exponent of 3+ digits: overflow is not modelled)"""
    while True:
        if rng.random() < 0.5:
            t = "".join(rng.choice(NUMSOUP) for _ in range(rng.choice([1, 2, 2, 3, 3, 4, 5, 6, 7])))
        else:
            t = rng.choice(["", " ", "\t", "  "]) + rng.choice(["", "-", "-", "- ", "+", "--"]) + \
                rng.choice(["0", "7", "12", "007", "190"]) + \
                rng.choice(["", "", ".", ".5", ".50", ".0", ". 5", ".5.5"]) + \
                rng.choice(["", "", "", "e1", "E-1", "e+10", "e", "e-", "e 1", "e1.5"]) + rng.choice(["", "", "", " ", "x"])
        if not BIGEXP.search(t):
            return t


def gen_raw_case(rng):
    ro = {"sep": rng.choice([",", ",", ",", ";", ";", "|", "\t", " "]), "hdr": rng.random() < 0.5}
    x = rng.random()
    if x < 0.7:
        lines = []
        numeric = x >= 0.5
        for _ in range(rng.choice([0, 1, 1, 2, 2, 3, 4])):
            fs = [num_token(rng) if numeric and rng.random() < 0.8 else rng.choice(RAW_FIELDS)
                  for _ in range(rng.choice([1, 1, 2, 2, 3, 4]))]
            s = ro["sep"] if rng.random() < 0.92 else rng.choice([",", ";"])
            lines.append(s.join(fs))
        text = ""
        for k, l in enumerate(lines):
            text += l
            if k + 1 < len(lines) or rng.random() < 0.5:
                text += rng.choice(RAW_EOL)
        if rng.random() < 0.1:
            text = rng.choice(RAW_EOL) + text
    else:
        soup = SOUP + [ro["sep"]] * 3
        text = "".join(rng.choice(soup) for _ in range(rng.choice([0, 1, 2, 3, 4, 5, 6, 8, 10, 12])))
    return {"kind": "raw", "text": text, "ro": ro}


FIXED_RAW = [
    ("col1,col2,col3,col4\none,2,,three", {"sep": ",", "hdr": True}),      # the documented example
    ("one;2;;three", {"sep": ";", "hdr": False}),                            # the second documented example
    ("", {"sep": ",", "hdr": False}), ("", {"sep": ",", "hdr": True}),
    ('"abc', {"sep": ",", "hdr": False}), ("a,b\n\nc,d", {"sep": ",", "hdr": False}),
    ("a,b\n\nc,d", {"sep": ",", "hdr": True}), ("a,b,c\nd,e\nf", {"sep": ",", "hdr": False}),
    ('"a,b","c""d","e\nf"\r\n1,2,3\r\n', {"sep": ",", "hdr": True}),
    ("a\r\n\r\n\nb", {"sep": ",", "hdr": True}), ("a\n\r", {"sep": ",", "hdr": True}),
]


# ------------------------------------------------------------------ running

def model_lines(c):
    i = c["id"]
    if c["kind"] == "rt":
        fr = enc_frame(c["h"], c["rows"])
        return ["rt\t%s\t%s %x %d %s" % (i, enc_opts(c["wo"]), ord(c["ro"]["sep"]), 1 if c["ro"]["hdr"] else 0, fr)]
    o = dict(c["ro"], ls="\n", nv=None)
    return ["parse\t%s\t%s %s" % (i, enc_opts(o), enc_text(c["text"]))]


def parse_rt(res):
    d = {}
    for w in res.split(" "):
        k, _, v = w.partition("=")
        d[k] = v
    return d


def ropts_text(c):
    return "[" + ",".join(c["ro_items"]) + "]"


def parse_goal(c, text_var_or_literal):
    if c["ro_items"]:
        return "phrase(parse_csv(F, %s), %s)" % (ropts_text(c), text_var_or_literal)
    return "phrase(parse_csv(F), %s)" % text_var_or_literal


def impl_lines(c, mres, run_dir):
    i = c["id"]
    lines = [qline("u" + i, USE)]
    if c["kind"] == "raw":
        g = "catch((%s -> R = ok(F) ; R = fail), error(E,_), R = err(E))." % parse_goal(c, pl_string(c["text"]))
        lines.append(qline("p" + i, g))
        return lines
    f = os.path.join(run_dir, "c%s.csv" % i)
    c["file"] = f
    fr = pl_frame(c["h"], c["rows"])
    if c["wo_items"]:
        wg = "write_csv(%s, %s, [%s])" % (pl_atom(f), fr, ",".join(c["wo_items"]))
    else:
        wg = "write_csv(%s, %s)" % (pl_atom(f), fr)
    lines.append(qline("w" + i, "catch((%s -> R = ok ; R = fail), error(E,_), R = err(E))." % wg))
    lines.append(qline("x" + i, "catch((phrase_from_file(seq(Cs), %s) -> (%s -> R = ok(Cs, F) ; R = nop(Cs)) ; R = nofile), error(E,_), R = err(E))."
                       % (pl_atom(f), parse_goal(c, "Cs"))))
    d = parse_rt(mres)
    if d.get("W", "fail") != "fail":
        t = dec_text(d["W"])
        g = "catch((%s -> R = ok(F) ; R = fail), error(E,_), R = err(E))." % parse_goal(c, pl_string(t))
        lines.append(qline("p" + i, g))
    return lines


def float_pool():
    """ask the implementation how it prints each float of the pool; keep (query lexeme, printed lexeme)."""
    lines = [qline("fu", "use_module(library(format)), use_module(library(dcgs)).")]
    for k, q in enumerate(FLOAT_POOL):
        lines.append(qline("fp%d" % k, "phrase(format_(\"~w\", [%s]), R)." % q))
    res = core.run_impl(lines)
    pool, dropped = [], []
    for k, q in enumerate(FLOAT_POOL):
        t = as_text(parse_answer(res.get("fp%d" % k, "")))
        ok = False
        if t:
            try:
                ok = float(t) == float(q) and re.fullmatch(r"-?[0-9]+\.[0-9]+([eE][+-]?[0-9]+)?", t) is not None
            except ValueError:
                ok = False
        if ok:
            pool.append((q, t))
        else:
            dropped.append((q, t))
    return pool, dropped


def transient(r):
    """implementation results that only say the machine was lost (load), not what the library does"""
    return (r == "missing" or r.startswith("timeout") or r.startswith("abort") or r.startswith("skipped")
            or r.startswith("panic") or "'existence_error'('procedure','/'('parse_csv'," in r
            or "'existence_error'('procedure','/'('write_csv'," in r
            or "'existence_error'('procedure','/'('phrase_from_file'," in r)


def has_str(c):
    rs = ([c["h"]] if c["wo"]["hdr"] else []) + c["rows"]
    return any(f[0] == "S" and f[1] != "" for r in rs for f in r)


def short(x, n=160):
    s = x if isinstance(x, str) else repr(x)
    return s if len(s) <= n else s[:n] + "…"


def judge(c, impl, model):
    """returns (agree: bool, list of (kind, sig, detail))"""
    i = c["id"]
    out = []
    base = {"family": "csv", "case": c["kind"]}
    if c["kind"] == "raw":
        m = model.get(i, "missing")
        a = parse_answer(impl.get("p" + i, "missing"))
        mv = dec_frame(m[3:]) if m.startswith("ok ") else m
        if a[0] == "cmp" and a[1] == "ok":
            av = frame_nf(a[2][0])
        elif a == ("atom", "fail"):
            av = "fail"
        else:
            av = ("?", short(impl.get("p" + i, "missing")))
        c["obs"] = {"impl": short(av), "model": short(mv)}
        if av != mv:
            out.append(("disagreement", dict(base, defect="reader-differs-on-raw-text", text=enc_text(c["text"]),
                                             ropts=",".join(c["ro_items"]), impl=short(av), model=short(mv)),
                        "parse_csv on a raw text differs from the model of the documented reader"))
        return out
    d = parse_rt(model.get(i, ""))
    if "W" not in d:
        return [("disagreement", dict(base, defect="model-line-missing", frame=enc_frame(c["h"], c["rows"])), "model gave no answer")]
    wf = d["WF"] == "1" and c["ro"]["sep"] == c["wo"]["sep"] and c["ro"]["hdr"] == c["wo"]["hdr"]
    expected = table_nf(c["h"] if c["wo"]["hdr"] else [], c["rows"])
    tag = dict(base, frame=enc_frame(c["h"], c["rows"]), wopts=enc_opts(c["wo"]),
               ropts="%x %d" % (ord(c["ro"]["sep"]), 1 if c["ro"]["hdr"] else 0))
    # --- writer status and text
    wa = parse_answer(impl.get("w" + i, "missing"))
    xa = parse_answer(impl.get("x" + i, "missing"))
    wstat = wa[1] if wa[0] == "atom" else short(impl.get("w" + i, "missing"))
    itext, iparse = None, ("?", short(impl.get("x" + i, "missing")))
    if xa[0] == "cmp" and xa[1] == "ok":
        itext, iparse = as_text(xa[2][0]), frame_nf(xa[2][1])
    elif xa[0] == "cmp" and xa[1] == "nop":
        itext, iparse = as_text(xa[2][0]), "fail"
    spec_t = None if d["W"] == "fail" else dec_text(d["W"])
    asis_t = None if d["A"] == "fail" else dec_text(d["A"])
    if (wstat == "ok" and itext is not None and itext == spec_t) or (wstat == "fail" and spec_t is None):
        wclass = "documented"
    elif (wstat == "ok" and asis_t is not None and itext == asis_t) or (wstat == "fail" and asis_t is None):
        wclass = "as-is"
    else:
        wclass = "other"
    c["obs"] = {"write": wstat, "wclass": wclass, "impl_text": short(itext), "doc_text": short(spec_t),
                "impl_roundtrip": short(iparse), "wf": wf}
    # --- reader on the implementation's own text, against the model reader on the same text
    if wstat == "ok" and itext is not None:
        if wclass == "documented":
            mp = d["PW"]
        elif wclass == "as-is":
            mp = d["PA"]
        else:
            mp = None
        if mp is not None:
            mpv = "fail" if mp == "fail" else dec_frame(mp)
            if iparse != mpv:
                # when the frame satisfies the hypotheses of the round-trip theorem and the text is the
                # documented one, this is the property's own oracle: the frame did not come back
                kind = "violation" if (wf and wclass == "documented" and iparse != expected) else "disagreement"
                out.append((kind, dict(tag, defect="reader-differs-on-written-text", impl=short(iparse), model=short(mpv)),
                            "parse_csv on the text written by write_csv does not give the frame back" if kind == "violation" else
                            "parse_csv on the text written by write_csv differs from the model reader on the same text"))
    # --- reader on the documented text
    if spec_t is not None:
        pa = parse_answer(impl.get("p" + i, "missing"))
        if pa[0] == "cmp" and pa[1] == "ok":
            pv = frame_nf(pa[2][0])
        elif pa == ("atom", "fail"):
            pv = "fail"
        else:
            pv = ("?", short(impl.get("p" + i, "missing")))
        mpw = "fail" if d["PW"] == "fail" else dec_frame(d["PW"])
        c["obs"]["impl_parse_doc_text"] = short(pv)
        if wf and mpw != expected:
            out.append(("disagreement", dict(tag, defect="model-self-check"), "driver result contradicts the round-trip theorem"))
        if pv != mpw:
            kind = "violation" if wf else "disagreement"
            out.append((kind, dict(tag, defect="reader-differs-on-documented-text", impl=short(pv), model=short(mpw)),
                        "parse_csv on the documented text of this frame does not give the frame back" if wf else
                        "parse_csv on the documented text differs from the model reader"))
    # --- writer
    if wclass == "other" and wf and wstat == "ok" and iparse == expected:
        # a text the model does not predict, but the property's own oracle holds: the frame comes
        # back. The property does not fix the text beyond that (e.g. whether a harmless string is
        # quoted), so this is not reported.
        c["obs"]["wclass"] = "other-roundtrip-ok"
    elif wclass == "other":
        kind = "violation" if (wf and iparse != expected) else "disagreement"
        out.append((kind, dict(tag, defect="writer-differs", status=wstat, impl=short(itext), documented=short(spec_t), as_is=short(asis_t)),
                    "write_csv wrote neither the documented text nor what the model of the present code writes"))
    elif wclass == "as-is" and wf:
        # the code as it stands departs from the documented format: round trip broken on this frame
        broken = wstat != "ok" or iparse != expected
        if broken:
            if wstat == "fail" and not c["rows"]:
                defect = "write-fails-on-frame-without-rows"
            elif wstat == "ok" and has_str(c):
                defect = "string-field-written-in-list-syntax"
            else:
                defect = "roundtrip-broken"
            sig = {"family": "csv", "defect": defect}
            if defect == "roundtrip-broken":
                sig = dict(tag, defect=defect, impl=short(iparse))
            out.append(("violation", sig, "write_csv followed by parse_csv does not give the frame back: wrote %s, documented %s, read back %s"
                        % (short(itext, 80), short(spec_t, 80), short(iparse, 120))))
    return out


def build_cases(ctx, pool):
    rng, tier = ctx["rng"], ctx["tier"]
    cases = []
    n = 2500 if tier == "quick" else 40000
    mix = [("wf", 0.30), ("nostr", 0.20), ("odd", 0.15), ("mixed", 0.07), ("raw", 0.28)]
    for k, (txt, ro) in enumerate(FIXED_RAW):
        cases.append({"kind": "raw", "text": txt, "ro": dict(ro)})
    # documented examples of the writer
    doc_h = [("S", "col1"), ("S", "col2"), ("S", "col3"), ("S", "col4")]
    doc_r = [[("S", "one"), ("I", 2), ("N",), ("S", "three")]]
    cases.append({"kind": "rt", "gen": "doc", "h": doc_h, "rows": doc_r,
                  "wo": {"sep": ",", "hdr": True, "ls": "\n", "nv": None}, "ro": {"sep": ",", "hdr": True}})
    cases.append({"kind": "rt", "gen": "doc", "h": doc_h, "rows": doc_r,
                  "wo": {"sep": ";", "hdr": False, "ls": "\r\n", "nv": "\\N"}, "ro": {"sep": ";", "hdr": False}})
    for _ in range(n):
        x, acc = rng.random(), 0.0
        for name, p in mix:
            acc += p
            if x < acc:
                break
        cases.append(gen_raw_case(rng) if name == "raw" else gen_table_case(rng, pool, name))
    for c in cases:
        if c["kind"] == "rt":
            c["wo_items"] = pl_wopts(c["wo"], rng)
        c["ro_items"] = pl_ropts(c["ro"], rng)
    return cases


def run(ctx):
    tier = ctx["tier"]
    run_dir = os.path.join(TMP, "r%d" % os.getpid())
    shutil.rmtree(run_dir, ignore_errors=True)
    os.makedirs(run_dir, exist_ok=True)
    try:
        return run_in(ctx, tier, run_dir)
    finally:
        shutil.rmtree(run_dir, ignore_errors=True)
        try:
            os.rmdir(TMP)
        except OSError:
            pass


def run_in(ctx, tier, run_dir):
    pool, dropped = float_pool()
    rep = diff.replay_case(ctx)
    if rep is not None:
        cases = rep
    else:
        cases = diff.load_corpus("C51") + build_cases(ctx, pool)
    for k, c in enumerate(cases):
        c["id"] = "%d" % k
        c.pop("obs", None)
        for key in ("h",):
            if key in c:
                c[key] = [tuple(f) for f in c[key]]
        if "rows" in c:
            c["rows"] = [[tuple(f) for f in r] for r in c["rows"]]
    model = core.run_model([l for c in cases for l in model_lines(c)])
    impl_cases = [impl_lines(c, model.get(c["id"], ""), run_dir) for c in cases]
    impl = core.run_impl_parallel(impl_cases)
    # a case that lost its machine under machine load (watchdog timeout, harness abort because a
    # thread could not be spawned, and then library(csv) missing on the fresh machine for the rest
    # of the case) is run again, alone and sequentially, before it is judged
    flaky = [ls for ls in impl_cases if any(transient(impl.get(core.line_id(l), "missing")) for l in ls)]
    retried = len(flaky)
    for ls in flaky[:500]:
        impl.update(core.run_impl(ls))
    # confirmation pass: every case that is about to be reported is run a second time and judged on
    # the second run (the library itself swallows the harness watchdog's interrupt in
    # `catch(number_chars(R, R0), _, R = R0)`, so under machine load a field can be typed as text
    # without any visible sign in the answer; a defect of the library reproduces, that does not)
    verdict = {c["id"]: judge(c, impl, model) for c in cases}
    # (not needed where the written text is exactly what the model of the present code predicts:
    # the two open writer defects; no accident of load produces that text)
    exact = ("string-field-written-in-list-syntax", "write-fails-on-frame-without-rows")
    bad = [c for c in cases if any(sig.get("defect") not in exact for _, sig, _ in verdict[c["id"]])]
    not_reproduced = 0
    if bad and rep is None:
        again = [impl_lines(c, model.get(c["id"], ""), run_dir) for c in bad]
        if len(again) > 60:
            impl2 = core.run_impl_parallel(again, jobs=6)
        else:
            impl2 = {}
            for ls in again:
                impl2.update(core.run_impl(ls))
        for ls in again:
            if any(transient(impl2.get(core.line_id(l), "missing")) for l in ls):
                impl2.update(core.run_impl(ls))
        impl.update(impl2)
        for c in bad:
            verdict[c["id"]] = judge(c, impl, model)
            if not verdict[c["id"]]:
                not_reproduced += 1
    findings, agree = [], 0
    distinct = set()
    hist = {"rt": 0, "raw": 0}
    gens, wclasses, wf_n, rt_ok, raw_fail, raw_ok = {}, {}, 0, 0, 0, 0
    keep = ("kind", "gen", "h", "rows", "wo", "ro", "text", "wo_items", "ro_items")
    for c in cases:
        res = verdict[c["id"]]
        hist[c["kind"]] += 1
        if c["kind"] == "rt":
            gens[c.get("gen", "?")] = gens.get(c.get("gen", "?"), 0) + 1
            wc = c.get("obs", {}).get("wclass", "?")
            wclasses[wc] = wclasses.get(wc, 0) + 1
            if c.get("obs", {}).get("wf"):
                wf_n += 1
            nt = any(f[0] == "S" and re.search(r'[",;|\n\r\t ]', f[1]) for r in [c["h"]] + c["rows"] for f in r) or \
                any(f[0] in ("I", "F", "N") for r in [c["h"]] + c["rows"] for f in r)
            if nt:
                distinct.add(("rt", enc_frame(c["h"], c["rows"]), enc_opts(c["wo"]), repr(c["ro"])))
        else:
            o = c.get("obs", {})
            if o.get("model") == "fail":
                raw_fail += 1
            else:
                raw_ok += 1
            if re.search(r'["\n\r]', c["text"]):
                distinct.add(("raw", c["text"], repr(c["ro"])))
        if rep is not None:
            print("replay case %s: %s" % (c["id"], {k: c.get(k) for k in ("kind", "h", "rows", "wo", "ro", "text")}))
            print("  model: %s" % model.get(c["id"]))
            for p in "wxp":
                if p + c["id"] in impl:
                    print("  impl %s: %s" % (p, impl[p + c["id"]]))
            print("  observed: %s" % c.get("obs"))
            print("  findings: %s" % [(k, s.get("defect")) for k, s, _ in res])
        if not res:
            agree += 1
        for kind, sig, detail in res:
            findings.append(core.Finding(kind, sig, detail, {k: c[k] for k in keep if k in c}))
    samples = []
    for c in cases[:40:8] + cases[-3:]:
        samples.append({k: c.get(k) for k in ("kind", "h", "rows", "wo", "ro", "text", "obs") if k in c})
    return {
        "evaluations": len(cases),
        "distinct_nontrivial": len(distinct),
        "rule": "frames up to 4 columns x 4 rows (+header) with adversarial field text (quotes, separators, CR/LF, blanks, number-looking strings, non-ASCII), "
                "integers incl. bignums, floats of a pool, nulls; x write options (separator, header, line separator, null value; some odd ones) x read options "
                "(same, or deliberately different); plus raw texts for the reader (RFC 4180 lines, mixed line ends, blank lines, unterminated quotes, ragged rows, "
                "character soup). Non-trivial: a frame case with a string containing a quote/separator/line end/blank or a typed/null field; a raw text "
                "containing a quote or line end. Distinct by (frame, options) / (text, options).",
        "samples": samples,
        "traces_validated_against_impl": agree,
        "disagreements_checked": len(cases) - agree,
        "case_kinds": hist,
        "frame_generators": gens,
        "writer_class": wclasses,
        "frames_satisfying_theorem_hypotheses": wf_n,
        "raw_texts_rejected_by_reader": raw_fail,
        "raw_texts_accepted_by_reader": raw_ok,
        "retried_after_lost_machine": retried,
        "confirmation_pass": {"cases_rerun": len(bad) if rep is None else 0, "not_reproduced": not_reproduced},
        "float_pool": len(pool),
        "float_pool_dropped": dropped,
        "exhaustive": False,
        "findings": findings,
    }
