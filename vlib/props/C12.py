"""C12 — Exceptions unwind precisely and leave the machine consistent.

One abstract *case* = a small program (clause list over terms) whose last clause is
`t_<id>(R) :- R = v(X,Y,Z,W), Body`, with `Body` a random nesting of catch/3, throw/1,
setup_call_cleanup/3, cut, if-then-else, \\+, once/1, call/N, findall/3, user predicates (all clause
heads have distinct variables as arguments: no first-argument indexing, so "the goal left no choice
point" is a syntactic notion the model can mirror), deep recursion, builtins that raise errors, and
`ev(Term)` goals that log a copy of `Term` (assertz on the implementation, an `ev` item in the model).
From it we produce
  * Prolog text consulted with an `L` line (static code) and the harness lines
        Q catch(t_<id>(R), B, true).     answers / uncaught ball
        Q evs(L).                         the event log (and its reset)
        Q <fixed follow-up goal>.         the machine is still consistent
  * the same clause list in canonical syntax for `drv_C12` (`Scryer.Exc.runTop`, Model/Cleanup.lean,
    the trace interpreter the theorems of Props/C12.lean talk about).
Compared: the event sequence (each event up to renaming of its variables), the answer sequence, the
uncaught ball (context argument of error/2 ignored), the follow-up result.
A second, small stream runs goals as *queries* (not consulted), including the shape of finding C12-1.

Terms are tuples: ('v',name) ('i',n) ('a',name) ('s',functor,[args]).
"""
import hashlib
import json
import re

from .. import core, diff

LEVEL = "proof"
TRUSTED_BASE = [
    "Scryer.Exc.solve (Model/Cleanup.lean) = the shared reference interpreter Scryer.Solve (C07) with side-effect items, a determinism flag and pending clean-up handlers; it is taken as the definition of catch/throw/setup_call_cleanup/3 behaviour (its laws are proved in Props/C12.lean; it is not derived from the text of the standard / the setup_call_cleanup draft)",
    "vlib/props/C12.py renders one abstract clause list both as Prolog text (operators only for , ; -> :- \\+ and lists) and in the canonical term syntax read by drv_C12",
    "ev/1 is `assertz(evl(X))` on the implementation and a trace item in the model; the log is read back with findall/3 + retractall/1",
    "the block/ball-stack registers, cont_pts and the WAM instructions are not mirrored instruction by instruction: Scryer.Exc.Proto mirrors the cont_pts/b_cutoff discipline only; the rest is tied by differential execution",
    "the result of the model is taken from the first fuel of the schedule that suffices (fuel monotonicity is proved for Scryer.Solve, not re-proved for Scryer.Exc; drv_C12 re-runs every case with twice the fuel and reports `unstable` if the trace differs)",
]
ASSUMPTIONS = [
    "programs stay inside the model's domain: integer arithmetic, no cyclic bindings, termination within the fuel schedule (otherwise dropped and counted)",
    "no setup_call_cleanup/3 inside a Setup or Cleanup goal (scryer prunes those with '$set_cp_by_default', which never runs cleaners; left out of the model and of the generator)",
    "clause heads of generated predicates have distinct variables as arguments (no clause indexing), so determinism of an exit is the syntactic notion mirrored by the model's `det` flag",
    "flags at their defaults (unknown=error, occurs_check=false, double_quotes=chars)",
]

MAXA = 64
TVARS = ["X", "Y", "Z", "W"]

# ------------------------------------------------------------------ terms


def V(n):
    return ('v', n)


def A(n):
    return ('a', n)


def I(n):
    return ('i', n)


def S(f, *args):
    return ('s', f, list(args))


NIL = A('[]')
TRUE = A('true')
FAIL = A('fail')
CUT = A('!')


def lst(xs, tail=NIL):
    t = tail
    for x in reversed(xs):
        t = S('.', x, t)
    return t


def conj(gs):
    if not gs:
        return TRUE
    t = gs[-1]
    for g in reversed(gs[:-1]):
        t = S(',', g, t)
    return t


def to_tuple(t):
    if t[0] == 's':
        return ('s', t[1], [to_tuple(a) for a in t[2]])
    return tuple(t)


def functors(t, acc):
    if t[0] == 's':
        acc.add("%s/%d" % (t[1], len(t[2])))
        for a in t[2]:
            functors(a, acc)
    elif t[0] == 'a':
        acc.add(t[1] + "/0")
    return acc


# ------------------------------------------------------------------ rendering

def q_atom(a):
    return "'" + a.replace("\\", "\\\\").replace("'", "\\'") + "'"


PLAIN = re.compile(r"[a-z][a-zA-Z0-9_]*")


def pl(t):
    k = t[0]
    if k == 'v':
        return t[1]
    if k == 'i':
        return str(t[1]) if t[1] >= 0 else "(" + str(t[1]) + ")"
    if k == 'a':
        if t[1] in ('[]', '!'):
            return t[1]
        return t[1] if PLAIN.fullmatch(t[1]) else q_atom(t[1])
    f, args = t[1], t[2]
    if len(args) == 2 and f in (',', ';', '->'):
        return "(" + pl(args[0]) + " " + f + " " + pl(args[1]) + ")"
    if f == '.' and len(args) == 2:
        items = [args[0]]
        tl = args[1]
        while tl[0] == 's' and tl[1] == '.' and len(tl[2]) == 2:
            items.append(tl[2][0])
            tl = tl[2][1]
        s = ",".join(pl(x) for x in items)
        return "[" + s + "]" if tl == NIL else "[" + s + "|" + pl(tl) + "]"
    if f == '\\+' and len(args) == 1:
        return "\\+(" + pl(args[0]) + ")"
    name = f if PLAIN.fullmatch(f) else q_atom(f)
    return name + "(" + ",".join(pl(a) for a in args) + ")"


def canon(t):
    k = t[0]
    if k == 'v':
        return t[1]
    if k == 'i':
        return str(t[1])
    if k == 'a':
        return "[]" if t[1] == '[]' else q_atom(t[1])
    return q_atom(t[1]) + "(" + ",".join(canon(a) for a in t[2]) + ")"


def clause_pl(c):
    h, b = c
    return pl(h) + "." if b == TRUE else pl(h) + " :- " + pl(b) + "."


def clause_canon(c):
    h, b = c
    return canon(h) if b == TRUE else "':-'(%s,%s)" % (canon(h), canon(b))


# ------------------------------------------------------------------ result parser

class P:
    def __init__(self, s):
        self.s, self.i = s, 0

    def peek(self):
        return self.s[self.i] if self.i < len(self.s) else ""

    def quoted(self, q):
        self.i += 1
        out = []
        while True:
            c = self.s[self.i]
            if c == "\\":
                d = self.s[self.i + 1]
                if d == "x":
                    j = self.s.index("\\", self.i + 2)
                    out.append(chr(int(self.s[self.i + 2:j], 16)))
                    self.i = j + 1
                else:
                    out.append(d)
                    self.i += 2
            elif c == q:
                self.i += 1
                return "".join(out)
            else:
                out.append(c)
                self.i += 1

    def args(self, close):
        out = []
        while True:
            out.append(self.term())
            c = self.s[self.i]
            self.i += 1
            if c == close:
                return out
            if c != ",":
                raise ValueError("bad separator in %r at %d" % (self.s, self.i))

    NUM = re.compile(r"-?\d+")
    VAR = re.compile(r"[A-Za-z_][A-Za-z0-9_]*")
    OTHER = re.compile(r"r\(-?\d+,\d+\)|f\([0-9a-f]{16}\)")

    def term(self):
        c = self.peek()
        if c == "'":
            name = self.quoted("'")
            if self.peek() == "(":
                self.i += 1
                return ('s', name, self.args(")"))
            return ('a', name)
        if c == '"':
            return lst([A(ch) for ch in self.quoted('"')])
        if c == "[":
            self.i += 1
            if self.peek() == "]":
                self.i += 1
                return NIL
            return lst(self.args("]"))
        m = self.OTHER.match(self.s, self.i)
        if m:
            self.i = m.end()
            return ('o', m.group(0))
        m = self.NUM.match(self.s, self.i)
        if m:
            self.i = m.end()
            return ('i', int(m.group(0)))
        m = self.VAR.match(self.s, self.i)
        if m:
            self.i = m.end()
            return ('v', m.group(0))
        raise ValueError("cannot parse %r at %d" % (self.s, self.i))


def parse_canon(s):
    p = P(s)
    t = p.term()
    if p.i != len(s):
        raise ValueError("trailing text in %r at %d" % (s, p.i))
    return t


def parse_bindings(body):
    p = P(body)
    out = {}
    while p.i < len(body):
        m = P.VAR.match(body, p.i)
        if not m or body[m.end():m.end() + 1] != "=":
            raise ValueError("bad binding in %r at %d" % (body, p.i))
        p.i = m.end() + 1
        out[m.group(0)] = p.term()
        if p.i < len(body):
            if body[p.i] != ",":
                raise ValueError("bad separator in %r at %d" % (body, p.i))
            p.i += 1
    return out


def normalise(t, names):
    """rename variables by first occurrence; blank the context of error/2 terms."""
    k = t[0]
    if k == 'v':
        if t[1] not in names:
            names[t[1]] = "_%d" % len(names)
        return names[t[1]]
    if k == 'i':
        return str(t[1])
    if k == 'a':
        return "[]" if t[1] == '[]' else q_atom(t[1])
    if k == 'o':
        return t[1]
    if t[1] == 'error' and len(t[2]) == 2:
        return "'error'(" + normalise(t[2][0], names) + ",*)"
    return q_atom(t[1]) + "(" + ",".join(normalise(a, names) for a in t[2]) + ")"


def unlist(t):
    out = []
    while t[0] == 's' and t[1] == '.' and len(t[2]) == 2:
        out.append(t[2][0])
        t = t[2][1]
    if t != NIL:
        raise ValueError("not a proper list")
    return out


def split_items(s):
    return [x for x in s.split(" ;; ")] if s else []


BAD = ("timeout", "panic(", "abort(", "skipped(")


def impl_view(run_res, ev_res):
    """-> dict(answers=[...], ball=str|None, events=[...]) or None if inconclusive."""
    if run_res is None or ev_res is None:
        return None
    if any(b in run_res for b in BAD) or any(b in ev_res for b in BAD):
        return None
    its = split_items(run_res.strip())
    if its and its[-1] == "...":
        return None
    if its and its[-1] == "false":
        its = its[:-1]
    answers, ball = [], None
    try:
        for x in its:
            if x in ("{}", "true"):
                answers.append("_0")
                continue
            if not (x.startswith("{") and x.endswith("}")):
                return {"raw": run_res}
            b = parse_bindings(x[1:-1])
            if "B" in b:
                ball = normalise(b["B"], {})
            elif "R" in b:
                answers.append(normalise(b["R"], {}))
            else:
                answers.append("_0")
        evs = ev_res.strip()
        if not (evs.startswith("{L=") and evs.endswith("}")):
            return {"raw": run_res + " / " + ev_res}
        events = [normalise(e, {}) for e in unlist(parse_canon(evs[3:-1]))]
    except (ValueError, IndexError):
        return {"raw": run_res + " / " + ev_res}
    return {"answers": answers, "ball": ball, "events": events}


def model_view(res):
    """driver result -> dict | 'oof' | None"""
    if res is None:
        return None
    if res.startswith("oof"):
        return "oof"
    if not res.startswith("R "):
        return None
    body = res.split(" :: ", 1)[1]
    parts = body.split(" || ")
    if len(parts) != 4:
        return None
    try:
        events = [normalise(parse_canon(x), {}) for x in split_items(parts[0])]
        answers = [normalise(parse_canon(x), {}) for x in split_items(parts[1])]
        ball = None if parts[2] == "-" else normalise(parse_canon(parts[2]), {})
    except (ValueError, IndexError):
        return None
    return {"answers": answers, "ball": ball, "events": events, "marks": parts[3].strip()}


# ------------------------------------------------------------------ generator

SUPPORT = (":- dynamic(evl/1).\n"
           "ev(X) :- assertz(evl(X)).\n"
           "evs(L) :- findall(X, evl(X), L), retractall(evl(_)).\n")

FOLLOW = ("catch((setup_call_cleanup(true,(X=1;X=2),ev(z(X))), X >= 2, throw(k(X,_))), k(Y,_), ev(r(Y))), "
          "catch(catch(throw(a),b,true),a,ev(o)), evs(L).")
FOLLOW_EXPECT = "{L=['z'(2),'r'(2),'o'],Y=2}"


class Gen:
    def __init__(self, rng, cid, profile):
        self.rng = rng
        self.cid = cid
        self.profile = profile
        self.nl = 0
        self.nv = 0
        self.preds = []      # (name, arity)
        self.clauses = []
        self.deep = None
        self.feat = set()

    # -- data
    def label(self):
        self.nl += 1
        return "e%d" % self.nl

    def fresh(self, p="C"):
        self.nv += 1
        return V("%s%d" % (p, self.nv))

    def var(self, vs):
        return V(self.rng.choice(vs))

    def data(self, vs, d=2):
        r = self.rng.random()
        if d <= 0 or r < 0.45:
            c = self.rng.random()
            if c < 0.4:
                return self.var(vs)
            if c < 0.7:
                return A(self.rng.choice(["a", "b", "c", "[]"]))
            return I(self.rng.choice([0, 1, 2, 7, -3]))
        if r < 0.8:
            return S(self.rng.choice(["f", "g"]), *[self.data(vs, d - 1) for _ in range(self.rng.choice([1, 1, 2]))])
        if r < 0.9:
            return lst([self.data(vs, d - 1) for _ in range(self.rng.choice([1, 2]))],
                       self.var(vs) if self.rng.random() < 0.3 else NIL)
        return lst([A(ch) for ch in self.rng.choice(["ab", "x", "hey"])])

    def ball(self, vs):
        r = self.rng.random()
        if r < 0.2:
            return A(self.rng.choice(["oops", "b", "stop"]))
        if r < 0.55:
            self.feat.add("ball-with-vars")
            return S("b", self.data(vs, 2), self.var(vs))
        if r < 0.65:
            return I(self.rng.choice([0, 7]))
        if r < 0.75:
            return S("error", S("type_error", A("thing"), self.data(vs, 1)), A("ctx"))
        if r < 0.85:
            return self.data(vs, 2)
        if r < 0.93:
            return self.var(vs)     # instantiation_error if unbound
        return S("b", lst([A("s"), A("t")]), S("f", self.var(vs), self.var(vs)))

    def catcher(self, vs):
        r = self.rng.random()
        if r < 0.35:
            return self.fresh("C")
        if r < 0.55:
            return S("b", self.fresh("C"), self.fresh("C"))
        if r < 0.7:
            return S("error", self.fresh("C"), self.fresh("C"))
        if r < 0.78:
            return A(self.rng.choice(["oops", "b", "stop", "nomatch"]))
        if r < 0.88:
            self.feat.add("catcher-shares-context-var")
            return self.rng.choice([self.var(vs), S("b", self.var(vs), self.fresh("C"))])
        if r < 0.94:
            return S("error", S("type_error", self.fresh("C"), self.fresh("C")), self.fresh("C"))
        return I(7)

    def ev(self, vs, extra=None):
        args = [self.var(vs) for _ in range(self.rng.choice([0, 1, 1, 2]))]
        if extra is not None:
            args = [extra] + args
        l = self.label()
        return S("ev", S(l, *args) if args else A(l))

    def builtin_error(self, vs):
        self.feat.add("builtin-error")
        c = self.rng.randrange(9)
        x = self.var(vs)
        if c == 0:
            # a non-evaluable atom written literally in a compiled expression is rejected at load time, and
            # `E = foo+1, X is E` in ONE clause body is no better (the compiler propagates the unification into the
            # expression: wrong culprit `user/0`, or the error is lost inside \+; notes/findings-misc.md, C02/C03's
            # business): the expression comes out of a fact
            # … and the result variable must not be a singleton: `_ is E` (void result) reports a garbage culprit or
            # loses the error inside \+ even when E comes from elsewhere (same note)
            e = self.fresh("U")
            return conj([S("xe_%s" % self.cid, e), S("is", x, e), S("=", x, x)])
        if c == 1:
            return conj([S("is", x, S("+", self.fresh("U"), I(1))), S("=", x, x)])
        if c == 2:
            return S("is", x, S("//", I(1), I(0)))
        if c == 3:
            e = self.fresh("U")
            return S(",", S("xa_%s" % self.cid, e), S("<", I(1), e))
        if c == 4:
            return S("functor", self.fresh("U"), self.fresh("U"), self.fresh("U"))
        if c == 5:
            return S("arg", A("x"), S("f", A("a")), self.fresh("U"))
        if c == 6:
            self.feat.add("noncallable-literal")
            return S("call", I(1))
        if c == 7:
            return A("undef_%s" % self.cid)
        self.feat.add("noncallable-literal")
        return S("call", S(",", TRUE, I(3)))

    # -- goals
    def leaf(self, vs, ctx):
        rng = self.rng
        w = [("ev", 5), ("unify", 3), ("true", 0.7), ("fail", 1.2), ("cut", 0 if ctx.get("nocut") else 1.0), ("throw", 2.2),
             ("berr", 0.9), ("pred", 2.0 if self.preds else 0), ("deep", 0.5 if self.deep and not ctx.get("nodeep") else 0)]
        tot = sum(x for _, x in w)
        r = rng.random() * tot
        for k, x in w:
            r -= x
            if r <= 0:
                break
        if k == "ev":
            return self.ev(vs)
        if k == "unify":
            return S("=", self.var(vs), self.data(vs, 2))
        if k == "true":
            return TRUE
        if k == "fail":
            return FAIL
        if k == "cut":
            self.feat.add("cut")
            return CUT
        if k == "throw":
            self.feat.add("throw")
            return S("throw", self.ball(vs))
        if k == "berr":
            return self.builtin_error(vs)
        if k == "pred":
            name, ar = rng.choice(self.preds)
            self.feat.add("user-pred")
            if ar == 0:
                return A(name)
            return S(name, *[self.data(vs, 1) for _ in range(ar)])
        self.feat.add("deep-recursion")
        return S(self.deep, I(rng.choice([3, 12, 25, 40])), self.var(vs))

    def simple(self, vs, may_throw=True):
        """goals allowed as Setup / Cleanup: no setup_call_cleanup inside."""
        rng = self.rng
        r = rng.random()
        if r < 0.35:
            return self.ev(vs)
        if r < 0.5:
            return S(",", self.ev(vs), S("=", self.var(vs), self.data(vs, 1)))
        if r < 0.58:
            return TRUE
        if r < 0.65:
            return FAIL
        if r < 0.75:
            return S(";", self.ev(vs), self.ev(vs))
        if r < 0.83:
            return S(",", S(";", S("=", self.var(vs), I(1)), S("=", self.var(vs), I(2))), self.ev(vs))
        if r < 0.9:
            return S("catch", S("throw", A("inner")), self.fresh("C"), self.ev(vs))
        if r < 0.95 and may_throw:
            self.feat.add("throwing-setup-or-cleanup")
            return S(",", self.ev(vs), S("throw", S("b", A("from_handler"), self.var(vs))))
        if r < 0.975:
            return S(",", self.ev(vs), FAIL)
        return self.var(vs)   # unbound or non-callable handler

    def goal(self, d, vs, ctx):
        rng = self.rng
        if d <= 0 or rng.random() < 0.18:
            return self.leaf(vs, ctx)
        p = self.profile
        w = [("conj", 6), ("disj", 3), ("ite", 2), ("ifthen", 0.6), ("naf", 1), ("once", 0.8),
             ("call1", 0.8), ("calln", 0.6), ("callvar", 0.5), ("findall", 1.0),
             ("catch", 4 * p.get("catch", 1)), ("scc", 4 * p.get("scc", 1))]
        tot = sum(x for _, x in w)
        r = rng.random() * tot
        for k, x in w:
            r -= x
            if r <= 0:
                break
        # a cut in the condition of an if-then-else is local to the condition in ISO and in the reference;
        # scryer makes it cut the clause (C07's business, notes/findings-misc.md): no cut at the cut-transparent
        # positions of a condition. Cut-opaque constructs reset the restriction.
        opaque = k in ("naf", "once", "call1", "calln", "callvar", "findall", "catch", "scc")
        cin = dict(ctx, nocut=False) if opaque else ctx
        ccond = dict(ctx, nocut=True)
        g = lambda dd=d - 1, c=cin: self.goal(dd, vs, c)
        if k == "conj":
            n = rng.choice([2, 2, 3])
            return conj([g() for _ in range(n)])
        if k == "disj":
            return S(";", g(), g())
        if k == "ite":
            self.feat.add("ite")
            return S(";", S("->", g(d - 2, ccond), g()), g())
        if k == "ifthen":
            return S("->", g(d - 2, ccond), g())
        if k == "naf":
            self.feat.add("naf")
            return S("\\+", g())
        if k == "once":
            return S("once", g())
        if k == "call1":
            return S("call", g())
        if k == "calln":
            self.feat.add("call/N")
            c = rng.random()
            if c < 0.4:
                l = self.label()
                return S("call", S("ev"), S(l, self.var(vs))) if False else S("call", A("ev"), S(l, self.var(vs)))
            if c < 0.7:
                return S("call", A("throw"), self.ball(vs))
            ps = [x for x in self.preds if x[1] >= 1]
            if ps:
                name, ar = rng.choice(ps)
                args = [self.data(vs, 1) for _ in range(ar)]
                return S("call", S(name, *args[:-1]) if ar > 1 else A(name), args[-1])
            return S("call", A("="), self.var(vs), self.data(vs, 1))
        if k == "callvar":
            self.feat.add("call-variable-goal")
            gv = self.fresh("G")
            return S(",", S("=", gv, g(d - 2)), gv if rng.random() < 0.5 else S("call", gv))
        if k == "findall":
            self.feat.add("findall")
            l = self.fresh("L")
            return S(",", S("findall", self.data(vs, 1), g(), l), self.ev(vs, l))
        if k == "catch":
            self.feat.add("catch")
            c = self.catcher(vs)
            r2 = rng.random()
            if r2 < 0.45:
                rec = self.ev(vs, c)
            elif r2 < 0.6:
                self.feat.add("rethrow")
                rec = S(",", self.ev(vs, c), S("throw", c))
            elif r2 < 0.7:
                rec = TRUE
            else:
                rec = S(",", self.ev(vs, c), g(d - 2))
            return S("catch", g(), c, rec)
        # scc
        if ctx.get("noscc"):
            return self.leaf(vs, ctx)
        self.feat.add("scc")
        su = TRUE if rng.random() < 0.45 else self.simple(vs)
        cl = self.simple(vs)
        return S("setup_call_cleanup", su, g(), cl)

    def make_pred(self, k, d):
        rng = self.rng
        ar = rng.choice([0, 1, 1, 2])
        name = "p%d_%s" % (k, self.cid)
        hv = ["A%d" % i for i in range(1, ar + 1)]
        head = S(name, *[V(v) for v in hv]) if ar else A(name)
        n = rng.choice([1, 2, 2, 3])
        cls = []
        for _ in range(n):
            vs = hv + ["T", "U"]
            cls.append((head, self.goal(d, vs, {"nodeep": True})))
        return (name, ar), cls

    def build(self, depth):
        rng = self.rng
        self.clauses.append((S("xe_%s" % self.cid, S("+", A("foo"), I(1))), TRUE))
        self.clauses.append((S("xa_%s" % self.cid, A("a")), TRUE))
        # deep recursion helper
        if rng.random() < 0.5:
            self.deep = "d_%s" % self.cid
            leafs = [S("throw", S("deep", V("X"))), S("ev", S("bottom", V("X"))), S("=", V("X"), A("bottom")), FAIL,
                     S(",", S("xe_%s" % self.cid, V("E")), S("is", V("X"), V("E")))]
            leaf = rng.choice(leafs)
            n1 = S("is", V("N1"), S("-", V("N"), I(1)))
            reccall = S(self.deep, V("N1"), V("X"))
            variant = rng.randrange(4)
            if variant == 0:
                step = conj([n1, reccall])
            elif variant == 1:
                step = conj([n1, reccall, TRUE])
            elif variant == 2:
                step = conj([n1, S("setup_call_cleanup", TRUE, reccall, TRUE)])
            else:
                step = conj([n1, S("catch", reccall, A("nomatch"), TRUE)])
            body = S(";", S("->", S("=<", V("N"), I(0)), leaf), step)
            self.clauses.append((S(self.deep, V("N"), V("X")), body))
        npred = rng.choice([0, 1, 2, 3])
        made = []
        for k in reversed(range(npred)):
            sig, cls = self.make_pred(k, max(1, depth - 2))
            made.append((sig, cls))
            self.preds.append(sig)
        for sig, cls in reversed(made):
            self.clauses.extend(cls)
        body = self.goal(depth, TVARS, {})
        if rng.random() < 0.6:
            body = S(",", body, S("ev", S("sol", *[V(v) for v in TVARS])))
        head = S("t_%s" % self.cid, V("R"))
        self.clauses.append((head, S(",", S("=", V("R"), S("v", *[V(v) for v in TVARS])), body)))
        return self.clauses


def mk_case(cid, clauses, cls="gen", feat=()):
    cl = [(to_tuple(h), to_tuple(b)) for h, b in clauses]
    text = SUPPORT + "\n".join(clause_pl(c) for c in cl) + "\n"
    goal = "t_%s" % cid
    impl = [
        "Q\t%s.u\t1\tuse_module(library(iso_ext))." % cid,
        "L\t%s.l\tuser\t%s" % (cid, text.replace("\\", "\\\\").replace("\n", "\\n")),
        "Q\t%s.z\t1\tevs(_)." % cid,
        "Q\t%s.r\t%d\tcatch(%s(R),B,true)." % (cid, MAXA, goal),
        "Q\t%s.e\t2\tevs(L)." % cid,
        "Q\t%s.f\t2\t%s" % (cid, FOLLOW),
    ]
    model = ["run\t%s.m\t%s\t%s\tR" % (cid, " ;; ".join(clause_canon(c) for c in cl), canon(S(goal, V("R"))))]
    return {"id": cid, "clauses": cl, "cls": cls, "feat": sorted(feat), "impl": impl, "model": model,
            "text": text}


def rebuild(c):
    cl = [(to_tuple(h), to_tuple(b)) for h, b in c["clauses"]]
    if c.get("query"):
        return mk_query_case(c["id"], c["query"], c.get("cls", "query"))
    return mk_case(c["id"], cl, c.get("cls", "corpus"), c.get("feat", ()))


# -- the query stream: goals run directly through run_query (goal expansion of the query term)

QUERY_SHAPES = [
    # (class, goal as term builder)
    ("query-plain", lambda: S("setup_call_cleanup", S("ev", A("s")), S(";", S("=", V("X"), I(1)), S("=", V("X"), I(2))), S("ev", A("c")))),
    ("query-plain", lambda: S("catch", S(",", S("setup_call_cleanup", TRUE, S(";", S("=", V("X"), I(1)), S("=", V("X"), I(2))), S("ev", S("c", V("X")))), S("throw", S("b", V("X"), V("Y")))), S("b", V("P"), V("Q")), S("ev", S("caught", V("P"), V("X"))))),
    ("query-plain", lambda: S("catch", S("setup_call_cleanup", S("ev", A("s")), S(",", S("ev", A("g")), S("throw", A("x"))), S("ev", A("c"))), A("x"), S("ev", A("r")))),
    ("query-noncallable-literal", lambda: S("catch", S("setup_call_cleanup", S("ev", A("s")), S(",", S("ev", A("g")), S("call", I(1))), S("ev", A("c"))), S("error", V("E"), V("_C")), S("ev", S("r", V("E"))))),
    ("query-noncallable-literal", lambda: S("catch", S("setup_call_cleanup", S("ev", A("s")), S("catch", S("call", I(1)), V("_E"), S("ev", A("r"))), S("ev", A("c"))), S("error", V("E"), V("_C")), S("ev", S("o", V("E"))))),
    ("query-noncallable-literal", lambda: S("catch", S("setup_call_cleanup", S("ev", A("s")), S(",", TRUE, I(1)), S("ev", A("c"))), S("error", V("E"), V("_C")), S("ev", S("r", V("E"))))),
]


def mk_query_case(cid, goal, cls):
    goal = to_tuple(goal)
    head = S("t_%s" % cid, V("R"))
    tv = S("v", V("X"), V("Y"), V("P"), V("E"))
    impl = [
        "Q\t%s.u\t1\tuse_module(library(iso_ext))." % cid,
        "L\t%s.l\tuser\t%s" % (cid, SUPPORT.replace("\n", "\\n")),
        "Q\t%s.z\t1\tevs(_)." % cid,
        "Q\t%s.r\t%d\tcatch((R = %s, %s),B,true)." % (cid, MAXA, pl(tv), pl(goal)),
        "Q\t%s.e\t2\tevs(L)." % cid,
        "Q\t%s.f\t2\t%s" % (cid, FOLLOW),
    ]
    cl = [(head, S(",", S("=", V("R"), tv), goal))]
    model = ["run\t%s.m\t%s\t%s\tR" % (cid, " ;; ".join(clause_canon(c) for c in cl), canon(S("t_%s" % cid, V("R"))))]
    return {"id": cid, "clauses": cl, "query": goal, "cls": cls, "feat": [cls], "impl": impl, "model": model,
            "text": pl(goal)}


PROFILES = [{"catch": 1, "scc": 1}, {"catch": 2, "scc": 0.3}, {"catch": 0.5, "scc": 2}, {"catch": 1.5, "scc": 1.5}]


def gen_cases(rng, tier, seed):
    n = 700 if tier == "quick" else 4500
    cases = []
    for k in range(n):
        cid = "c%d_%d" % (seed, k)
        g = Gen(rng, cid, rng.choice(PROFILES))
        depth = rng.choice([2, 3, 3, 4, 4, 5])
        clauses = g.build(depth)
        cases.append(mk_case(cid, clauses, "gen-noncallable-literal" if "noncallable-literal" in g.feat else "gen", g.feat))
    for k, (cls, mk) in enumerate(QUERY_SHAPES):
        cases.append(mk_query_case("q%d_%d" % (seed, k), mk(), cls))
    return cases


# ------------------------------------------------------------------ judge

def strip(c):
    return {"id": c["id"], "clauses": c["clauses"], "cls": c["cls"], "feat": c.get("feat", []),
            **({"query": c["query"]} if c.get("query") else {})}


LIST_GOAL_MODEL = "'error'('existence_error'('procedure','/'('.',2)),*)"
LIST_GOAL_IMPL = "'error'('type_error'('callable','.'("


def same_ball(ib, mb):
    """a list in a goal position: the reference (lists are ordinary './2' compounds) reports an unknown
    procedure './2', scryer does not regard a list as callable. That is call/1's business (C07), not C12's."""
    if ib == mb:
        return True
    return mb == LIST_GOAL_MODEL and ib is not None and ib.startswith(LIST_GOAL_IMPL)


def compare(iv, mv):
    """-> list of differing parts"""
    d = []
    if iv.get("raw") is not None:
        return ["uninterpretable"]
    if iv["events"] != mv["events"]:
        d.append("events")
    if iv["answers"] != mv["answers"]:
        d.append("answers")
    if not same_ball(iv["ball"], mv["ball"]):
        d.append("ball")
    return d


def labels(evs):
    return sorted(re.match(r"'?([A-Za-z0-9_]+)", e).group(1) if re.match(r"'?([A-Za-z0-9_]+)", e) else e for e in evs)


EV_MISSING = "'existence_error'('procedure','/'('ev',1))"


def is_subseq(a, b):
    it = iter(b)
    return all(x in it for x in a)


def lost_cleanup(iv, mv):
    """the shape of C12-1: events of the reference are missing on the implementation (the clean-up goal did not
    run) and/or the clean-up goal `ev(...)` was looked up in the wrong module."""
    blob = " ".join(iv["events"] + iv["answers"] + [iv["ball"] or ""])
    if EV_MISSING in blob:
        return True
    return len(iv["events"]) < len(mv["events"]) and is_subseq(iv["events"], mv["events"])


def views(c, impl, model):
    i = c["id"]
    return impl_view(impl.get(i + ".r"), impl.get(i + ".e")), model_view(model.get(i + ".m")), impl.get(i + ".f")


def nontrivial(mv):
    m = mv.get("marks", "")
    return bool(m) or mv["ball"] is not None or any("caught" in e or "error" in e for e in mv["events"])


def run(ctx):
    rng, tier = ctx["rng"], ctx["tier"]
    rep = diff.replay_case(ctx)
    if rep is not None:
        cases = [rebuild(c) for c in rep]
    else:
        cases = [rebuild(c) for c in diff.load_corpus("C12")] + gen_cases(rng, tier, ctx["seed"])
    env = {"SV_TIMEOUT_MS": "30000"}
    impl, model = diff.run_cases(cases, impl_env=env) if cases else ({}, {})
    # confirmation pass: cases that do not match (or are inconclusive) run again sequentially
    retry = []
    for c in cases:
        iv, mv, fu = views(c, impl, model)
        if mv in (None, "oof"):
            continue
        if iv is None or compare(iv, mv) or fu != FOLLOW_EXPECT:
            retry.append(c)
    retried = len(retry)
    retry = retry[:40]     # bound the sequential pass; what stays inconclusive is counted and reported
    if retry:
        i3, _ = diff.run_cases([{"impl": ["R\t%s.R" % c["id"]] + c["impl"]} for c in retry],
                               impl_env={"SV_TIMEOUT_MS": "60000"}, parallel=False)
        impl.update(i3)
    findings, agree, oof, inconclusive = [], 0, 0, 0
    distinct = set()
    feats, marks, classes = {}, {}, {}
    samples = []
    for c in cases:
        iv, mv, fu = views(c, impl, model)
        classes[c["cls"]] = classes.get(c["cls"], 0) + 1
        if rep is not None:
            print("replay %s\n program:\n%s impl: %s\n       events %s\n       follow-up %s\n model: %s" % (
                c["id"], c["text"], impl.get(c["id"] + ".r"), impl.get(c["id"] + ".e"), fu, model.get(c["id"] + ".m")))
        if mv is None:
            findings.append(core.Finding("disagreement", {"cls": c["cls"], "part": "model-driver", "id": c["id"]},
                                         "the model driver gave no interpretable result: %r" % model.get(c["id"] + ".m"), strip(c)))
            continue
        if mv == "oof":
            oof += 1
            continue
        if iv is None:
            inconclusive += 1
            continue
        for f in c.get("feat", []):
            feats[f] = feats.get(f, 0) + 1
        for ch in set(mv.get("marks", "")):
            marks[ch] = marks.get(ch, 0) + 1
        if nontrivial(mv):
            distinct.add(hashlib.sha1(c["text"].replace(c["id"], "").encode()).hexdigest())
        d = compare(iv, mv)
        if fu != FOLLOW_EXPECT:
            d.append("follow-up")
        if not d:
            agree += 1
            if len(samples) < 4 and nontrivial(mv) and len(c["text"]) < 900:
                samples.append({"program": c["text"], "events": mv["events"], "answers": mv["answers"], "ball": mv["ball"]})
            continue
        sig = {"cls": c["cls"], "part": "+".join(d)}
        if (iv.get("raw") is None and d == ["events"] and c["text"].count("setup_call_cleanup(") >= 2
                and mv.get("marks", "").count("s") >= 2 and labels(iv["events"]) == labels(mv["events"])):
            # finding C12-2: the clean-up loop started for an inner setup_call_cleanup/3 (pruned by a cut inside the
            # enclosing goal, or failing) also takes the handler of the enclosing, still running goal: the same
            # events happen, the enclosing handler's too early (other order, or it sees bindings that the
            # reference has already undone)
            sig = {"cls": c["cls"], "defect": "enclosing-cleanup-runs-at-inner-cut"}
        if c["cls"].endswith("noncallable-literal") and iv.get("raw") is None and lost_cleanup(iv, mv):
            # finding C12-1: the body holding a non-callable literal is left unexpanded, the clean-up goal stays
            # unqualified and is looked up in iso_ext (existence error, swallowed on the exception path)
            sig = {"cls": c["cls"], "defect": "cleanup-goal-unqualified-after-abandoned-expansion"}
        detail = ("implementation and reference trace differ in %s.\nprogram:\n%s\nimpl: answers=%s ball=%s\n      events=%s\n"
                  "model: answers=%s ball=%s\n      events=%s marks=%s\nfollow-up: %s" % (
                      "+".join(d), c["text"], iv.get("answers"), iv.get("ball"), iv.get("events"),
                      mv["answers"], mv["ball"], mv["events"], mv.get("marks"), fu))
        if iv.get("raw") is not None:
            detail += "\nraw: " + iv["raw"]
        findings.append(core.Finding("violation", sig, detail, strip(c)))
    n_cases = len(cases)
    if inconclusive > max(3, n_cases // 100):
        # no result from the implementation even on the sequential re-run: the machine is broken
        bad = [c for c in cases if views(c, impl, model)[0] is None][:1]
        findings.append(core.Finding(
            "violation", {"cls": "any", "part": "no-result"},
            "%d of %d cases gave no result on the implementation (timeout/abort/truncated) after a sequential re-run; first: %s -> %r"
            % (inconclusive, n_cases, bad[0]["id"] if bad else "?", impl.get(bad[0]["id"] + ".r") if bad else None),
            strip(bad[0]) if bad else None))
    return {
        "evaluations": n_cases - oof,
        "distinct_nontrivial": len(distinct),
        "rule": "random programs (depth 2..5) over catch/throw/setup_call_cleanup/cut/ite/\\+/once/call-N/findall/user predicates/"
                "deep recursion/builtin errors with ev/1 logging; non-trivial = the reference trace contains a set-up/clean-up marker, "
                "an uncaught ball, or a caught-ball event; distinct by program text",
        "samples": samples,
        "traces_validated_against_impl": agree,
        "disagreements_checked": len(findings),
        "model_out_of_fuel_dropped": oof,
        "impl_inconclusive_after_retry": inconclusive,
        "retried": retried,
        "features": feats,
        "cleanup_kinds_hit": marks,
        "classes": classes,
        "findings": findings,
    }
