"""C06 — Clause selection returns exactly the clauses whose heads unify.

One *case* is a predicate `c6_<n>/2` or `/3` whose clauses carry their creation number in the last
argument, consulted as static code or built as a dynamic predicate by a history of
assertz/asserta/retract, and a set of calls `findall(I, p(Arg.., I), L)` whose first arguments are
written literally or computed at run time.  Three answers are compared per call:

* implementation (sv-harness),
* model: `select` of the Lean model (clauses handed over by the index, in order) filtered by
  head unification,
* the property's own oracle, computed here: clauses (textual order) whose head unifies.
"""
import re
import struct
from fractions import Fraction

from .. import core, diff

LEVEL = "proof"
TRUSTED_BASE = [
    "vlib/props/C06.py: translation of one abstract predicate/history/call into Prolog text and into the driver's kind tokens (integer literal or arithmetic result in [-2^55,2^55) = fixnum cell, otherwise arena Integer; `rdiv` results are arena Rationals even with denominator 1; strings and '.'/2 = list)",
    "vlib/props/C06.py: the oracle's head unification (linear terms; integers and rationals unify by value, floats by bit pattern)",
    "Model abstractions (notes/design/C06.md): index code as a tree instead of offsets; retracted dynamic clauses filtered by a liveness flag instead of birth/death clocks; code threading of compile.rs (try/retry/trust chains) represented by ordered clause lists",
]
ASSUMPTIONS = [
    "observation is findall/3 over the call in a fresh goal: the logical update view (calls running while the predicate is modified) is not exercised",
    "heads and calls are linear (no variable shared between arguments), so kind-level compatibility per argument is necessary for unification",
    "float -0.0 is not used (scryer's float interning identifies it with 0.0; outside this property)",
]

FIX_MIN, FIX_MAX = -(2 ** 55), 2 ** 55 - 1

# ------------------------------------------------------------------ terms
# ('v',) variable | ('a', name) | ('i', n) | ('q', num, den) rational object | ('f', bits)
# ('s', name, [args]); lists are '.'/2 cells ending in ('a','[]')


def V():
    return ("v",)


def A(n):
    return ("a", n)


def I(n):
    return ("i", n)


def Q(n, d):
    return ("q", n, d)


def F(x):
    return ("f", struct.unpack(">Q", struct.pack(">d", x))[0])


def S(n, *args):
    return ("s", n, list(args))


def LST(items, tail=None):
    t = A("[]") if tail is None else tail
    for x in reversed(items):
        t = S(".", x, t)
    return t


def STR(s):
    return LST([A(c) for c in s])


def numval(t):
    if t[0] == "i":
        return Fraction(t[1])
    if t[0] == "q":
        return Fraction(t[1], t[2])
    return None


def unify(x, y):
    """linear terms: a variable matches anything"""
    if x[0] == "v" or y[0] == "v":
        return True
    nx, ny = numval(x), numval(y)
    if nx is not None or ny is not None:
        return nx is not None and ny is not None and nx == ny
    if x[0] != y[0]:
        return False
    if x[0] in ("a", "f"):
        return x[1] == y[1]
    if x[0] == "s":
        return x[1] == y[1] and len(x[2]) == len(y[2]) and all(unify(a, b) for a, b in zip(x[2], y[2]))
    return False


def fits(n):
    return FIX_MIN <= n <= FIX_MAX


class Addr:
    n = 0

    @classmethod
    def fresh(cls):
        cls.n += 1
        return cls.n


def head_tok(t):
    k = t[0]
    if k == "v":
        return "v"
    if k == "a":
        return "a:" + t[1]
    if k == "i":
        return "i:%d" % t[1] if fits(t[1]) else "B:%d:%d" % (Addr.fresh(), t[1])
    if k == "q":
        return "R:%d:%d:%d" % (Addr.fresh(), t[1], t[2])
    if k == "f":
        return "f:%d" % t[1]
    if k == "s":
        if t[1] == "." and len(t[2]) == 2:
            return "l"
        return "s:%s:%d" % (t[1], len(t[2]))
    raise ValueError(t)


def call_tok(t):
    k = t[0]
    if k == "i" and not fits(t[1]):
        return "N:%d:%d:1" % (Addr.fresh(), t[1])
    if k == "q":
        return "N:%d:%d:%d" % (Addr.fresh(), t[1], t[2])
    return head_tok(t)


def call_class(t):
    k = t[0]
    if k == "i":
        return "fixnum" if fits(t[1]) else "bignum"
    return {"v": "var", "a": "atom", "q": "rational", "f": "float"}.get(k) or (
        "list" if (t[1] == "." and len(t[2]) == 2) else "struct")


# ------------------------------------------------------------------ vocabulary
# (term, literal text or None, [goal computing it into variable {V}])
VOCAB = [
    (A("a"), "a", ["{V} = a", "atom_chars({V}, [a])"]),
    (A("b"), "b", ["functor({V}, b, 0)"]),
    (A("foo"), "foo", ["atom_chars({V}, [f,o,o])", "{V} =.. [foo]"]),
    (A("[]"), "[]", ["atom_chars('', {V})", "length({V}, 0)"]),
    (I(0), "0", ["{V} is 1-1"]),
    (I(1), "1", ["{V} is 2-1", "atom_length(a, {V})"]),
    (I(2), "2", ["{V} is 1+1", "{V} is 2^60-2^60+2"]),
    (I(3), "3", ["atom_length(abc, {V})", "{V} is 6//2"]),
    (I(-1), "-1", ["{V} is 0-1"]),
    (I(FIX_MAX), str(FIX_MAX), ["{V} is 2^55-1"]),
    (I(FIX_MAX + 1), str(FIX_MAX + 1), ["{V} is 2^55"]),
    (I(FIX_MIN), str(FIX_MIN), ["{V} is -(2^55)"]),
    (I(FIX_MIN - 1), str(FIX_MIN - 1), ["{V} is -(2^55)-1"]),
    (I(10 ** 20), str(10 ** 20), ["{V} is 10^20", "{V} is 10^10*10^10"]),
    (I(-(10 ** 20)), str(-(10 ** 20)), ["{V} is -(10^20)"]),
    (I(2 ** 64), str(2 ** 64), ["{V} is 2^64", "{V} is 2^63+2^63"]),
    (Q(2, 1), None, ["{V} is 4 rdiv 2"]),
    (Q(3, 1), None, ["{V} is 6 rdiv 2"]),
    (Q(1, 3), None, ["{V} is 1 rdiv 3", "{V} is 2 rdiv 6"]),
    (Q(10 ** 20, 1), None, ["{V} is 10^20 rdiv 1"]),
    (Q(FIX_MAX, 1), None, ["{V} is (2^55-1) rdiv 1"]),
    (Q(FIX_MAX + 1, 1), None, ["{V} is 2^55 rdiv 1"]),
    (F(1.5), "1.5", ["{V} is 1.0+0.5", "{V} is 3/2"]),
    (F(2.0), "2.0", ["{V} is 4/2", "{V} is float(2)"]),
    (F(1.0e10), "10000000000.0", ["{V} is 10.0**10"]),
    (STR("abc"), '"abc"', ["atom_chars(abc, {V})", "{V} = [a,b,c]"]),
    (STR("ab"), '"ab"', ["atom_chars(ab, {V})"]),
    (LST([I(1), I(2)]), "[1,2]", ["{V} = [1|T0], T0 = [2]"]),
    (LST([A("a")], V()), "[a|_]", ["{V} =.. ['.', a, _]"]),
    (LST([V()], V()), "[_|_]", ["copy_term([_|_], {V})", "functor({V}, '.', 2)"]),
    (LST([V()]), "[_]", ["length({V}, 1)"]),
    (S("f", I(1)), "f(1)", ["{V} =.. [f,1]"]),
    (S("f", A("x")), "f(x)", ["copy_term(f(x), {V})"]),
    (S("f", V()), "f(_)", ["functor({V}, f, 1)"]),
    (S("f", I(1), I(2)), "f(1,2)", ["{V} =.. [f,1,2]"]),
    (S("f", V(), V()), "f(_,_)", ["functor({V}, f, 2)"]),
    (S("g", I(1)), "g(1)", ["{V} =.. [g,1]"]),
    (S("g", V()), "g(_)", ["functor({V}, g, 1)"]),
    (S("-", I(1), I(2)), "1-2", ["{V} = 1-2"]),
    (V(), "_", []),
]
VAR_ENTRY = VOCAB[-1]
GROUND_KEYS = [e for e in VOCAB if e[0][0] != "v"]


def same_value_entries(e):
    """entries whose term unifies with e's (e.g. 2 / 2 rdiv 1, 10^20 / 10^20 rdiv 1, f(1) / f(_))"""
    return [x for x in VOCAB if x[0][0] != "v" and unify(x[0], e[0])]


# ------------------------------------------------------------------ rendering

def render_arg(rng, e, var, force_literal=False, allow_computed=True):
    """returns (setup goals, argument text, term, computed?)"""
    term, lit, comps = e
    if lit is not None and (force_literal or not comps or not allow_computed or rng.random() < 0.5):
        return [], lit, term, False
    if not comps:
        return [], lit, term, False
    g = rng.choice(comps).replace("{V}", var)
    return [g], var, term, True


def pick_head_entry(rng, static):
    while True:
        r = rng.random()
        if r < 0.12:
            e = VAR_ENTRY
        else:
            e = rng.choice(GROUND_KEYS)
        if static and e[1] is None:
            continue
        return e


def gen_heads(rng, n, arity, static, pool):
    """n head entries per clause: list of lists of vocabulary entries (arity-1 indexed args)"""
    out = []
    for _ in range(n):
        args = []
        for j in range(arity - 1):
            if j == 0 and arity == 3 and rng.random() < 0.45:
                args.append(VAR_ENTRY)
            elif rng.random() < 0.65 and pool:
                e = rng.choice(pool)
                if static and e[1] is None:
                    e = pick_head_entry(rng, static)
                args.append(e)
            else:
                args.append(pick_head_entry(rng, static))
        out.append(args)
    return out


def make_pool(rng, static):
    """a small per-predicate vocabulary, so that keys repeat and collide"""
    k = rng.choice([1, 2, 3, 4, 6])
    pool = []
    for _ in range(k):
        e = rng.choice(GROUND_KEYS)
        pool.append(e)
        if rng.random() < 0.5:
            pool.append(rng.choice(same_value_entries(e)))
    if static:
        pool = [e for e in pool if e[1] is not None]
    return pool


class Case:
    pass


def gen_case(rng, n, tier):
    c = Case()
    c.name = "c6_%d" % n
    c.static = rng.random() < 0.45
    c.arity = 3 if rng.random() < 0.3 else 2
    pool = make_pool(rng, False)
    spool = [e for e in pool if e[1] is not None]
    impl = ["Q\t%s_u\t1\tuse_module(library(lists))." % c.name]
    clauses = []           # live: list of (id, [terms])
    heads_tok, ops_tok = [], []
    nid = 0
    hist = []              # op letters so far
    k = rng.choice([1, 1, 2, 2, 3, 4, 5, 6, 8, 10, 12])

    def clause_text(args_txt, cid):
        body = " :- true" if rng.random() < 0.1 else ""
        return "%s(%s, %d)%s." % (c.name, ", ".join(args_txt), cid, body)

    if c.static:
        if rng.random() < 0.25:
            # an earlier version of the same predicate, replaced by re-consulting
            old = gen_heads(rng, rng.choice([1, 2, 3, 5]), c.arity, True, spool)
            txt = "\\n".join(clause_text([e[1] for e in args], 900 + i) for i, args in enumerate(old))
            impl.append("L\t%s_l0\tuser\t%s\\n" % (c.name, txt))
        hs = gen_heads(rng, k, c.arity, True, spool)
        lines = []
        for args in hs:
            lines.append(clause_text([e[1] for e in args], nid))
            terms = [e[0] for e in args]
            clauses.append((nid, terms))
            heads_tok.append(",".join([head_tok(t) for t in terms] + ["i:%d" % nid]))
            nid += 1
        impl.append("L\t%s_l\tuser\t%s\\n" % (c.name, "\\n".join(lines)))
        nops = 0
    else:
        k0 = rng.choice([0, 0, 1, 2, 3, 5])
        hs = gen_heads(rng, k0, c.arity, True, spool)
        lines = [":- dynamic(%s/%d)." % (c.name, c.arity)]
        for args in hs:
            lines.append(clause_text([e[1] for e in args], nid))
            terms = [e[0] for e in args]
            clauses.append((nid, terms))
            heads_tok.append(",".join([head_tok(t) for t in terms] + ["i:%d" % nid]))
            nid += 1
        impl.append("L\t%s_l\tuser\t%s\\n" % (c.name, "\\n".join(lines)))
        nops = rng.choice([1, 2, 3, 4, 6, 8, 10, 12])

    c.obs = []
    qn = [0]

    def observe():
        ncalls = rng.choice([3, 4, 6, 8])
        calls = []
        for _ in range(ncalls):
            args, setup, txt = [], [], []
            for j in range(c.arity - 1):
                r = rng.random()
                if j == 1 and r < 0.7:
                    e = VAR_ENTRY
                elif r < 0.6 and clauses:
                    cl = rng.choice(clauses)
                    t = cl[1][j]
                    cands = [x for x in VOCAB if x[0] == t]
                    e = cands[0] if cands else VAR_ENTRY
                    if e[0][0] != "v" and rng.random() < 0.5:
                        e = rng.choice(same_value_entries(e))
                elif r < 0.68:
                    e = VAR_ENTRY
                else:
                    e = rng.choice(GROUND_KEYS)
                g, a, term, comp = render_arg(rng, e, "V%d" % j)
                setup += g
                txt.append(a)
                args.append((term, comp))
            bound = None
            if clauses and rng.random() < 0.06:
                bound = rng.choice(clauses)[0]
            elif rng.random() < 0.02:
                bound = 777
            calls.append((args, setup, txt, bound))
        for viaclause in ([False, True] if (not c.static and rng.random() < 0.35) else [False]):
            for (args, setup, txt, bound) in calls:
                qid = "%s_q%d" % (c.name, qn[0])
                qn[0] += 1
                goal = "%s(%s, I)" % (c.name, ", ".join(txt))
                if viaclause:
                    goal = "clause(%s, _)" % goal
                if bound is not None:
                    goal = "I = %d, %s" % (bound, goal)
                q = ", ".join(setup + ["findall(I, (%s), L)" % goal]) + "."
                impl.append("Q\t%s\t2\t%s" % (qid, q))
                terms = [a[0] for a in args] + [I(bound) if bound is not None else V()]
                oracle = [cid for (cid, hd) in clauses if all(unify(h, t) for h, t in zip(hd + [I(cid)], terms))]
                c.obs.append({
                    "qid": qid, "query": q, "call_terms": terms,
                    "call_tok": ",".join(call_tok(t) for t in terms),
                    "oracle": oracle, "live": [(cid, hd) for cid, hd in clauses],
                    "heads_tok": list(heads_tok), "ops_tok": list(ops_tok), "hist": "".join(hist),
                    "klass": call_class(terms[0]), "computed": any(a[1] for a in args),
                    "via": "clause" if viaclause else "call",
                })

    if c.static:
        observe()
    else:
        if rng.random() < 0.3:
            observe()
        for step in range(nops):
            r = rng.random()
            if r < 0.25 and clauses:
                # retract
                if rng.random() < 0.7:
                    cid = rng.choice(clauses)[0]
                    pat = ["_"] * (c.arity - 1)
                    q = "retract(%s(%s, %d))." % (c.name, ", ".join(pat), cid)
                else:
                    cl = rng.choice(clauses)
                    j = 0 if cl[1][0][0] != "v" or c.arity == 2 else 1
                    t = cl[1][j]
                    cands = [x for x in VOCAB if x[0] == t and x[1] is not None] or [VAR_ENTRY]
                    pat = ["_"] * (c.arity - 1)
                    pat[j] = cands[0][1]
                    pt = cands[0][0]
                    cid = [ci for ci, hd in clauses if unify(hd[j], pt)][0]
                    q = "once(retract(%s(%s, _)))." % (c.name, ", ".join(pat))
                impl.append("Q\t%s_o%d\t2\t%s" % (c.name, step, q))
                clauses[:] = [x for x in clauses if x[0] != cid]
                ops_tok.append("r=%d" % cid)
                hist.append("r")
            else:
                front = rng.random() < 0.4
                args = gen_heads(rng, 1, c.arity, False, pool)[0]
                setup, txt, terms = [], [], []
                for j, e in enumerate(args):
                    g, a, term, comp = render_arg(rng, e, "V%d" % j, allow_computed=True)
                    if e[1] is None and not g:
                        g, a, term, comp = render_arg(rng, e, "V%d" % j)
                    setup += g
                    txt.append(a)
                    terms.append(term)
                body = ""
                if rng.random() < 0.08:
                    body = " :- true"
                ctext = "%s(%s, %d)%s" % (c.name, ", ".join(txt), nid, body)
                if body:
                    ctext = "(" + ctext + ")"
                q = ", ".join(setup + ["%s(%s)" % ("asserta" if front else "assertz", ctext)]) + "."
                impl.append("Q\t%s_o%d\t2\t%s" % (c.name, step, q))
                tok = ",".join([head_tok(t) for t in terms] + ["i:%d" % nid])
                ops_tok.append(("a=" if front else "z=") + tok)
                hist.append("a" if front else "z")
                if front:
                    clauses.insert(0, (nid, terms))
                else:
                    clauses.append((nid, terms))
                nid += 1
            if step == nops - 1 or rng.random() < 0.3:
                observe()
    c.impl = impl
    c.model = []
    for o in c.obs:
        c.model.append("sel\t%s\t%s\t%s\t%s\t%s" % (
            o["qid"], "s" if c.static else "d", " ".join(o["heads_tok"]) or "-",
            " ".join(o["ops_tok"]) or "-", o["call_tok"]))
    return c


LRE = re.compile(r"L=\[([0-9,]*)\]")


def parse_impl(r):
    if r is None:
        return None
    m = LRE.search(r)
    if not m or r.startswith("error") or r.startswith("exception") or r.startswith("panic"):
        return None
    return [int(x) for x in m.group(1).split(",") if x]


def parse_model(r):
    if r is None or r.startswith("bad"):
        return None
    r = r.strip()
    return [] if r == "-" else [int(x) for x in r.split(",")]


def case_dict(c, o):
    return {"id": c.name, "impl": c.impl, "model": ["sel\t%s\t%s\t%s\t%s\t%s" % (
        o["qid"], "s" if c.static else "d", " ".join(o["heads_tok"]) or "-",
        " ".join(o["ops_tok"]) or "-", o["call_tok"])],
        "qid": o["qid"], "query": o["query"], "oracle": o["oracle"], "static": c.static,
        "call_terms": o["call_terms"], "live": o["live"], "hist": o["hist"], "klass": o["klass"],
        "computed": o["computed"], "via": o["via"]}


def pattern_of(hist):
    """which known-fragile shape the history has (used in finding signatures)"""
    i = hist.find("a")
    if i >= 0 and "z" in hist[i + 1:]:
        return "asserta-then-assertz"
    return "plain"


def dedupe(xs):
    out = []
    for x in xs:
        if x not in out:
            out.append(x)
    return out


def is_subseq(xs, ys):
    it = iter(ys)
    return all(any(x == y for y in it) for x in xs)


def classify(iv, oracle):
    """how an answer list differs from the oracle"""
    if iv is None:
        return "no-answer"
    if len(iv) > len(oracle) and dedupe(iv) == oracle:
        return "duplicate"
    if len(iv) < len(oracle) and is_subseq(iv, oracle):
        return "dropped"
    if sorted(iv) == sorted(oracle):
        return "order"
    return "different"


OPRE = re.compile(r"(assertz|asserta|retract)\(")


def failed_update(d, impl):
    """first line before the observation (use_module, consult, assert/retract) that did not succeed:
    (line id, text, result) or None.  A panic discards the machine, so nothing after it is comparable."""
    for l in d["impl"]:
        f = l.split("\t")
        lid = f[1]
        if lid == d["qid"]:
            return None
        r = impl.get(lid)
        if lid.endswith("_u"):
            ok = r is not None and r.startswith("true")
        elif f[0] == "L":
            ok = r == "loaded"
        elif re.search(r"_o\d+$", lid):
            ok = r is not None and (r.startswith("{") or r.startswith("true"))
        else:
            ok = r is not None and not r.startswith("panic")
        if not ok:
            return lid, f[-1], r, lid.endswith("_u")
    return None


def judge(obs_list, impl, model, findings, stats, verbose=False):
    reported_updates = set()
    for d in obs_list:
        qid = d["qid"]
        fu = failed_update(d, impl)
        if fu is not None:
            lid, text, r, setup = fu
            stats["skipped_after_failed_update"] = stats.get("skipped_after_failed_update", 0) + 1
            if setup:
                # loading library(lists) is not part of the property: inconclusive, never reported
                stats["inconclusive_setup"] = stats.get("inconclusive_setup", 0) + 1
                continue
            if lid in reported_updates or _incomplete(r):
                continue
            reported_updates.add(lid)
            m = OPRE.search(text)
            kind = "panic" if (r or "").startswith("panic") else "error"
            sig = {"family": "static" if d["static"] else "dynamic", "what": kind + "-in-update",
                   "op": m.group(1) if m else "load", "retract": "1" if "r" in d["hist"] else "0",
                   "pattern": pattern_of(d["hist"]) if not d["static"] else "consult"}
            payload = {k: d[k] for k in ("id", "impl", "model", "qid", "query", "oracle", "static", "hist",
                                         "klass", "computed", "via", "call_terms", "live")}
            payload["failed_line"] = lid
            payload["impl_answer"] = r
            findings.append(core.Finding(
                "violation", sig,
                "update %s answered %s (every update of the history must succeed; after a panic the "
                "machine is lost)" % (text, r), payload))
            if verbose:
                print("replay: update line %s %s -> %s" % (lid, text, r))
            continue
        iv = parse_impl(impl.get(qid))
        ms = parse_model(model.get(qid))
        oracle = d["oracle"]
        live = {cid: hd for cid, hd in d["live"]}
        terms = d["call_terms"]
        if ms is None:
            mv = None
        else:
            mv = [cid for cid in ms if cid in live and
                  all(unify(h, t) for h, t in zip(list(live[cid]) + [I(cid)], terms))]
            stats["tried"] += len(ms)
            stats["matching"] += len(oracle)
            if len(ms) < len(live):
                stats["index_discriminated"] += 1
        if verbose:
            print("replay %s\n  impl=%s\n  model select=%s -> answers %s\n  oracle=%s" % (
                d["query"], impl.get(qid), ms, mv, oracle))
        stats["by_class"][d["klass"]] = stats["by_class"].get(d["klass"], 0) + 1
        if iv == oracle and mv == oracle:
            stats["agree"] += 1
            continue
        fam = "static" if d["static"] else "dynamic"
        sig = {"family": fam, "call": d["klass"], "computed": "1" if d["computed"] else "0",
               "via": d["via"], "retract": "1" if "r" in d["hist"] else "0",
               "pattern": pattern_of(d["hist"]) if not d["static"] else "consult"}
        payload = {k: d[k] for k in ("id", "impl", "model", "qid", "query", "oracle", "static", "hist",
                                     "klass", "computed", "via", "call_terms", "live")}
        payload["impl_answer"] = impl.get(qid)
        payload["model_select"] = model.get(qid)
        if iv != oracle:
            sig["what"] = classify(iv, oracle)
            findings.append(core.Finding(
                "violation", sig,
                "implementation answered %s for %s; clauses whose head unifies, in textual order: %s" % (
                    impl.get(qid), d["query"], oracle), payload))
        else:
            sig["what"] = "model"
            findings.append(core.Finding(
                "disagreement", sig,
                "model select %s (answers %s) differs from implementation/oracle %s" % (ms, mv, oracle),
                payload))


def run(ctx):
    rng, tier = ctx["rng"], ctx["tier"]
    Addr.n = 0
    findings = []
    stats = {"agree": 0, "tried": 0, "matching": 0, "index_discriminated": 0, "by_class": {}}
    rep = diff.replay_case(ctx)
    if rep is not None:
        obs = []
        for d in rep:
            d["call_terms"] = [_tt(t) for t in d["call_terms"]]
            d["live"] = [(cid, [_tt(t) for t in hd]) for cid, hd in d["live"]]
            obs.append(d)
        impl, model = diff.run_cases(obs, parallel=False)
        judge(obs, impl, model, findings, stats, verbose=True)
        return {"evaluations": len(obs), "distinct_nontrivial": len(obs), "rule": "replay",
                "samples": [d["query"] for d in obs], "traces_validated_against_impl": stats["agree"],
                "disagreements_checked": len(obs) - stats["agree"], "findings": findings}
    obs = []
    corpus = diff.load_corpus("C06")
    for d in corpus:
        d["call_terms"] = [_tt(t) for t in d["call_terms"]]
        d["live"] = [(cid, [_tt(t) for t in hd]) for cid, hd in d["live"]]
        d["qid"] = d["qid"]
    ncases = 320 if tier == "quick" else 4000
    cases = [gen_case(rng, n, tier) for n in range(ncases)]
    run_list = [{"impl": c.impl, "model": c.model} for c in cases]
    for d in corpus:
        run_list.append({"impl": d["impl"], "model": d["model"]})
    impl, model = diff.run_cases(run_list)
    # a loaded machine can make the 10 s watchdog fire: such cases are re-run serially once and, if
    # still incomplete, counted as inconclusive (never reported)
    inconclusive = set()
    redo = [r for r in run_list if any(_incomplete(impl.get(core.line_id(l))) for l in r["impl"])
            or not (impl.get(core.line_id(r["impl"][0])) or "").startswith("true")]
    stats["rerun_serially"] = len(redo)
    for r in redo:
        again, _ = diff.run_cases([{"impl": r["impl"]}], parallel=False)
        impl.update(again)
        if any(_incomplete(again.get(core.line_id(l))) for l in r["impl"]):
            inconclusive.update(core.line_id(l) for l in r["impl"])
    stats["inconclusive_lines"] = len(inconclusive)
    for c in cases:
        for o in c.obs:
            obs.append(case_dict(c, o))
    obs = [d for d in list(corpus) + obs if d["qid"] not in inconclusive]
    judge(obs, impl, model, findings, stats)
    distinct = set()
    nstat = ndyn = 0
    hist_shapes = {}
    for c in cases:
        if c.static:
            nstat += 1
        else:
            ndyn += 1
        for o in c.obs:
            if len(o["live"]) >= 1 and o["klass"] != "var":
                distinct.add((tuple(o["heads_tok_canon"]) if "heads_tok_canon" in o else
                              (re.sub(r":\d+:", ":@:", " ".join(o["heads_tok"])),
                               re.sub(r":\d+:", ":@:", " ".join(o["ops_tok"])),
                               re.sub(r":\d+:", ":@:", o["call_tok"]), o["via"])))
            if not c.static:
                p = pattern_of(o["hist"])
                hist_shapes[p] = hist_shapes.get(p, 0) + 1
    # setup failures (a query without an L= answer) are reported by judge as violations "no-answer"
    return {
        "evaluations": len(obs),
        "distinct_nontrivial": len(distinct),
        "rule": "predicates of 1-12 clauses (arity 2/3, clause number in the last argument) over a vocabulary of atoms, fixnums incl. ±2^55 boundaries, bignums, rationals (incl. denominator 1), floats, strings, lists, f/1 f/2 g/1 -/2, variables; static (consult, 25% re-consulted) or dynamic (consulted initial clauses + 1-12 assertz/asserta/retract, observed at random points); calls literal or computed at run time (is/2, atom_length/2, =../2, atom_chars/2, functor/3), 35% of dynamic rounds also through clause/2; non-trivial = non-variable first call argument on a non-empty predicate; distinct by (heads, history, call, route) with addresses erased",
        "samples": [o["query"] for c in cases[:3] for o in c.obs[:1]] + [o["query"] for c in cases[-3:] for o in c.obs[-1:]],
        "traces_validated_against_impl": stats["agree"],
        "disagreements_checked": len(obs) - stats["agree"],
        "predicates_static": nstat, "predicates_dynamic": ndyn,
        "calls_by_first_argument_class": stats["by_class"],
        "dynamic_history_shapes": hist_shapes,
        "clauses_tried_by_model": stats["tried"], "clauses_matching": stats["matching"],
        "calls_where_index_skipped_some_clause": stats["index_discriminated"],
        "cases_rerun_serially": stats.get("rerun_serially", 0),
        "inconclusive_lines": stats.get("inconclusive_lines", 0),
        "exhaustive": False,
        "findings": findings,
    }


def _incomplete(r):
    return r is None or r.startswith("timeout") or r.startswith("abort(") or r.startswith("skipped(")


def _tt(t):
    """JSON lists back to tuples"""
    if isinstance(t, (list, tuple)):
        if t and t[0] == "s":
            return ("s", t[1], [_tt(x) for x in t[2]])
        return tuple(t)
    return t
