"""C39 — DCG translation preserves grammar semantics.

One abstract *case* = a small random grammar (2-5 non-terminals with arguments, every body construct
of src/lib/dcgs.pl, pushback rules, library non-terminals seq//1, seqq//1, ...//0) + queries.
From it we produce
  * Prolog text consulted with an `L` line (the rules go through the real term expansion of
    dcgs.pl at load time), `expand_term/2` queries for every rule (the implementation's own
    translation, compared with the model's `Dcg.rule` up to variable renaming), and `phrase/2,3`
    queries in recognising / parsing-with-remainder / generating (list of fixed length with
    unbound elements) mode, with a literal body (`inline`: goal-expanded at compile time) or a body
    bound at run time (`call`: run-time phrase/3);
  * the same rules and queries in the harness' canonical term syntax for `drv_C39`, which
    translates with `Dcg.rule`/`Dcg.tr`, solves with the reference interpreter `Solve.solve` and
    cross-checks against the direct semantics `Dcg.den` (Props/C39 proves them equal).
All answers (bindings of the positions and of the non-terminals' arguments), in order, and the
uncaught ball are compared after renaming variables by first occurrence.

Terms are tuples: ('v',name) ('i',n) ('a',name) ('s',functor,[args]) ('str',text).
"""
import re
import time

from .. import core, diff

LEVEL = "proof"
TRUSTED_BASE = [
    "Scryer.Solve.solve (Model/Solve.lean, C07) is the reference semantics of the translated goals; Scryer.Dcg.den (Model/Dcg.lean) is taken as the definition of what a grammar body means (answer sequence between two positions); it uses the same names for the intermediate position variables as the translation, so that the theorem is an equality and not an equality up to renaming",
    "vlib/props/C39.py renders one abstract grammar both as Prolog text (operators only for --> , ; | -> {} \\+, lists and strings; everything else in functional notation) and in the canonical term syntax read by drv_C39",
    "Dcg.ofTerm (the var / dcg_constr / non-terminal dispatch on terms) is driver-side reading code: the theorems quantify over the resulting Body values",
    "module-qualified bodies (M:NT), phrase//1..3 and variable bodies inside a body are translated (and compared with expand_term/2) but their run-time meaning is opaque in the model (a call to phrase/N)",
    "answers are compared up to renaming of variables; the context argument of error/2 is ignored in answers (it is compared in translation errors)",
]
ASSUMPTIONS = [
    "flags at their defaults (double_quotes=chars, occurs_check=false, unknown=error); library(dcgs) loaded",
    "queries terminate: no left recursion, self-recursion only after a consuming terminal, the input list always has a fixed length",
    "the library non-terminals seq//1, seqq//1 and ...//0 are given to the model as the clauses of dcgs.pl (their own rules translated by the model)",
]

IMPL_ENV = {"SV_TIMEOUT_MS": "6000"}
MAXA = 10


# ------------------------------------------------------------------ terms

def V(n):
    return ('v', n)


def A(n):
    return ('a', n)


def S(f, *args):
    return ('s', f, list(args))


def STR(s):
    return ('str', s)


NIL = A('[]')
TRUE = A('true')
CUT = A('!')


def lst(xs, tail=NIL):
    t = tail
    for x in reversed(xs):
        t = S('.', x, t)
    return t


def conj(gs):
    t = gs[-1]
    for g in reversed(gs[:-1]):
        t = S(',', g, t)
    return t


def term_vars(t, acc):
    if t[0] == 'v':
        if t[1] not in acc:
            acc.append(t[1])
    elif t[0] == 's':
        for a in t[2]:
            term_vars(a, acc)
    return acc


def to_tuple(t):
    if t[0] == 's':
        return ('s', t[1], [to_tuple(a) for a in t[2]])
    return tuple(t)


# ------------------------------------------------------------------ rendering

def q_atom(a):
    return "'" + a.replace("\\", "\\\\").replace("'", "\\'") + "'"


PLAIN = re.compile(r"[a-z][a-zA-Z0-9_]*")
INFIX = {',': ',', ';': ';', '|': '|', '->': '->'}


def pl(t):
    """Prolog text. Operators only for the grammar/control constructs (always parenthesised)."""
    k = t[0]
    if k == 'v':
        # the unbound list elements of the "generate" queries occur once: written anonymously
        return "_" if t[1].startswith("_E") else t[1]
    if k == 'i':
        return str(t[1])
    if k == 'str':
        return '"' + t[1] + '"'
    if k == 'a':
        if t[1] in ('[]', '!'):
            return t[1]
        return t[1] if PLAIN.fullmatch(t[1]) else q_atom(t[1])
    f, args = t[1], t[2]
    if len(args) == 2 and f in INFIX:
        return "(" + pl(args[0]) + " " + f + " " + pl(args[1]) + ")"
    if f == '-->' and len(args) == 2:
        h = args[0]
        if h[0] == 's' and h[1] == ',' and len(h[2]) == 2:
            hs = pl(h[2][0]) + ", " + pl(h[2][1])
        else:
            hs = pl(h)
        return hs + " --> " + pl(args[1])
    if f == '{}' and len(args) == 1:
        return "{ " + pl(args[0]) + " }"
    if f == '\\+' and len(args) == 1:
        return "\\+ (" + pl(args[0]) + ")"
    if f == '.' and len(args) == 2:
        items = [args[0]]
        tl = args[1]
        while tl[0] == 's' and tl[1] == '.' and len(tl[2]) == 2:
            items.append(tl[2][0])
            tl = tl[2][1]
        s = ",".join(pl(x) for x in items)
        return "[" + s + "]" if tl == NIL else "[" + s + "|" + pl(tl) + "]"
    name = f if PLAIN.fullmatch(f) else q_atom(f)
    return name + "(" + ",".join(pl(a) for a in args) + ")"


def canon(t):
    """canonical syntax of the harness (read by Drv/TermIO.parseTermStr)."""
    k = t[0]
    if k == 'v':
        return t[1]
    if k == 'i':
        return str(t[1])
    if k == 'str':
        return '"' + t[1] + '"' if t[1] else "[]"
    if k == 'a':
        return "[]" if t[1] == '[]' else q_atom(t[1])
    return q_atom(t[1]) + "(" + ",".join(canon(a) for a in t[2]) + ")"


def esc(s):
    return s.replace("\\", "\\\\").replace("\n", "\\n").replace("\t", "\\t")


# ------------------------------------------------------------------ answer parser / canonicaliser

class P:
    def __init__(self, s):
        self.s, self.i = s, 0

    def peek(self):
        return self.s[self.i] if self.i < len(self.s) else ""

    def quoted(self, q):
        self.i += 1
        out = []
        while True:
            c = self.s[self.i]
            if c == "\\":
                d = self.s[self.i + 1]
                if d == "x":
                    j = self.s.index("\\", self.i + 2)
                    out.append(chr(int(self.s[self.i + 2:j], 16)))
                    self.i = j + 1
                else:
                    out.append(d)
                    self.i += 2
            elif c == q:
                self.i += 1
                return "".join(out)
            else:
                out.append(c)
                self.i += 1

    def args(self, close):
        out = []
        while True:
            out.append(self.term())
            c = self.s[self.i]
            self.i += 1
            if c == close:
                return out
            if c != ",":
                raise ValueError("bad separator in %r at %d" % (self.s, self.i))

    NUM = re.compile(r"-?\d+")
    VAR = re.compile(r"[A-Za-z_][A-Za-z0-9_]*")

    def term(self):
        c = self.peek()
        if c == "'":
            name = self.quoted("'")
            if self.peek() == "(":
                self.i += 1
                return ('s', name, self.args(")"))
            return ('a', name)
        if c == '"':
            return lst([A(ch) for ch in self.quoted('"')])
        if c == "[":
            self.i += 1
            if self.peek() == "]":
                self.i += 1
                return NIL
            return lst(self.args("]"))
        m = self.NUM.match(self.s, self.i)
        if m:
            self.i = m.end()
            return ('i', int(m.group(0)))
        m = self.VAR.match(self.s, self.i)
        if m:
            self.i = m.end()
            return ('v', m.group(0))
        raise ValueError("cannot parse %r at %d" % (self.s, self.i))


def parse_canon(s):
    p = P(s)
    t = p.term()
    if p.i != len(s):
        raise ValueError("trailing text in %r at %d" % (s, p.i))
    return t


def normalise(t, names, blank_ctx=True):
    """rename variables by first occurrence; optionally blank the context of error/2 terms."""
    k = t[0]
    if k == 'v':
        if t[1] not in names:
            names[t[1]] = "_%d" % len(names)
        return names[t[1]]
    if k == 'i':
        return str(t[1])
    if k == 'a':
        return "[]" if t[1] == '[]' else q_atom(t[1])
    if blank_ctx and t[1] == 'error' and len(t[2]) == 2:
        return "'error'(" + normalise(t[2][0], names, blank_ctx) + ",*)"
    return q_atom(t[1]) + "(" + ",".join(normalise(a, names, blank_ctx) for a in t[2]) + ")"


def parse_bindings(body):
    p = P(body)
    out = {}
    while p.i < len(body):
        m = P.VAR.match(body, p.i)
        if not m or body[m.end():m.end() + 1] != "=":
            raise ValueError("bad binding in %r at %d" % (body, p.i))
        p.i = m.end() + 1
        out[m.group(0)] = p.term()
        if p.i < len(body):
            if body[p.i] != ",":
                raise ValueError("bad separator in %r at %d" % (body, p.i))
            p.i += 1
    return out


def split_items(s):
    return [x for x in s.split(" ;; ")] if s else []


def transient(r):
    return r is None or r == "missing" or r.startswith("timeout") or r.startswith("abort") or \
        r.startswith("skipped") or r.startswith("panic") or "timeout" in r


def impl_items(res, var="V"):
    """harness result -> (items, truncated) | None. item = ('ans', text) | ('exc', text)."""
    if res is None:
        return None
    its = split_items(res.strip())
    trunc = False
    if its and its[-1] == "...":
        trunc = True
        its = its[:-1]
    if its and its[-1] == "false":
        its = its[:-1]
    out = []
    for x in its:
        if x.startswith("error(") and x.endswith(")"):
            try:
                out.append(('exc', normalise(parse_canon(x[6:-1]), {})))
            except (ValueError, IndexError):
                return None
            continue
        if x.startswith("exception(") and x.endswith(")"):
            try:
                out.append(('exc', normalise(parse_canon(x[10:-1]), {})))
            except (ValueError, IndexError):
                return None
            continue
        if not (x.startswith("{") and x.endswith("}")):
            return None
        try:
            b = parse_bindings(x[1:-1])
        except (ValueError, IndexError):
            return None
        if var not in b:
            return None
        out.append(('ans', normalise(b[var], {})))
    return out, trunc


def model_items(res):
    """driver result -> (items, truncated, den_ok) | 'oof' | ('bad', text) | None."""
    if res is None:
        return None
    if res.startswith("oof"):
        return 'oof'
    if res.startswith("bad-rule"):
        return ('bad', res)
    m = re.match(r"R (\d+) (\d+) den=(\w+) ::(.*)$", res)
    if not m:
        return None
    its = split_items(m.group(4).strip())
    trunc = False
    if its and its[-1] == "...":
        trunc = True
        its = its[:-1]
    out = []
    for x in its:
        if x.startswith("exception(") and x.endswith(")"):
            out.append(('exc', normalise(parse_canon(x[10:-1]), {})))
        else:
            out.append(('ans', normalise(parse_canon(x), {})))
    return out, trunc, m.group(3) == "ok"


# ------------------------------------------------------------------ library non-terminals (dcgs.pl)

LIB = {
    'seq': [
        S(':-', S('seq', V('Xs'), V('Cs0'), V('Cs')),
          conj([S('var', V('Xs')), S('==', V('Cs0'), NIL), CUT, S('=', V('Xs'), NIL), S('=', V('Cs0'), V('Cs'))])),
        S('-->', S('seq', NIL), NIL),
        S('-->', S('seq', lst([V('E')], V('Es'))), S(',', lst([V('E')]), S('seq', V('Es')))),
    ],
    'seqq': [
        S('-->', S('seqq', NIL), NIL),
        S('-->', S('seqq', lst([V('Es')], V('Ess'))), S(',', S('seq', V('Es')), S('seqq', V('Ess')))),
    ],
    '...': [
        S(':-', S('...', V('Cs0'), V('Cs')), conj([S('==', V('Cs0'), NIL), CUT, S('=', V('Cs0'), V('Cs'))])),
        S('-->', A('...'), S('|', NIL, S(',', lst([V('_A')]), A('...')))),
    ],
}


def uses(t, acc):
    if t[0] == 's':
        if t[1] in ('seq', 'seqq') and len(t[2]) == 1:
            acc.add(t[1])
            if t[1] == 'seqq':
                acc.add('seq')
        for a in t[2]:
            uses(a, acc)
    elif t[0] == 'a' and t[1] == '...':
        acc.add('...')
    return acc


# ------------------------------------------------------------------ generator

ALPHA = ['a', 'b', 'c']


class Gen:
    """one random grammar. Non-terminal i calls only j > i, itself only after a consuming terminal."""

    def __init__(self, rng, cid):
        self.rng = rng
        self.cid = cid
        self.features = set()
        n = rng.choice([2, 2, 3, 3, 4, 5])
        self.nts = [("n%d_%s" % (i, cid), rng.choice([0, 0, 1, 1, 2])) for i in range(n)]
        self.pool = ['X', 'Y', 'Z']
        self.headvars = []

    def var(self):
        return V(self.rng.choice(self.pool))

    def data(self, depth=1):
        r = self.rng.random()
        if r < 0.4:
            return self.var()
        if r < 0.75 or depth == 0:
            return A(self.rng.choice(ALPHA))
        if r < 0.85:
            return S('f', self.data(0))
        return lst([self.data(0) for _ in range(self.rng.choice([0, 1, 2]))])

    def terminal(self, consuming=False):
        rng = self.rng
        r = rng.random()
        if r < 0.08 and not consuming:
            self.features.add('nil')
            return NIL
        if r < 0.4:
            self.features.add('string')
            return STR("".join(rng.choice(ALPHA[:2]) for _ in range(rng.choice([1, 1, 2]))))
        if r < 0.75:
            self.features.add('list')
            return lst([A(rng.choice(ALPHA)) for _ in range(rng.choice([1, 1, 2]))])
        self.features.add('varterm')
        xs = [self.var() if rng.random() < 0.7 else A(rng.choice(ALPHA)) for _ in range(rng.choice([1, 1, 2]))]
        return lst(xs)

    def ntcall(self, level):
        ts = [p for i, p in enumerate(self.nts) if i > level]
        rng = self.rng
        if not ts or rng.random() < 0.12:
            r = rng.random()
            if r < 0.45:
                self.features.add('seq//1')
                return S('seq', self.var() if rng.random() < 0.7 else lst([self.data(0)]))
            if r < 0.6:
                self.features.add('...//0')
                return A('...')
            if r < 0.7:
                self.features.add('seqq//1')
                return S('seqq', lst([self.var(), self.var()]))
            return self.terminal()
        name, ar = rng.choice(ts)
        args = [self.data(1) for _ in range(ar)]
        r = rng.random()
        if r < 0.12:
            self.features.add('call//1')
            return S('call', S(name, *args) if args else A(name))
        if r < 0.24 and ar >= 1:
            self.features.add('call//N')
            k = rng.randint(1, ar)
            pre = args[:ar - k]
            return S('call', S(name, *pre) if pre else A(name), *args[ar - k:])
        self.features.add('nonterminal')
        return S(name, *args) if args else A(name)

    def unif(self):
        x = self.var()
        d = self.data(1)
        if x[1] in term_vars(d, []):      # no cyclic terms (outside the model, panics elsewhere)
            d = A(self.rng.choice(ALPHA))
        return S('=', x, d)

    def brace(self, nocut=False):
        """type tests only on head variables: an inlined type test whose argument is a variable's
        first occurrence is miscompiled (open finding C07-2), which is not this property's subject."""
        rng = self.rng
        r = rng.random()
        self.features.add('{}')
        hv = self.headvars
        if r < 0.35 or (r < 0.7 and not hv):
            g = self.unif()
        elif r < 0.5:
            g = S('==', V(rng.choice(hv)), self.data(0))
        elif r < 0.6:
            g = S('\\==', V(rng.choice(hv)), self.data(0))
        elif r < 0.7:
            g = S('var', V(rng.choice(hv)))
        elif r < 0.78:
            x = self.var()
            g = S(';', S('=', x, A('a')), S('=', x, A('b')))
        elif r < 0.86 and not nocut:
            self.features.add('{!}')
            g = CUT
        elif r < 0.92:
            g = A('fail')
        elif r < 0.96 and not nocut:
            g = S(',', self.unif(), CUT)
        else:
            g = TRUE
        return S('{}', g)

    def body(self, level, depth, nocut=False):
        """`nocut`: inside the condition of (->): a cut there is not local in compiled code (open
        finding C07-1), which is not this property's subject."""
        rng = self.rng
        W = [('term', 30), ('nt', 26), ('brace', 10), ('cut', 0 if nocut else 7)]
        if depth > 0:
            W += [('seq', 34), ('alt', 12), ('bar', 7), ('ite', 9)]
        tot = sum(w for _, w in W)
        x = rng.random() * tot
        for kind, w in W:
            x -= w
            if x < 0:
                break
        d = depth - 1
        if kind == 'term':
            return self.terminal()
        if kind == 'nt':
            return self.ntcall(level)
        if kind == 'brace':
            return self.brace(nocut)
        if kind == 'cut':
            self.features.add('!')
            return CUT
        if kind == 'seq':
            return S(',', self.body(level, d, nocut), self.body(level, d, nocut))
        if kind == 'alt':
            self.features.add(';')
            return S(';', self.body(level, d, nocut), self.body(level, d, nocut))
        if kind == 'bar':
            self.features.add('|')
            return S('|', self.body(level, d, nocut), self.body(level, d, nocut))
        self.features.add('->;')
        return S(';', S('->', self.body(level, d, True), self.body(level, d, nocut)), self.body(level, d, nocut))

    def head(self, i):
        name, ar = self.nts[i]
        args = [self.data(1) if self.rng.random() < 0.4 else self.var() for _ in range(ar)]
        return S(name, *args) if args else A(name)

    def finish(self, h, pb, b):
        """variables that do not occur in the head but several times in the body are bound by a
        leading `{ini(V..)}`: a variable whose first occurrence is inside a branch of a disjunction
        and which is used after it is read uninitialised by compiled code (open finding C07-4)."""
        hv = term_vars(h, [])
        cnt = {}

        def count(t):
            if t[0] == 'v':
                cnt[t[1]] = cnt.get(t[1], 0) + 1
            elif t[0] == 's':
                for a in t[2]:
                    count(a)
        count(b)
        if pb is not None:
            count(pb)
        extra = [v for v in sorted(cnt) if v not in hv and cnt[v] >= 2]
        if extra and has_branch(b):
            self.features.add('ini-prefix')
            b = S(',', S('{}', S("ini%d_%s" % (len(extra), self.cid), *[V(v) for v in extra])), b)
        return S('-->', h if pb is None else S(',', h, pb), b)

    def rules(self):
        out = []
        rng = self.rng
        for i in range(len(self.nts)):
            for _ in range(rng.choice([1, 2, 2, 3])):
                h = self.head(i)
                self.headvars = term_vars(h, [])
                r = rng.random()
                if r < 0.15:
                    # self recursion after a consuming terminal; nothing that could push back in between
                    self.features.add('recursion')
                    name, ar = self.nts[i]
                    rec_args = [self.data(0) for _ in range(ar)]
                    rec = S(name, *rec_args) if rec_args else A(name)
                    mid = [self.brace() if rng.random() < 0.5 else self.terminal()] if rng.random() < 0.4 else []
                    out.append(self.finish(h, None, conj([self.terminal(consuming=True)] + mid + [rec])))
                elif r < 0.3:
                    self.features.add('pushback')
                    pb = rng.choice([lst([A(rng.choice(ALPHA))]), STR(rng.choice(["a", "ab"])), lst([self.var()]),
                                     lst([A('a'), A('b')]), NIL])
                    out.append(self.finish(h, pb, self.body(i, 2)))
                else:
                    out.append(self.finish(h, None, self.body(i, rng.choice([1, 2, 2, 3]))))
        self.headvars = []
        return out

    def bad_rules(self):
        """rules outside the translatable fragment (only compared through expand_term/2)."""
        rng = self.rng
        k = rng.randrange(9)
        h = self.head(0)
        b = self.body(0, 1)
        if k == 0:
            self.features.add('err:\\+')
            return S('-->', h, S(',', b, S('\\+', self.body(0, 0))))
        if k == 1:
            self.features.add('err:->')
            return S('-->', h, S(',', S('->', self.body(0, 0), self.body(0, 0)), b))
        if k == 2:
            self.features.add('err:partial-list')
            return S('-->', h, S(',', b, lst([A('a')], V('T0'))))
        if k == 3:
            self.features.add('err:non-list')
            return S('-->', h, S(';', lst([A('a')], A('foo')), b))
        if k == 4:
            self.features.add('err:->|')
            return S('-->', h, S('|', S('->', self.body(0, 0), self.body(0, 0)), b))
        if k == 5:
            self.features.add('var-body')
            return S('-->', h, S(',', b, V('B0')))
        if k == 6:
            self.features.add('phrase//N')
            return S('-->', h, S(',', S('phrase', A('foo'), *[self.var() for _ in range(rng.randrange(3))]), b))
        if k == 7:
            self.features.add('var-head')
            return S('-->', V('H0'), b)
        self.features.add('pushback-non-list')
        return S('-->', S(',', h, A('foo')), b)

    # --- queries
    def input_list(self):
        rng = self.rng
        n = rng.choice([0, 1, 1, 2, 2, 3, 3, 4])
        return [A(rng.choice(ALPHA[:2] if rng.random() < 0.8 else ALPHA)) for _ in range(n)]

    def query(self, k):
        """(mode, kind, pre, body, S0, S) — body is a grammar body term."""
        rng = self.rng
        r = rng.random()
        self.headvars = []
        if r < 0.55:
            name, ar = self.nts[0] if rng.random() < 0.6 else rng.choice(self.nts)
            args = [V("A%d" % j) if rng.random() < 0.75 else self.data(0) for j in range(ar)]
            body = S(name, *args) if args else A(name)
        else:
            body = self.body(-1, 2)
        mode = 'inline' if rng.random() < 0.5 else 'call'
        r = rng.random()
        if r < 0.4:
            kind = 'recognise'
            pre, s0, s = [], lst(self.input_list()), NIL
        elif r < 0.75:
            kind = 'remainder'
            pre, s0, s = [], lst(self.input_list()), V('R')
        else:
            kind = 'generate'
            n = rng.choice([0, 1, 2, 2, 3])
            pre = [S('=', V('L'), lst([V("_E%d" % j) for j in range(n)]))]
            s0, s = V('L'), (NIL if rng.random() < 0.6 else V('R'))
        if has_cut(body) or rng.random() < 0.1:
            # a choice point in front of phrase/3: a cut inside the body must not remove it
            self.features.add('choice-before-phrase')
            pre = [S(';', S('=', V('W'), A('p')), S('=', V('W'), A('q')))] + pre
        if mode == 'inline':
            # the literal body is compiled in place: bind its variables first (C07-2, C07-4)
            bvs = [v for v in term_vars(body, []) if not v.startswith('_')]
            if bvs:
                pre = [S("ini%d_%s" % (len(bvs), self.cid), *[V(v) for v in bvs])] + pre
        return mode, kind, (conj(pre) if pre else TRUE), body, s0, s


def has_branch(t):
    if t[0] != 's':
        return False
    if t[1] in (';', '|', '->') and len(t[2]) == 2:
        return True
    return any(has_branch(a) for a in t[2])


def has_cut(t):
    if t == CUT:
        return True
    return t[0] == 's' and any(has_cut(a) for a in t[2])


def make_case(rng, cid):
    g = Gen(rng, cid)
    rules = g.rules()
    bad = [g.bad_rules() for _ in range(rng.choice([0, 1, 1, 2]))]
    queries = [g.query(k) for k in range(rng.choice([4, 5, 6]))]
    return build_case(cid, rules, bad, queries, sorted(g.features))


def build_case(cid, rules, bad, queries, features):
    """the abstract case with its model lines; `finish_case` adds the implementation lines once the
    model has said which queries it can decide."""
    rules = [to_tuple(r) for r in rules]
    bad = [to_tuple(r) for r in bad]
    queries = [(m, k, to_tuple(p), to_tuple(b), to_tuple(s0), to_tuple(s)) for m, k, p, b, s0, s in queries]
    used = set()
    for r in rules:
        uses(r, used)
    for q in queries:
        uses(q[3], used)
    lib = [c for nm in ('seq', 'seqq', '...') if nm in used for c in LIB[nm]]
    inis = [S("ini%d_%s" % (n, cid), *[V("_I%d" % j) for j in range(n)]) for n in range(1, 7)]
    impl_tr, model, items = [], [], []
    for i, r in enumerate(rules + bad):
        lid = "t%d_%s" % (i, cid)
        impl_tr.append("Q\t%s\t2\t%s" % (lid, esc("expand_term((%s), T)." % pl(r))))
        model.append("tr\t%s\t%s" % (lid, canon(r)))
        items.append({"id": lid, "kind": "tr", "rule": pl(r)})
    facts = []
    qlines = []
    for k, (mode, kind, pre, body, s0, s) in enumerate(queries):
        lid = "q%d_%s" % (k, cid)
        vs = []
        for t in (pre, s0, s, body):
            term_vars(t, vs)
        vs = [v for v in vs if not v.startswith("_")]
        tmpl = S('v', *[V(v) for v in vs]) if vs else A('v')
        if mode == 'inline':
            if s == NIL:
                qtext = "%s, phrase(%s, %s), copy_term(%s, V)." % (pl(pre), pl(body), pl(s0), pl(tmpl))
            else:
                qtext = "%s, phrase(%s, %s, %s), copy_term(%s, V)." % (pl(pre), pl(body), pl(s0), pl(s), pl(tmpl))
            mpre, mbody = pre, body
        else:
            bvs = term_vars(body, [])
            bv = S('bv', *[V(v) for v in bvs]) if bvs else A('bv')
            fact = S("bd%d_%s" % (k, cid), body, bv)
            facts.append(fact)
            call = S("bd%d_%s" % (k, cid), V('G'), bv)
            if s == NIL and k % 2 == 0:
                # run-time phrase/2 (a literal phrase/2 goal is always rewritten to phrase/3 by goal expansion)
                qtext = "%s, %s, Ph = phrase, call(Ph, G, %s), copy_term(%s, V)." % (pl(pre), pl(call), pl(s0), pl(tmpl))
            else:
                qtext = "%s, %s, phrase(G, %s, %s), copy_term(%s, V)." % (pl(pre), pl(call), pl(s0), pl(s), pl(tmpl))
            mpre, mbody = S(',', pre, call), V('G')
        qlines.append((lid, qtext, mode, kind, mpre, mbody, s0, s, tmpl, has_cut(body)))
    text = "".join(pl(r) + ".\n" for r in rules) + "".join(pl(f) + ".\n" for f in facts + inis)
    prog_model = " ;; ".join([canon(c) for c in lib] + [canon(r) for r in rules] + [canon(f) for f in facts + inis])
    impl_q = {}
    for lid, qtext, mode, kind, mpre, mbody, s0, s, tmpl, cut in qlines:
        impl_q[lid] = "Q\t%s\t%d\t%s" % (lid, MAXA, esc(qtext))
        args = (canon(mpre), canon(mbody), canon(s0), canon(s), canon(tmpl), MAXA)
        model.append("run\t%s\t%s\t%s\t%s\t%s\t%s\t%s\t%s\t%d" % ((lid, prog_model, mode) + args))
        if mode == 'inline' and cut:
            # what the answers are if the cut of the body is NOT local to phrase/3 (classification only)
            model.append("run\t%sx\t%s\tleak\t%s\t%s\t%s\t%s\t%s\t%d" % ((lid, prog_model) + args))
        items.append({"id": lid, "kind": "run", "mode": mode, "qkind": kind, "query": qtext, "cut": cut})
    return {"id": cid, "model": model, "items": items, "program": text, "features": features,
            "impl_head": ["Q\tu_%s\t1\tuse_module(library(dcgs))." % cid] + impl_tr +
                         ["L\tl_%s\tuser\t%s" % (cid, esc(text))],
            "impl_q": impl_q,
            "abstract": {"rules": rules, "bad": bad, "queries": queries}}


def finish_case(c, model):
    """implementation lines: the queries the model could not decide (out of fuel = possibly
    non-terminating, cyclic term) are not run."""
    impl = list(c["impl_head"])
    for it in c["items"]:
        if it["kind"] != "run":
            continue
        r = model.get(it["id"], "")
        if r.startswith("R "):
            impl.append(c["impl_q"][it["id"]])
        else:
            it["dropped"] = True
    c["impl"] = impl


def rebuild(c):
    a = c["abstract"]
    return build_case(c["id"], a["rules"], a["bad"], [tuple(q) for q in a["queries"]], c.get("features", []))


def judge_tr(impl_res, model_res):
    """-> (status, impl_norm, model_norm). status: agree | differ | skip"""
    if impl_res is None or model_res is None:
        return "skip", impl_res, model_res
    its = split_items(impl_res.strip())
    if not its or not (its[0].startswith("{") and its[0].endswith("}")):
        return "skip", impl_res, model_res
    try:
        b = parse_bindings(its[0][1:-1])
    except (ValueError, IndexError):
        return "skip", impl_res, model_res
    if "T" not in b:
        return "skip", impl_res, model_res
    t = b["T"]
    if t[0] == 's' and t[1] == 'throw_dcg_expansion_error' and len(t[2]) == 1:
        i_norm = "error " + normalise(t[2][0], {}, blank_ctx=False)
    elif t[0] == 's' and t[1] == '-->':
        i_norm = "noexp"
    else:
        i_norm = "clause " + normalise(t, {}, blank_ctx=False)
    if model_res.startswith("clause "):
        m_norm = "clause " + normalise(parse_canon(model_res[7:]), {}, blank_ctx=False)
    elif model_res.startswith("error "):
        m_norm = "error " + normalise(parse_canon(model_res[6:]), {}, blank_ctx=False)
    else:
        m_norm = model_res
    return ("agree" if i_norm == m_norm else "differ"), i_norm, m_norm


def judge_run(impl_res, model_res):
    mi = model_items(model_res)
    if mi is None:
        return "model-error", None, None
    if mi == 'oof':
        return "oof", None, None
    if mi[0] == 'bad':
        return "bad-rule", None, None
    ii = impl_items(impl_res)
    if ii is None:
        return "impl-unreadable", impl_res, mi[0]
    m_items, m_trunc, den_ok = mi
    i_items, i_trunc = ii
    if not den_ok:
        return "den-diff", i_items, m_items
    n = min(len(m_items), len(i_items)) if (m_trunc or i_trunc) else None
    if n is not None and n >= MAXA - 1:
        ok = m_items[:n] == i_items[:n]
    else:
        ok = m_items == i_items
    return ("agree" if ok else "differ"), i_items, m_items


def run(ctx):
    rng = ctx["rng"]
    tier = ctx["tier"]
    rep = diff.replay_case(ctx)
    if rep is not None:
        cases = [rebuild(c) for c in rep]
    else:
        cases = [rebuild(c) for c in diff.load_corpus("C39") if "abstract" in c]
        n = 110 if tier == "quick" else 1500
        for i in range(n):
            cases.append(make_case(rng, "c%d" % i))
    t0 = time.time()
    model = core.run_model([l for c in cases for l in c["model"]])
    for c in cases:
        finish_case(c, model)
    t1 = time.time()
    impl = core.run_impl_parallel([c["impl"] for c in cases], env=IMPL_ENV)

    def bad_case(c):
        return any(transient(impl.get(core.line_id(l))) for l in c["impl"])
    # a case with a line that hit the watchdog / lost its machine is run again, alone and
    # sequentially, with a long watchdog, before it is judged
    flaky = [c for c in cases if bad_case(c)]
    retried = len(flaky)
    if flaky:
        impl.update(core.run_impl([l for c in flaky[:200] for l in c["impl"]], env={"SV_TIMEOUT_MS": "60000"}))
    core.log("[C39] correspondence run: %d cases, model %.1fs, implementation %.1fs, %d cases retried" % (
        len(cases), t1 - t0, time.time() - t1, retried))
    findings = []
    stats = {"tr": 0, "tr_agree": 0, "run": 0, "run_agree": 0, "dropped_model_undecided": 0, "skipped": 0}
    by_mode, by_kind, feat, tr_kinds = {}, {}, {}, {}
    nontrivial = set()
    samples = []
    seen_sig = set()
    for c in cases:
        for f in c["features"]:
            feat[f] = feat.get(f, 0) + 1
        broken = False     # after a panic the machine (and the loaded grammar) is gone
        for it in c["items"]:
            ir, mr = impl.get(it["id"]), model.get(it["id"])
            if rep is not None:
                core.log("[C39] %s\n   impl : %s\n   model: %s" % (it.get("query") or it.get("rule"), ir, mr))
            if it.get("dropped"):
                stats["dropped_model_undecided"] += 1
                continue
            if broken or transient(ir):
                stats["skipped"] += 1
                broken = broken or (ir is not None and ir.startswith("panic"))
                continue
            if it["kind"] == "tr":
                stats["tr"] += 1
                st, i_n, m_n = judge_tr(ir, mr)
                if st == "skip":
                    stats["skipped"] += 1
                    continue
                kind = (m_n or "").split(" ")[0]
                tr_kinds[kind] = tr_kinds.get(kind, 0) + 1
                if st == "agree":
                    stats["tr_agree"] += 1
                    nontrivial.add(it["rule"].replace(c["id"], ""))
                    continue
                sig = {"op": "expand_term", "model": kind, "impl": (i_n or "").split(" ")[0]}
                key = str(sorted(sig.items()))
                if key in seen_sig:
                    continue
                seen_sig.add(key)
                findings.append(core.Finding("violation", sig,
                                             "translation of %s: implementation %s, dcgs.pl model %s" % (it["rule"], i_n, m_n),
                                             case=strip(c)))
                continue
            stats["run"] += 1
            st, i_items, m_items = judge_run(ir, mr)
            by_mode[it["mode"]] = by_mode.get(it["mode"], 0) + 1
            by_kind[it["qkind"]] = by_kind.get(it["qkind"], 0) + 1
            if st == "agree":
                stats["run_agree"] += 1
                if m_items:
                    nontrivial.add(it["query"].replace(c["id"], "") + "|" + c["program"].replace(c["id"], ""))
                    if len(samples) < 6 and len(m_items) >= 2:
                        samples.append({"program": c["program"], "query": it["query"], "answers": m_items})
                continue
            first = None
            if i_items is not None and m_items is not None:
                for a, b in zip(i_items + [None] * len(m_items), m_items + [None] * len(i_items)):
                    if a != b:
                        first = (a, b)
                        break
            sig = None
            if st == "differ" and it["mode"] == "inline" and it.get("cut"):
                # does the implementation behave as if the body's cut were not local to phrase/3?
                stx, ix, mx = judge_run(ir, model.get(it["id"] + "x"))
                if stx == "agree":
                    sig = {"op": "phrase", "mode": "inline", "defect": "cut-in-goal-expanded-phrase-body-is-not-local"}
            if sig is None:
                shape = "other"
                if st == "den-diff":
                    shape = "model-internal"
                elif first:
                    a, b = first
                    shape = "%s/%s" % (a[0] if a else "none", b[0] if b else "none")
                sig = {"op": "phrase", "mode": it["mode"], "shape": shape}
            key = str(sorted(sig.items()))
            if key in seen_sig:
                continue
            seen_sig.add(key)
            findings.append(core.Finding("violation" if st == "differ" else "disagreement", sig,
                                         "%s [%s]: implementation %s, reference %s; program:\n%s" % (
                                             it["query"], st, i_items if i_items is not None else ir,
                                             m_items if m_items is not None else mr, c["program"]),
                                         case=strip(c)))
    done = stats["tr"] + stats["run"]
    return {
        "evaluations": done,
        "distinct_nontrivial": len(nontrivial),
        "rule": "random grammars (2-5 non-terminals with 0-2 arguments, bodies of depth <= 3 over terminals as lists/strings/"
                "variables, non-terminals, {}//0, !, (,), (;), (|), (->;), call//N, seq//1, seqq//1, ...//0, pushback and "
                "self-recursive rules) + per grammar: expand_term/2 on every rule and on 0-2 untranslatable rules, and 4-6 "
                "phrase/2,3 queries (recognise / remainder / generate; literal body or body bound at run time). non-trivial = "
                "translation item agreeing, or query with at least one answer or ball; distinct by text with the case id removed",
        "samples": samples,
        "traces_validated_against_impl": stats["tr_agree"] + stats["run_agree"],
        "disagreements_checked": done - (stats["tr_agree"] + stats["run_agree"]),
        "retried_after_timeout": retried,
        "stats": stats,
        "queries_by_mode": by_mode,
        "queries_by_kind": by_kind,
        "translation_results": tr_kinds,
        "features_hit": feat,
        "findings": findings,
    }


def strip(c):
    return {"id": c["id"], "abstract": c["abstract"], "features": c["features"], "program": c["program"]}
