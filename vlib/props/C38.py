"""C38 — Delimited control and tabling compute the specified answers.

Family `tabling` (part B): random function-free definite programs (left / right / double / mutual
recursion, same-generation, unary reachability, random safe rules) over random finite relations
(cyclic graphs, self loops); every IDB predicate is declared `:- table`.  Each query (all modes) is
run RAW (no findall) on the implementation: it must terminate, give no duplicate answer and exactly
the answer set of the proved least-fixpoint model (`drv_C38 lfp`).  On programs whose SLD tree is
finite the same program without `:- table` must give the same set.
Family `cont` (part A): see further down.
"""
import itertools
import re
import time

from .. import core, diff

LEVEL = "proof"
TRUSTED_BASE = [
    "rendering of the abstract Datalog program to Prolog text and to the driver's token encoding (vlib/props/C38.py render_* / enc_*); an independent Python least-fixpoint computation is compared with the Lean model on every case",
    "the SLG engine (src/lib/tabling.pl, src/lib/tabling/*.pl) is NOT mirrored: it is tied to the proved specification (least Herbrand model) by execution only",
    "canonical answer printing of the harness (bindings of query variables)",
]
ASSUMPTIONS = [
    "tabled programs are function-free, positive, range-restricted (every head variable occurs in the body), at most 6 constants, 4 variables per rule, 3 tabled predicates of arity <= 2",
    "untabled cross-check only on programs whose SLD tree is finite by construction (acyclic predicate dependency graph, or right recursion through an acyclic edge relation)",
]
IMPL_ENV = {"SV_TIMEOUT_MS": "20000"}        # first pass; a query that hits it is re-run alone with 60 s
RETRY_ENV = {"SV_TIMEOUT_MS": "60000"}

CONSTS = ["a", "b", "1", "c", "2", "d"]          # constant i of the model is this Prolog constant
CANON = {"'a'": 0, "'b'": 1, "1": 2, "'c'": 3, "2": 4, "'d'": 5}


# ------------------------------------------------------------------ abstract programs
# atom = (pred, (arg,…)); arg = ("c", i) | ("v", i); rule = (head, [body atoms])

def V(i):
    return ("v", i)


def C(i):
    return ("c", i)


def rand_edges(rng, n, allow_cycle=True):
    dens = rng.choice([0.15, 0.3, 0.3, 0.5, 0.8])
    es = []
    for i in range(n):
        for j in range(n):
            if not allow_cycle and i >= j:
                continue
            if rng.random() < dens:
                es.append((i, j))
    if allow_cycle and n >= 2 and rng.random() < 0.5:
        # make sure there is a cycle
        k = rng.randint(2, n) if n > 2 else 2
        cyc = rng.sample(range(n), k)
        for a, b in zip(cyc, cyc[1:] + cyc[:1]):
            if (a, b) not in es:
                es.append((a, b))
    if not allow_cycle:
        # relabel by a random permutation so that "acyclic" is not "ascending"
        perm = list(range(n))
        rng.shuffle(perm)
        es = [(perm[a], perm[b]) for a, b in es]
    rng.shuffle(es)
    return es


def gen_program(rng, shape=None, n=None, edges=None):
    """returns dict(n, arity{pred:k}, edb[preds], idb[preds], rules, shape, sld_finite)"""
    n = n if n is not None else rng.choice([2, 3, 3, 4, 4, 5, 6])
    shape = shape or rng.choice(["left", "right", "double", "mutual", "mutual3", "sg", "reach", "random",
                                 "random", "random", "rightdag", "nonrec", "twopaths"])
    acyclic = shape in ("rightdag",)
    E = 0
    arity = {E: 2}
    rules = []
    es = edges if edges is not None else rand_edges(rng, n, allow_cycle=not acyclic)
    for a, b in es:
        rules.append(((E, (C(a), C(b))), []))
    edb, idb = [E], []
    sld_finite = False
    X, Y, Z, W = V(0), V(1), V(2), V(3)

    def shuffled(body):
        body = list(body)
        rng.shuffle(body)
        return body

    if shape in ("left", "right", "double", "rightdag"):
        P = 1
        arity[P] = 2
        idb = [P]
        rules.append(((P, (X, Y)), [(E, (X, Y))]))
        if shape == "left":
            rules.append(((P, (X, Y)), [(P, (X, Z)), (E, (Z, Y))]))
        elif shape in ("right", "rightdag"):
            rules.append(((P, (X, Y)), [(E, (X, Z)), (P, (Z, Y))]))
            sld_finite = shape == "rightdag"
        else:
            rules.append(((P, (X, Y)), [(P, (X, Z)), (P, (Z, Y))]))
    elif shape == "twopaths":
        # two tabled closures, one calling the other: q = closure of (p ∘ f)
        P, Q, F = 1, 2, 3
        arity.update({P: 2, Q: 2, F: 2})
        edb.append(F)
        idb = [P, Q]
        for a, b in rand_edges(rng, n):
            rules.append(((F, (C(a), C(b))), []))
        rules.append(((P, (X, Y)), [(E, (X, Y))]))
        rules.append(((P, (X, Y)), [(P, (X, Z)), (E, (Z, Y))]))
        rules.append(((Q, (X, Y)), shuffled([(P, (X, Z)), (F, (Z, Y))])))
        rules.append(((Q, (X, Y)), shuffled([(Q, (X, Z)), (P, (Z, W)), (F, (W, Y))])))
    elif shape == "mutual":
        P, Q, F = 1, 2, 3
        arity.update({P: 2, Q: 2, F: 2})
        edb.append(F)
        idb = [P, Q]
        for a, b in rand_edges(rng, n):
            rules.append(((F, (C(a), C(b))), []))
        rules.append(((P, (X, Y)), [(E, (X, Y))]))
        rules.append(((P, (X, Y)), shuffled([(Q, (X, Z)), (E, (Z, Y))])))
        rules.append(((Q, (X, Y)), shuffled([(P, (X, Z)), (F, (Z, Y))])))
        if rng.random() < 0.5:
            rules.append(((Q, (X, Y)), [(F, (X, Y))]))
    elif shape == "mutual3":
        # even / odd length paths and their union
        EV, OD, AL = 1, 2, 3
        arity.update({EV: 2, OD: 2, AL: 2})
        idb = [EV, OD, AL]
        rules.append(((OD, (X, Y)), [(E, (X, Y))]))
        rules.append(((OD, (X, Y)), shuffled([(EV, (X, Z)), (E, (Z, Y))])))
        rules.append(((EV, (X, Y)), shuffled([(OD, (X, Z)), (E, (Z, Y))])))
        rules.append(((AL, (X, Y)), [(EV, (X, Y))]))
        rules.append(((AL, (X, Y)), [(OD, (X, Y))]))
    elif shape == "sg":
        SG, U = 1, 2
        arity.update({SG: 2, U: 1})
        edb.append(U)
        idb = [SG]
        for i in range(n):
            if rng.random() < 0.7:
                rules.append(((U, (C(i),)), []))
        rules.append(((SG, (X, X)), [(U, (X,))]))
        rules.append(((SG, (X, Y)), shuffled([(E, (Z, X)), (SG, (Z, W)), (E, (W, Y))])))
    elif shape == "reach":
        R, S = 1, 2
        arity.update({R: 1, S: 1})
        edb.append(S)
        idb = [R]
        for i in range(n):
            if rng.random() < 0.35:
                rules.append(((S, (C(i),)), []))
        rules.append(((R, (X,)), [(S, (X,))]))
        rules.append(((R, (Y,)), shuffled([(R, (X,)), (E, (X, Y))])))
    else:  # random / nonrec
        nidb = rng.choice([1, 2, 2, 3])
        idb = list(range(1, nidb + 1))
        for p in idb:
            arity[p] = rng.choice([1, 2, 2])
        if rng.random() < 0.5:
            U = nidb + 1
            arity[U] = 1
            edb.append(U)
            for i in range(n):
                if rng.random() < 0.5:
                    rules.append(((U, (C(i),)), []))
        for p in idb:
            for _ in range(rng.choice([1, 2, 2, 3])):
                if shape == "nonrec":
                    callable_ = edb + [q for q in idb if q < p]
                else:
                    callable_ = edb + idb
                nb = rng.choice([1, 2, 2, 3])
                nv = rng.choice([2, 3, 3, 4])
                body = []
                for _ in range(nb):
                    q = rng.choice(callable_)
                    args = tuple(C(rng.randrange(n)) if rng.random() < 0.1 else V(rng.randrange(nv))
                                 for _ in range(arity[q]))
                    body.append((q, args))
                bvars = sorted({a[1] for _, args in body for a in args if a[0] == "v"})
                hargs = tuple(C(rng.randrange(n)) if (not bvars or rng.random() < 0.08) else V(rng.choice(bvars))
                              for _ in range(arity[p]))
                rules.append(((p, hargs), body))
            if rng.random() < 0.25:
                # a tabled predicate may also have facts
                rules.append(((p, tuple(C(rng.randrange(n)) for _ in range(arity[p]))), []))
        sld_finite = shape == "nonrec"
    # clause order is irrelevant for the specification: shuffle the clauses of every predicate
    # (clauses of one predicate stay contiguous: discontiguous clauses need a directive in Prolog)
    rng.shuffle(rules)
    rules.sort(key=lambda r: r[0][0])
    prog = {"n": n, "arity": {str(k): v for k, v in arity.items()}, "edb": edb, "idb": idb,
            "rules": rules, "shape": shape, "sld_finite": sld_finite}
    if sld_finite and sld_cost(prog) > 20000:
        prog["sld_finite"] = False
    return prog


def gen_queries(rng, prog, maxq):
    n = prog["n"]
    qs = []
    for p in prog["idb"] + ([prog["edb"][0]] if rng.random() < 0.2 else []):
        k = prog["arity"][str(p)]
        if k == 1:
            modes = [(V(0),), (C(rng.randrange(n)),)]
        else:
            modes = [(V(0), V(1)), (C(rng.randrange(n)), V(0)), (V(0), C(rng.randrange(n))),
                     (C(rng.randrange(n)), C(rng.randrange(n))), (V(0), V(0))]
        for m in modes:
            qs.append((p, m))
    rng.shuffle(qs)
    return qs[:maxq]


# ------------------------------------------------------------------ rendering

def pname(p, cid, sfx=""):
    return "p%d_%s%s" % (p, cid, sfx)


def render_arg(a):
    return CONSTS[a[1]] if a[0] == "c" else "V%d" % a[1]


def render_atom(at, cid, sfx=""):
    p, args = at
    return "%s(%s)" % (pname(p, cid, sfx), ",".join(render_arg(a) for a in args))


def render_program(prog, cid, tabled=True, sfx=""):
    out = [":- use_module(library(tabling))."] if tabled else []
    for p in prog["edb"] + prog["idb"]:
        k = prog["arity"][str(p)]
        if tabled and p in prog["idb"]:
            out.append(":- table %s/%d." % (pname(p, cid, sfx), k))
        else:
            out.append(":- dynamic(%s/%d)." % (pname(p, cid, sfx), k))
    for h, b in prog["rules"]:
        if b:
            out.append("%s :- %s." % (render_atom(h, cid, sfx), ", ".join(render_atom(x, cid, sfx) for x in b)))
        else:
            out.append("%s." % render_atom(h, cid, sfx))
    return "\n".join(out) + "\n"


def enc_atom(at):
    p, args = at
    return "%d %d %s" % (p, len(args), " ".join("%s%d" % (a[0], a[1]) for a in args))


def enc_program(prog):
    rs = prog["rules"]
    return "%d %s" % (len(rs), " ".join("%d %s %s" % (len(b), enc_atom(h), " ".join(enc_atom(x) for x in b))
                                        for h, b in rs))


def esc(s):
    return s.replace("\\", "\\\\").replace("\n", "\\n").replace("\t", "\\t")


def qvars(q):
    vs = []
    for a in q[1]:
        if a[0] == "v" and a[1] not in vs:
            vs.append(a[1])
    return vs


def parse_untabled(text, q):
    """`{L=['tt'('a',1),…],L0=…}` -> set of answer tuples, or None"""
    m = re.fullmatch(r"\{L=(\[.*\]),L0=.*\}", text)
    if not m:
        return None
    vs = qvars(q)
    out = set()
    body = m.group(1)[1:-1]
    if not body:
        return out
    if not vs:
        return {()} if body == "'tt'" else None
    for t in re.findall(r"'tt'\(([^()]*)\)", body):
        cs = [CANON.get(x) for x in t.split(",")]
        if None in cs or len(cs) != len(vs):
            return None
        out.add(tuple(sorted(zip(vs, cs))))
    return out


def sld_cost(prog):
    """crude upper bound on the number of SLD derivations of a most general call (non-recursive programs)"""
    n = prog["n"]
    memo = {}

    def cost(p, depth=0):
        if p in memo:
            return memo[p]
        if depth > 8:
            return 10 ** 9
        tot = 0
        for h, b in prog["rules"]:
            if h[0] != p:
                continue
            c = 1
            for x in b:
                c *= max(1, cost(x[0], depth + 1))
            tot += c
        memo[p] = tot
        return tot
    return max([cost(p) for p in prog["idb"]] + [0])


def norm_atom(at):
    return (at[0], tuple((a[0], a[1]) for a in at[1]))


def make_tab_case(cid, prog, queries):
    prog = dict(prog)
    prog["rules"] = [(norm_atom(h), [norm_atom(b) for b in bs]) for h, bs in prog["rules"]]
    queries = [norm_atom(q) for q in queries]
    impl = ["Q\t%su\t1\tuse_module(library(tabling))." % cid,
            "L\t%sl\tuser\t%s" % (cid, esc(render_program(prog, cid)))]
    for j, q in enumerate(queries):
        impl.append("Q\t%sq%d\t1000\t%s." % (cid, j, render_atom(q, cid)))
    if prog["sld_finite"]:
        impl.append("L\t%sm\tuser\t%s" % (cid, esc(render_program(prog, cid, tabled=False, sfx="n"))))
        for j, q in enumerate(queries):
            vs = qvars(q)
            tmpl = "tt(%s)" % ",".join("V%d" % v for v in vs) if vs else "tt"
            impl.append("Q\t%sn%d\t2\tfindall(%s, %s, L0), sort(L0, L)." % (cid, j, tmpl, render_atom(q, cid, "n")))
    model = ["lfp\t%sM\t%s\t%s\t%d %s" % (cid, " ".join(str(i) for i in range(prog["n"])), enc_program(prog),
                                           len(queries), " ".join(enc_atom(q) for q in queries))]
    return {"id": cid, "fam": "tabling", "prog": prog, "queries": queries, "impl": impl, "model": model,
            "text": render_program(prog, cid)}


# ------------------------------------------------------------------ independent Python fixpoint (third opinion)

def py_lfp(prog):
    n = prog["n"]
    facts = set()
    rules = prog["rules"]
    while True:
        new = set()
        for h, body in rules:
            vs = sorted({a[1] for _, args in [h] + list(body) for a in args if a[0] == "v"})
            for vals in itertools.product(range(n), repeat=len(vs)):
                env = dict(zip(vs, vals))
                g = lambda at: (at[0], tuple(a[1] if a[0] == "c" else env[a[1]] for a in at[1]))
                if all(g(b) in facts for b in body):
                    new.add(g(h))
        if new <= facts:
            return facts
        facts |= new


def py_answers(facts, n, q):
    vs = []
    for a in q[1]:
        if a[0] == "v" and a[1] not in vs:
            vs.append(a[1])
    out = set()
    for vals in itertools.product(range(n), repeat=len(vs)):
        env = dict(zip(vs, vals))
        g = (q[0], tuple(a[1] if a[0] == "c" else env[a[1]] for a in q[1]))
        if g in facts:
            out.add(tuple(sorted(env.items())))
    return out


# ------------------------------------------------------------------ answer parsing

BIND = re.compile(r"V(\d+)=([^,}]*)")


def parse_impl_answers(text):
    """-> (status, [answer tuples]) ; status in ok | timeout | more | bad:<text>"""
    parts = text.split(" ;; ")
    ans = []
    status = "ok"
    for k, p in enumerate(parts):
        if p == "false":
            if k != len(parts) - 1:
                return "bad:false-in-the-middle", ans
            continue
        if p == "true":
            ans.append(())
            continue
        if p == "...":
            return "more", ans
        if p == "timeout":
            return "timeout", ans
        if p.startswith("{") and p.endswith("}"):
            b = []
            ok = True
            for m in BIND.finditer(p[1:-1] + ","):
                c = CANON.get(m.group(2))
                if c is None:
                    ok = False
                    break
                b.append((int(m.group(1)), c))
            if not ok:
                return "bad:" + p, ans
            ans.append(tuple(sorted(b)))
            continue
        return "bad:" + p, ans
    return status, ans


def parse_model_answers(text):
    if text == "none":
        return set(), False
    out = []
    for a in text.split(";"):
        if a == "yes":
            out.append(())
        else:
            out.append(tuple(sorted((int(x.split("=")[0][1:]), int(x.split("=")[1])) for x in a.split(","))))
    return set(out), len(set(out)) != len(out)


def mode_of(q):
    return "".join("b" if a[0] == "c" else ("f%d" % a[1]) for a in q[1])


TRANSIENT = ("timeout", "panic(", "abort(", "missing", "skipped(")


def transient(r):
    return any(r.startswith(t) or (" ;; " + t) in r for t in TRANSIENT)


# ------------------------------------------------------------------ run

def gen_tab_cases(rng, tier):
    cases = []
    k = 0
    if tier == "quick":
        nrand, maxq = 150, 6
    else:
        nrand, maxq = 2000, 8
    # exhaustive small graphs (thorough: all 512 digraphs on 3 nodes incl. loops x 3 shapes;
    # quick: all 16 digraphs on 2 nodes x 3 shapes)
    nn = 2 if tier == "quick" else 3
    pairs = [(i, j) for i in range(nn) for j in range(nn)]
    for mask in range(1 << len(pairs)):
        es = [pairs[b] for b in range(len(pairs)) if mask >> b & 1]
        for shape in ("left", "right", "double"):
            prog = gen_program(rng, shape=shape, n=nn, edges=es)
            cases.append(make_tab_case("t%d" % k, prog, gen_queries(rng, prog, 3 if tier != "quick" else 5)))
            cases[-1]["exhaustive"] = True
            k += 1
    for _ in range(nrand):
        prog = gen_program(rng)
        cases.append(make_tab_case("t%d" % k, prog, gen_queries(rng, prog, maxq)))
        k += 1
    return cases


def judge_tab(c, impl, model, findings, stats, verbose=False):
    cid, prog = c["id"], c["prog"]
    ok_all = True
    mtxt = model.get(cid + "M", "missing")
    mparts = mtxt.split(" | ")
    facts = py_lfp(prog)
    base_sig = {"family": "tabling", "shape": prog["shape"]}
    keep = {k: c[k] for k in ("id", "fam", "prog", "queries", "impl", "model", "text")}
    if mtxt == "missing" or mtxt.startswith("bad") or len(mparts) != 1 + len(c["queries"]):
        findings.append(core.Finding("disagreement", dict(base_sig, what="model-driver-output", out=mtxt[:80]),
                                     "model driver gave no usable answer", keep))
        return False
    mn = int(mparts[0].split(" ")[0][2:])
    stats["rounds"][mparts[0].split(" ")[1]] = stats["rounds"].get(mparts[0].split(" ")[1], 0) + 1
    if mn != len(facts):
        findings.append(core.Finding("disagreement", dict(base_sig, what="model-vs-python-lfp-size"),
                                     "Lean lfp has %d atoms, Python fixpoint %d" % (mn, len(facts)), keep))
        ok_all = False
    load = impl.get(cid + "l", "missing")
    if load != "loaded":
        findings.append(core.Finding("violation", dict(base_sig, what="load", out=load[:120]),
                                     "tabled program did not load", keep))
        return False
    for j, q in enumerate(c["queries"]):
        stats["queries"] += 1
        mset, mdup = parse_model_answers(mparts[1 + j])
        pset = py_answers(facts, prog["n"], q)
        sig = dict(base_sig, mode=mode_of(q), tabled_pred=str(q[0] in prog["idb"]))
        if mdup or mset != pset:
            findings.append(core.Finding("disagreement", dict(sig, what="model-vs-python-answers"),
                                         "Lean answers differ from the independent Python fixpoint", keep))
            ok_all = False
            continue
        raw = impl.get("%sq%d" % (cid, j), "missing")
        st, ans = parse_impl_answers(raw)
        if verbose:
            print("  query %s: impl=%s model=%s" % (render_atom(q, cid), raw, mparts[1 + j]))
        stats["modes"][sig["mode"]] = stats["modes"].get(sig["mode"], 0) + 1
        if st != "ok":
            kind = "no-termination" if st in ("timeout", "more") else "error"
            findings.append(core.Finding("violation", dict(sig, what=kind, out=raw[:100] if kind == "error" else st),
                                         "tabled query %s: %s" % (render_atom(q, cid), raw[:200]), keep))
            ok_all = False
            continue
        if len(set(ans)) != len(ans):
            findings.append(core.Finding("violation", dict(sig, what="duplicate-answer"),
                                         "tabled query %s returned a duplicate answer: %s" % (render_atom(q, cid), raw[:300]), keep))
            ok_all = False
            continue
        if set(ans) != mset:
            what = "missing-answer" if set(ans) < mset else ("extra-answer" if set(ans) > mset else "wrong-answers")
            findings.append(core.Finding("violation", dict(sig, what=what),
                                         "tabled query %s: answers %s, least fixpoint %s" % (
                                             render_atom(q, cid), sorted(set(ans)), sorted(mset)), keep))
            ok_all = False
            continue
        if mset:
            stats["nonempty"] += 1
        if prog["sld_finite"]:
            stats["untabled_checked"] += 1
            raw2 = impl.get("%sn%d" % (cid, j), "missing")
            ans2 = parse_untabled(raw2, q)
            if ans2 is None or ans2 != set(ans):
                findings.append(core.Finding("violation", dict(sig, what="tabled-vs-untabled"),
                                             "untabled %s: %s ; tabled: %s" % (render_atom(q, cid, "n"), raw2[:200], raw[:200]), keep))
                ok_all = False
    return ok_all


# ====================================================================== family `cont` (part A)
# terms: ("v", name) | ("i", n) | ("a", name) | ("s", functor, [args]) ; lists through lst()

def S(f, *args):
    return ("s", f, list(args)) if args else ("a", f)


def A(n):
    return ("a", n)


def I(n):
    return ("i", n)


def Vr(n):
    return ("v", n)


def lst(xs, tail=None):
    t = tail if tail is not None else A("[]")
    for x in reversed(xs):
        t = ("s", ".", [x, t])
    return t


def conj(*gs):
    gs = [g for g in gs]
    t = gs[-1]
    for g in reversed(gs[:-1]):
        t = S(",", g, t)
    return t


def ite(c, t, e):
    return S(";", S("->", c, t), e)


def canon(t):
    k = t[0]
    if k == "v":
        return t[1]
    if k == "i":
        return str(t[1])
    if k == "a":
        return "[]" if t[1] == "[]" else "'%s'" % t[1]
    return "'%s'(%s)" % (t[1], ",".join(canon(x) for x in t[2]))


def cont_library(sfx):
    """the fixed clauses: generators, handlers (with forwarding of the effects they do not handle)"""
    P = lambda n, *a: S(n + sfx, *a)
    X, Xs, G, L, B, C, K, N, N1, S0, S1, Sv, Y, E = (Vr(n) for n in
                                                      ("X", "Xs", "G", "L", "B", "C", "K", "N", "N1", "S0", "S1", "Sv", "Y", "E"))
    sh = lambda t: S("shift", t)
    cl = []
    cl.append((P("fromlist", A("[]")), None))
    cl.append((P("fromlist", lst([X], Xs)), conj(sh(S("yield", X)), P("fromlist", Xs))))
    cl.append((P("countdown", N), ite(S("=<", N, I(0)), A("true"),
                                      conj(sh(S("yield", N)), S("is", N1, S("-", N, I(1))), P("countdown", N1)))))
    # collect all yielded values
    cl.append((P("collect", G, L), conj(S("reset", G, B, C), P("collect_", C, B, L))))
    cl.append((P("collect_", A("none"), B, A("[]")), None))
    cl.append((P("collect_", S("cont", K), S("yield", X), lst([X], L)), P("collect", K, L)))
    cl.append((P("collect_", S("cont", K), S("get", X), L), conj(sh(S("get", X)), P("collect", K, L))))
    cl.append((P("collect_", S("cont", K), S("put", X), L), conj(sh(S("put", X)), P("collect", K, L))))
    # the first N yielded values, then the continuation is dropped
    cl.append((P("take", N, G, L), ite(S("=<", N, I(0)), S("=", L, A("[]")),
                                       conj(S("reset", G, B, C), P("take_", C, B, N, L)))))
    cl.append((P("take_", A("none"), B, N, A("[]")), None))
    cl.append((P("take_", S("cont", K), S("yield", X), N, lst([X], L)),
               conj(S("is", N1, S("-", N, I(1))), P("take", N1, K, L))))
    cl.append((P("take_", S("cont", K), S("get", X), N, L), conj(sh(S("get", X)), P("take", N, K, L))))
    cl.append((P("take_", S("cont", K), S("put", X), N, L), conj(sh(S("put", X)), P("take", N, K, L))))
    # state handler
    cl.append((P("runstate", G, S0, Sv), conj(S("reset", G, B, C), P("st_", C, B, S0, Sv))))
    cl.append((P("st_", A("none"), B, Sv, Sv), None))
    cl.append((P("st_", S("cont", K), S("get", X), S0, Sv), conj(S("=", X, S0), P("runstate", K, S0, Sv))))
    cl.append((P("st_", S("cont", K), S("put", X), S0, Sv), P("runstate", K, X, Sv)))
    cl.append((P("st_", S("cont", K), S("yield", X), S0, Sv), conj(sh(S("yield", X)), P("runstate", K, S0, Sv))))
    cl.append((P("incr"), conj(sh(S("get", X)), S("is", Y, S("+", X, I(1))), sh(S("put", Y)))))
    # sum of the yielded numbers, computed AFTER the rest of the generator has run
    cl.append((P("sumall", G, Sv), conj(S("reset", G, B, C), P("sum_", C, B, Sv))))
    cl.append((P("sum_", A("none"), B, I(0)), None))
    cl.append((P("sum_", S("cont", K), S("yield", X), Sv), conj(P("sumall", K, S1), S("is", Sv, S("+", S1, X)))))
    return cl


class ContGen:
    def __init__(self, rng, sfx):
        self.rng, self.sfx, self.nv, self.npred = rng, sfx, 0, 0
        self.extra = []      # user predicates (head, body)
        self.features = set()

    def P(self, n, *a):
        return S(n + self.sfx, *a)

    def fresh(self):
        self.nv += 1
        return Vr("V%d" % self.nv)

    def val(self):
        r = self.rng
        return r.choice([I(r.randint(-3, 9)), I(r.randint(0, 5)), A(r.choice("abc")), S("p", I(r.randint(0, 3)), A("q"))])

    def num(self):
        return I(self.rng.randint(0, 6))

    def body(self, depth, eff, numeric=False):
        """a deterministic goal that may perform the effects in `eff` (subset of {'yield','state'});
        numeric: only integers are yielded (for sumall)"""
        r = self.rng
        sh = lambda t: S("shift", t)
        opts = ["true", "unify"]
        if "yield" in eff:
            opts += ["yield", "yield", "yield", "fromlist", "countdown"]
        if "state" in eff:
            opts += ["incr", "put", "getput"]
            if "yield" in eff:
                opts += ["getyield"]
        if depth > 0:
            opts += ["ite", "call", "seq", "seq", "seq", "seq", "seq", "userpred", "userpred", "cut"]
            if "yield" in eff and not numeric:
                opts += ["collect", "take", "innerstate"]
            if "yield" in eff:
                opts += ["sumall"]
            if "state" in eff:
                opts += ["collectput"]
        k = r.choice(opts)
        self.features.add(k)
        if k == "true":
            return A("true")
        if k == "seq":
            return conj(self.body(depth - 1, eff, numeric), self.body(depth - 1, eff, numeric))
        if k == "unify":
            return S("=", self.fresh(), self.val())
        if k == "cut":
            # a cut after a shift: executed in the resumed continuation (the cut point stored in the
            # captured environment chunk is adjusted by '$call_continuation'); a no-op in this fragment
            return conj(self.body(depth - 1, eff, numeric), A("!"), self.body(depth - 1, eff, numeric))
        if k == "yield":
            return sh(S("yield", self.num() if numeric else self.val()))
        if k == "fromlist":
            return self.P("fromlist", lst([self.num() if numeric else self.val() for _ in range(r.randint(0, 4))]))
        if k == "countdown":
            return self.P("countdown", I(r.randint(-1, 4)))
        if k == "incr":
            return self.P("incr")
        if k == "put":
            return sh(S("put", self.num()))
        if k == "getput":
            x, y = self.fresh(), self.fresh()
            return conj(sh(S("get", x)), S("is", y, S("+", S("*", x, I(r.randint(1, 3))), I(r.randint(0, 2)))),
                        sh(S("put", y)))
        if k == "getyield":
            x = self.fresh()
            return conj(sh(S("get", x)), sh(S("yield", x)))
        if k == "ite":
            if "state" in eff and r.random() < 0.6:
                x = self.fresh()
                return conj(sh(S("get", x)),
                            ite(S(r.choice(["<", ">=", "=:="]), x, self.num()),
                                self.body(depth - 1, eff, numeric), self.body(depth - 1, eff, numeric)))
            c = r.choice([S("<", I(1), I(2)), S(">", I(1), I(2)), S("==", A("a"), A("b")), A("true"),
                          S("==", A("a"), A("a")), A("fail")])
            return ite(c, self.body(depth - 1, eff, numeric), self.body(depth - 1, eff, numeric))
        if k == "call":
            return S("call", self.body(depth - 1, eff, numeric))
        if k == "userpred":
            # a user predicate whose clause body shifts in the middle (the continuation then contains a
            # proper environment chunk of that clause)
            self.npred += 1
            name = "gen%d" % self.npred
            b = self.body(depth - 1, eff, numeric)
            self.extra.append((self.P(name), b))
            return self.P(name)
        if k == "collect":
            l = self.fresh()
            return conj(self.P("collect", self.body(depth - 1, eff | {"yield"}), l), sh(S("yield", l)))
        if k == "take":
            l = self.fresh()
            return conj(self.P("take", I(r.randint(0, 3)), self.body(depth - 1, eff | {"yield"}), l), sh(S("yield", l)))
        if k == "sumall":
            s = self.fresh()
            return conj(self.P("sumall", self.body(depth - 1, (eff - {"state"}) | {"yield"}, True), s), sh(S("yield", s)))
        if k == "innerstate":
            s = self.fresh()
            return conj(self.P("runstate", self.body(depth - 1, eff | {"state"}), self.num(), s), sh(S("yield", S("st", s))))
        if k == "collectput":
            l = self.fresh()
            return conj(self.P("collect", self.body(depth - 1, eff | {"yield"}), l), sh(S("put", l)))
        raise AssertionError(k)


def gen_cont_case(rng, cid, kind=None):
    sfx = "_" + cid
    g = ContGen(rng, sfx)
    P = g.P
    R = Vr("R")
    sh = lambda t: S("shift", t)
    kind = kind or rng.choice(["collect_state", "collect_state", "state_collect", "state_collect", "collect", "take",
                               "sumall", "noreset", "noshift", "law", "nearest", "reuse", "deepchunk"])
    depth = rng.choice([2, 3, 3, 4, 4, 5])
    L, Sv, B, C, K, X, Y, Z = (Vr(n) for n in ("L", "Sv", "B", "C", "K", "X", "Y", "Z"))
    if kind == "collect_state":
        body = conj(P("collect", P("runstate", g.body(depth, {"yield", "state"}), g.num(), Sv), L), S("=", R, S("r", L, Sv)))
    elif kind == "state_collect":
        body = conj(P("runstate", P("collect", g.body(depth, {"yield", "state"}), L), g.num(), Sv), S("=", R, S("r", L, Sv)))
    elif kind == "collect":
        body = P("collect", g.body(depth, {"yield"}), R)
    elif kind == "take":
        body = P("take", I(rng.randint(0, 4)), g.body(depth, {"yield"}), R)
    elif kind == "sumall":
        body = P("sumall", g.body(depth, {"yield"}, True), R)
    elif kind == "noreset":
        # shift/1 without an enclosing reset/3 (after the enclosing resets are finished): fails in scryer
        body = conj(P("collect", g.body(1, {"yield"}), L), g.body(1, set()), sh(S("yield", g.val())), S("=", R, L))
    elif kind == "noshift":
        # reset(G,B,C) == (G, C = none) when G does not shift
        body = conj(S("reset", conj(g.body(depth, set()), S("=", X, g.val())), B, C), S("=", R, S("r", C, X)))
    elif kind == "law":
        # reset((P, shift(T), Rest), B, C): B = T, the continuation is exactly Rest
        v1, v2 = g.val(), g.val()
        body = conj(S("reset", conj(S("=", X, v1), sh(S("b", X)), S("=", Y, v2)), B, C),
                    ite(S("var", Y), S("=", Z, A("rest_not_yet_run")), S("=", Z, A("rest_already_run"))),
                    S("=", C, S("cont", K)), S("call", K),
                    S("=", R, S("r", B, Z, Y)))
    elif kind == "nearest":
        # the inner reset catches the inner shift; the outer one the shift made after the inner reset ended
        B1, C1, B2, C2, T1 = (Vr(n) for n in ("B1", "C1", "B2", "C2", "T1"))
        v1, v2 = g.val(), g.val()
        body = conj(S("reset", conj(S("reset", conj(sh(v1), S("=", X, A("inner_resumed"))), B1, C1),
                                    sh(v2), S("=", Y, A("outer_resumed"))), B2, C2),
                    ite(S("var", X), S("=", T1, A("inner_suspended")), S("=", T1, X)),
                    S("=", C2, S("cont", K)), S("call", K),
                    S("=", R, S("r", B1, B2, T1, Y)))
    elif kind == "reuse":
        # a continuation is a term: resumed inside a NEW reset it can shift again (re-entrant)
        B2, C2 = Vr("B2"), Vr("C2")
        v1, v2 = g.val(), g.val()
        body = conj(S("reset", conj(sh(S("one", v1)), sh(S("two", v2)), S("=", X, A("end"))), B, C),
                    S("=", C, S("cont", K)),
                    S("reset", K, B2, C2), S("=", C2, S("cont", Z)), S("reset", Z, Y, Sv),
                    S("=", R, S("r", B, B2, Sv, X)))
    else:  # deepchunk: the shift happens several user-predicate calls below the reset
        n = rng.randint(2, 5)
        for i in range(n, 0, -1):
            inner = P("d%d" % (i + 1)) if i < n else sh(S("yield", I(0)))
            g.extra.append((P("d%d" % i), conj(sh(S("yield", I(i))), inner, sh(S("yield", I(-i))))))
        body = P("collect", P("d1"), R)
        g.features.add("deepchunk%d" % n)
    clauses = cont_library(sfx) + g.extra + [(P("main", R), body)]
    text = "\n".join("':-'(%s,%s)." % (canon(h), canon(b)) if b is not None else canon(h) + "." for h, b in clauses) + "\n"
    mtext = "\\n".join("':-'(%s,%s)" % (canon(h), canon(b)) if b is not None else canon(h) for h, b in clauses)
    q = canon(P("main", R))
    return {"id": cid, "fam": "cont", "kind": kind, "features": sorted(g.features), "text": text,
            "body": canon(body),
            "impl": ["Q\t%su\t1\tuse_module(library(cont))." % cid,
                     "L\t%sl\tuser\t%s" % (cid, esc(text)),
                     "Q\t%sq\t3\t%s." % (cid, q)],
            "model": ["delim\t%sM\t200000\t%s\t%s\tR" % (cid, mtext, q)]}


VAR_TOKEN = re.compile(r"(?<![\w'])[A-Z_]\w*")


def canon_result(s):
    """quoted atoms stay; bare identifiers starting with an upper-case letter or _ are variables"""
    out, i, n = [], 0, len(s)
    while i < n:
        if s[i] == "'":
            j = i + 1
            while j < n and s[j] != "'":
                j += 2 if s[j] == "\\" else 1
            out.append(s[i:j + 1])
            i = j + 1
        elif s[i] == '"':
            j = s.index('"', i + 1)
            out.append(s[i:j + 1])
            i = j + 1
        elif s[i].isupper() or s[i] == "_":
            j = i
            while j < n and (s[j].isalnum() or s[j] == "_"):
                j += 1
            out.append("_")
            i = j
        else:
            out.append(s[i])
            i += 1
    return "".join(out)


def first_arg(s):
    """the text of the first argument of an argument list (canonical syntax: quotes, parentheses)"""
    depth, i, n = 0, 0, len(s)
    while i < n:
        ch = s[i]
        if ch == "'" or ch == '"':
            j = i + 1
            while j < n and s[j] != ch:
                j += 2 if s[j] == "\\" else 1
            i = j
        elif ch in "([":
            depth += 1
        elif ch in ")]":
            if depth == 0:
                return s[:i]
            depth -= 1
        elif ch == "," and depth == 0:
            return s[:i]
        i += 1
    return s


def judge_cont(c, impl, model, findings, stats, verbose=False):
    cid = c["id"]
    keep = {k: c[k] for k in ("id", "fam", "kind", "features", "text", "body", "impl", "model")}
    m = model.get(cid + "M", "missing")
    r = impl.get(cid + "q", "missing")
    load = impl.get(cid + "l", "missing")
    if verbose:
        print("  impl=%s\n  model=%s" % (r, m))
    sig = {"family": "cont", "kind": c["kind"]}
    if load != "loaded":
        findings.append(core.Finding("disagreement", dict(sig, what="load", out=load[:100]), "program did not load", keep))
        return False
    if m.startswith("success R="):
        want = "{R=%s}" % canon_result(m[len("success R="):])
        if want == "{R=_}":
            want = "true"
    elif m == "failure":
        want = "false"
    elif m.startswith("error "):
        want = "error:" + canon_result(m[6:])
    elif m.split(" ")[0] in ("oom", "oof", "fuel", "timeout"):
        # the model ran out of fuel / out of its domain on this program: it says nothing about it, so the
        # case is skipped and counted (it is neither an agreement nor evidence against the implementation)
        stats["model_undecided"] = stats.get("model_undecided", 0) + 1
        return True
    else:
        findings.append(core.Finding("disagreement", dict(sig, what="model-" + m.split(" ")[0]),
                                     "the model does not speak about this program: %s" % m[:100], keep))
        return False
    parts = r.split(" ;; ")
    got = parts[0]
    if got.startswith("{R=") and got.endswith("}"):
        got = "{R=%s}" % canon_result(got[3:-1])
    elif got.startswith("error("):
        got = canon_result(got)
    if got.startswith("error('error'("):
        got = "error:" + first_arg(got[len("error('error'("):])
    rest = parts[1:]
    stats["outcomes"][want.split(":")[0] if want.startswith("error") else ("false" if want == "false" else "success")] = \
        stats["outcomes"].get(want.split(":")[0] if want.startswith("error") else ("false" if want == "false" else "success"), 0) + 1
    if got.startswith("error:") and want.startswith("error:"):
        # an arithmetic/type error raised inside the program (e.g. `is` on a list put into the state):
        # which culprit is named is the evaluator's business (C01..C04), the control path is what counts
        got, want = got.split("(")[0], want.split("(")[0]
    if got != want or any(x not in ("false",) for x in rest):
        findings.append(core.Finding("violation", dict(sig, what="result", feature=",".join(c["features"])[:60]),
                                     "main: implementation %s ; model %s" % (r[:300], m[:300]), keep))
        return False
    return True


def run(ctx):
    rng, tier = ctx["rng"], ctx["tier"]
    rep = diff.replay_case(ctx)
    if rep is not None:
        cases = rep
    else:
        cases = diff.load_corpus("C38") + gen_tab_cases(rng, tier)
        ncont = 400 if tier == "quick" else 8000
        # the fixed law-shaped kinds first (each at least 10 times), then the random mix
        k = 0
        for kind in ("noreset", "noshift", "law", "nearest", "reuse", "deepchunk"):
            for _ in range(10):
                cases.append(gen_cont_case(rng, "k%d" % k, kind))
                k += 1
        for _ in range(ncont):
            cases.append(gen_cont_case(rng, "k%d" % k))
            k += 1
    t0 = time.time()
    impl, model = diff.run_cases(cases, impl_env=IMPL_ENV)
    # cases with a transient problem (watchdog under machine load, lost machine) are run again, one at a
    # time, with the long watchdog and only up to their first affected query. If a whole batch of 6 is
    # still affected the problem is systematic (not load): the remaining ones are judged as they are.
    flaky = [c for c in cases if any(transient(impl.get(core.line_id(l), "missing")) for l in c["impl"])]
    retried = 0
    for k in range(0, len(flaky), 6):
        batch = flaky[k:k + 6]
        still = 0
        for c in batch:
            lines = []
            for l in c["impl"]:
                lines.append(l)
                if l.startswith("Q") and transient(impl.get(core.line_id(l), "missing")):
                    break
            impl2, _ = diff.run_cases([{"id": c["id"], "impl": lines}], impl_env=RETRY_ENV, parallel=False)
            retried += 1
            bad = any(transient(impl2.get(core.line_id(l), "missing")) for l in lines)
            still += 1 if bad else 0
            if not bad and len(lines) < len(c["impl"]):
                # the rest of the case, now that the first slow query went through
                impl2, _ = diff.run_cases([{"id": c["id"], "impl": c["impl"]}], impl_env=RETRY_ENV, parallel=False)
            impl.update(impl2)
        if still == len(batch):
            break
    core.log("[C38] correspondence run: %d cases, %.1fs, %d retried" % (len(cases), time.time() - t0, retried))
    findings = []
    stats = {"queries": 0, "nonempty": 0, "untabled_checked": 0, "modes": {}, "rounds": {}, "outcomes": {}}
    kinds, feats, ncontc = {}, {}, 0
    agree = 0
    shapes = {}
    distinct = set()
    for c in cases:
        if c.get("fam") == "tabling":
            if rep is not None:
                print("replay %s\n%s" % (c["id"], c["text"]))
            ok = judge_tab(c, impl, model, findings, stats, verbose=rep is not None)
            shapes[c["prog"]["shape"]] = shapes.get(c["prog"]["shape"], 0) + 1
            if any(b and any(x[0] in c["prog"]["idb"] for x in b) for _, b in c["prog"]["rules"]):
                distinct.add(re.sub(r"_t\d+n?", "", c["text"]))
            agree += 1 if ok else 0
        elif c.get("fam") == "cont":
            if rep is not None:
                print("replay %s (%s)\n%s" % (c["id"], c["kind"], c["text"]))
            ok = judge_cont(c, impl, model, findings, stats, verbose=rep is not None)
            ncontc += 1
            kinds[c["kind"]] = kinds.get(c["kind"], 0) + 1
            for ft in c["features"]:
                feats[ft] = feats.get(ft, 0) + 1
            if c["kind"] not in ("noshift",):
                distinct.add(c["kind"] + c["body"].replace("_" + c["id"], ""))
            agree += 1 if ok else 0
    return {
        "evaluations": len(cases),
        "distinct_nontrivial": len(distinct),
        "rule": "tabling: a case is one generated Datalog program (shape left/right/double/mutual/mutual3/sg/reach/twopaths/"
                "random/nonrec/rightdag over a random relation on 2..6 constants, or an exhaustively enumerated small digraph) "
                "with up to 8 queries in the modes ff/bf/fb/bb/f0f0; non-trivial = some rule body calls a tabled predicate; "
                "distinct by program text. cont: a case is one generated deterministic program over library(cont) (kinds: "
                "collect/take/sumall/state handlers nested in both orders with effect forwarding, reset without shift, shift without "
                "reset, the capture law, nearest-reset, re-entrant reuse, shift below several user-predicate frames) whose main/1 "
                "result is compared with the frame-stack model; non-trivial = not the no-shift kind; distinct by main body",
        "samples": [c["text"] for c in cases[:1]] + [c["text"] for c in cases[-2:]],
        "traces_validated_against_impl": agree,
        "disagreements_checked": len(cases) - agree,
        "retried_after_timeout": retried,
        "tabling_queries": stats["queries"],
        "tabling_queries_with_answers": stats["nonempty"],
        "untabled_crosschecked_queries": stats["untabled_checked"],
        "query_modes": stats["modes"],
        "fixpoint_rounds_histogram": stats["rounds"],
        "shapes": shapes,
        "cont_cases": ncontc,
        "cont_kinds": kinds,
        "cont_features": feats,
        "cont_outcomes": stats["outcomes"],
        "exhaustive": False,
        "findings": findings,
    }
