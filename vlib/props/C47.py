"""C47 — Parsing a file lazily equals parsing its contents.

A case = one file content (character list) + one grammar goal. The implementation runs
  (a) findall(Witness, phrase_from_file(G, File), L)      — the lazy, block-wise route
  (b) findall(Witness, phrase(G, "<the content as a literal>"), L)   — the property's own oracle
and, for the early-stopping grammar `c47_first(N, _)`,
  (c) phrase_from_stream/2 followed by stream_property(S, position(P)): how far the file was read.
The model (drv_C47, Model/Pio.lean) gives the block structure for the block size of pio.pl
(`chars_to_read(4096)`, extracted from the source): number of blocks, byte position after each block,
the flattened list (must be the content) and, for (c), the position recorded in the frozen tail after
cell N-1 has been unified.
"""
import os
import re
import shutil

from .. import core, diff

LEVEL = "proof"
TRUSTED_BASE = [
    "vlib/props/C47.py writes the file, renders the same content as a double-quoted literal for phrase/2, and renders the grammar goals",
    "library(dcgs) phrase/2,3, seq//1, ...//0 and findall/3 are the reference semantics of a grammar on a complete list (the property's oracle is the implementation's own phrase/2 on the full list)",
    "freeze/2 wakes render_step/4 when the frozen tail is unified (attributed-variable machinery: C34/C35 territory); modelled as `demand`",
    "block size: chars_to_read/1 in /repo/src/lib/pio.pl is read from the source at check time",
]
ASSUMPTIONS = [
    "file contents are valid UTF-8 and the file is not modified while it is parsed",
    "only the reposition(true) route of pio.pl (phrase_from_file/2,3 always opens with reposition(true)) is covered; the bb_put buffer route for non-repositionable streams is not",
    "grammars are pure (no side effects on the stream)",
]

IMPL_ENV = {"SV_TIMEOUT_MS": "60000"}
TMP_ROOT = os.path.join(core.BUILD, "tmp", "C47")

PROGRAM = r"""
:- use_module(library(dcgs)).
:- use_module(library(lists)).
:- use_module(library(pio)).
c47_all(Cs) --> seq(Cs).
c47_len(N) --> seq(Cs), {length(Cs, N)}.
c47_needle(N) --> seq(B), "needle", ..., {length(B, N)}.
c47_count(C, N) --> c47_cnt(C, 0, N).
c47_cnt(C, N0, N) --> [X], !, {( X == C -> N1 is N0+1 ; N1 = N0 )}, c47_cnt(C, N1, N).
c47_cnt(_, N, N) --> [].
c47_first(N, Cs) --> {length(Cs, N)}, seq(Cs), call(c47_stop).
c47_stop(_, []).
c47_look(C), [C] --> [C].
c47_pb(C) --> c47_look(C), [C], ... .
c47_take3([A,B,C], [A,B,C|R], R).
c47_call(Cs) --> call(c47_take3, Cs), ... .
c47_fail --> "zzzz", ... .
c47_last(C) --> ..., [C].
c47_at(N, C) --> {length(P, N)}, seq(P), [C], ... .
c47_around(N, Cs) --> {length(P, N), length(Cs, 4)}, seq(P), seq(Cs), ... .
c47_nonascii(L) --> c47_na(L).
c47_na([N-C|L]) --> c47_skip_ascii(0, N), [C], !, c47_na(L).
c47_na([]) --> ... .
c47_skip_ascii(N0, N) --> [C], {C @< '\x80\'}, !, {N1 is N0+1}, c47_skip_ascii(N1, N).
c47_skip_ascii(N, N) --> [].
"""


def transient(r):
    return r == "missing" or r.startswith("timeout") or r.startswith("abort") or r.startswith("skipped") or r.startswith("panic")


def block_size():
    src = open("/repo/src/lib/pio.pl").read()
    m = re.search(r"^chars_to_read\((\d+)\)\.", src, flags=re.M)
    return int(m.group(1)) if m else 4096


def pl_string(cps):
    out = []
    for c in cps:
        ch = chr(c)
        if ch.isascii() and (ch.isalnum() or ch in " .,;:-_+*/()[]{}<>=!?#&@^|~"):
            out.append(ch)
        else:
            out.append("\\x%x\\" % c)
    return '"' + "".join(out) + '"'


def esc_line(s):
    return s.replace("\\", "\\\\").replace("\n", "\\n").replace("\t", "\\t").replace("\r", "\\r")


MB = [0xE9, 0x7FF, 0x800, 0x20AC, 0xFFFD, 0x10000, 0x1F600, 0x10FFFF]


def gen_contents(rng, tier, k):
    """list of (label, code points)"""
    out = []

    def filler(n, base="abcdefgh"):
        return [ord(base[i % len(base)]) for i in range(n)]

    lens = [0, 1, 2, k - 1, k, k + 1, 2 * k - 1, 2 * k, 2 * k + 1, 3 * k + 2]
    if tier == "quick":
        lens = [0, 1, k - 1, k, k + 1, 2 * k, 2 * k + 1]
    for n in lens:
        cps = filler(n)
        out.append(("len%d" % n, cps))
    # multi-byte characters straddling every block boundary
    nb = 3 if tier == "quick" else 8
    for j in range(nb):
        n = rng.choice([k + 5, 2 * k + 3, 3 * k + 1]) if tier != "quick" else rng.choice([k + 5, 2 * k + 3])
        cps = filler(n)
        for b in range(k, n, k):
            for d in (-2, -1, 0, 1):
                if 0 <= b + d < n and rng.random() < 0.8:
                    cps[b + d] = rng.choice(MB)
        # a few more anywhere, newlines too
        for _ in range(rng.randint(0, 6)):
            cps[rng.randrange(n)] = rng.choice(MB + [10, 13, 9, 0x22, 0x5C])
        out.append(("mb%d" % j, cps))
    # needle across a boundary
    for off in ([k - 3, k - 1] if tier == "quick" else [k - 6, k - 5, k - 3, k - 1, k, 2 * k - 2]):
        n = off + 6 + rng.randint(0, 30)
        cps = filler(n, "xyzw")
        cps[off:off + 6] = [ord(c) for c in "needle"]
        if rng.random() < 0.5 and off > 10:
            cps[5:11] = [ord(c) for c in "needle"]
        out.append(("needle@%d" % off, cps))
    # "needl" + "e" missing: a grammar that has to fail after looking across the boundary
    cps = filler(k + 10, "xyzw")
    cps[k - 3:k + 2] = [ord(c) for c in "needl"]
    out.append(("almost-needle", cps))
    # U+FEFF at a block start / elsewhere (finding C19-2 shows here)
    cps = filler(k + 4)
    cps[k] = 0xFEFF
    out.append(("feff@k", cps))
    cps = filler(20)
    cps[0] = 0xFEFF
    out.append(("feff@0", cps))
    cps = filler(k + 4)
    cps[7] = 0xFEFF
    out.append(("feff@7", cps))
    # small random ones
    for j in range(4 if tier == "quick" else 40):
        n = rng.choice([3, 7, 20, 100])
        cps = [rng.choice([ord("a"), ord("b"), 10, 32] + MB) for _ in range(n)]
        out.append(("small%d" % j, cps))
    return out


def goals_for(rng, label, cps, k, tier):
    """list of (goal template with {G} witness, witness var, name)"""
    n = len(cps)
    gs = [("c47_len(N)", "N"), ("c47_needle(N)", "N"), ("c47_count(a, N)", "N"), ("c47_pb(C)", "C"),
          ("c47_call(Cs)", "Cs"), ("c47_fail", "t"), ("c47_last(C)", "C"), ("c47_nonascii(L)", "L")]
    if n <= 2 * k + 5:
        gs.append(("c47_all(Cs)", "Cs"))
    for b in range(k, n + 1, k):
        for d in (-1, 0):
            if 0 <= b + d < n:
                gs.append(("c47_at(%d, C)" % (b + d), "C"))
        if b - 2 >= 0:
            gs.append(("c47_around(%d, Cs)" % (b - 2), "Cs"))
    gs.append(("c47_at(%d, C)" % n, "C"))   # beyond the end: fails
    if tier == "quick" and len(gs) > 9:
        gs = gs[:5] + rng.sample(gs[5:], 4)
    return gs


def firsts_for(rng, n, k, tier):
    cand = {0, 1, 2, k - 1, k, k + 1, 2 * k, 2 * k + 1, n, n + 1}
    cand = sorted(x for x in cand if 0 <= x <= n + 1)
    if tier == "quick" and len(cand) > 5:
        cand = rng.sample(cand, 5)
    return cand


def run(ctx):
    rng, tier = ctx["rng"], ctx["tier"]
    k = block_size()
    tmpdir = os.path.join(TMP_ROOT, "s%d_%d" % (ctx["seed"], os.getpid()))
    os.makedirs(tmpdir, exist_ok=True)
    rep = diff.replay_case(ctx)
    cases = []
    try:
        if rep is not None:
            for c in rep:
                c["path"] = os.path.join(tmpdir, os.path.basename(c["path"]))
                c["impl"] = [re.sub(r'"/[^"]*/(f\d+\.txt)"', lambda m: '"%s"' % os.path.join(tmpdir, m.group(1)), l) for l in c["impl"]]
                with open(c["path"], "wb") as fh:
                    fh.write(bytes.fromhex(c["bytes"]))
                cases.append(c)
        else:
            contents = gen_contents(rng, tier, k)
            cid = 0
            for fi, (label, cps) in enumerate(contents):
                data = "".join(chr(c) for c in cps).encode("utf-8")
                path = os.path.join(tmpdir, "f%d.txt" % fi)
                with open(path, "wb") as fh:
                    fh.write(data)
                lit = pl_string(cps)
                load = "L\tc%d_l\tuser\t%s" % (cid, esc_line(PROGRAM))
                impl = [load]
                items = []
                for g, w in goals_for(rng, label, cps, k, tier):
                    a, b = "c%d_a%d" % (cid, len(items)), "c%d_b%d" % (cid, len(items))
                    impl.append("Q\t%s\t2\tfindall(%s, phrase_from_file(%s, \"%s\"), L)." % (a, w, g, path))
                    impl.append("Q\t%s\t2\tfindall(%s, phrase(%s, %s), L)." % (b, w, g, esc_line(lit)))
                    items.append({"kind": "oracle", "goal": g, "a": a, "b": b})
                for n in firsts_for(rng, len(cps), k, tier):
                    a = "c%d_p%d" % (cid, len(items))
                    impl.append("Q\t%s\t2\topen(\"%s\", read, S, [reposition(true)]), (phrase_from_stream(c47_first(%d, Cs), S) -> length(Cs, Len) ; Len = none), stream_property(S, position(position_and_lines_read(P, _))), close(S), Cs = _." % (a, path, n))
                    items.append({"kind": "first", "n": n, "a": a, "m": "c%d_m%d" % (cid, len(items))})
                model = ["LZ\tc%d_z\t%d\t%s" % (cid, k, data.hex())]
                for it in items:
                    if it["kind"] == "first" and it["n"] >= 1:
                        model.append("CELL\t%s\t%d\t%d\t%s" % (it["m"], k, it["n"] - 1, data.hex()))
                # the model alone for small block sizes on the small contents
                if len(data) <= 400:
                    for kk in (1, 2, 3, 5):
                        model.append("LZ\tc%d_z%d\t%d\t%s" % (cid, kk, kk, data.hex()))
                cases.append({"id": "c%d" % cid, "label": label, "nchars": len(cps), "bytes": data.hex(), "path": path,
                              "items": items, "impl": impl, "model": model, "k": k,
                              "feff_at_block_start": any(c == 0xFEFF and i % k == 0 for i, c in enumerate(cps))})
                cid += 1
        impl, model = diff.run_cases(cases, impl_env=IMPL_ENV)
        flaky = [c for c in cases if any(transient(impl.get(it["a"], "missing")) or (it["kind"] == "oracle" and transient(impl.get(it["b"], "missing"))) for it in c["items"])]
        retried = len(flaky)
        for c in flaky[:50]:
            impl.update(core.run_impl(c["impl"], env=IMPL_ENV))
    finally:
        shutil.rmtree(tmpdir, ignore_errors=True)

    findings, agree, total = [], 0, 0
    distinct = set()
    per_goal = {}
    for c in cases:
        cc = {x: c[x] for x in ("id", "label", "nchars", "bytes", "path", "items", "impl", "model", "k", "feff_at_block_start")}
        # model: the flattened lazy list is the content, for every block size tried
        for mid, res in model.items():
            if mid.startswith(c["id"] + "_z"):
                f = res.split(" ")
                flat = f[2] if len(f) > 2 else ""
                total += 1
                if flat != c["bytes"]:
                    findings.append(core.Finding("disagreement", {"class": "model-flatten", "id": mid}, "model: the forced lazy list differs from the content", cc))
                else:
                    agree += 1
        z = model.get(c["id"] + "_z", "0  ").split(" ")
        nblocks = int(z[0]) if z[0].isdigit() else -1
        for it in c["items"]:
            total += 1
            if it["kind"] == "oracle":
                ra, rb = impl.get(it["a"], "missing"), impl.get(it["b"], "missing")
                g = re.sub(r"\d+", "#", it["goal"])
                per_goal[g] = per_goal.get(g, 0) + 1
                if rep is not None:
                    print("replay %s %s goal %s\n lazy : %s\n full : %s" % (c["id"], c["label"], it["goal"], ra[:200], rb[:200]))
                if c["nchars"] > c["k"]:
                    distinct.add((c["label"], it["goal"]))
                if ra == rb and not transient(ra):
                    agree += 1
                    continue
                if transient(ra) or transient(rb):
                    findings.append(core.Finding("disagreement", {"class": "no-answer", "goal": it["goal"], "id": c["id"]}, "no answer twice: %s / %s" % (ra[:80], rb[:80]), cc))
                    continue
                cls = "bom_at_block_start" if c["feff_at_block_start"] else "other"
                sig = {"class": cls} if cls != "other" else {"class": cls, "goal": it["goal"], "label": c["label"]}
                findings.append(core.Finding("violation", sig,
                                             "phrase_from_file and phrase on the full character list differ for %s on content %s (%d chars): lazy %s / full %s" % (it["goal"], c["label"], c["nchars"], ra[:160], rb[:160]), cc))
            else:
                ra = impl.get(it["a"], "missing")
                n = it["n"]
                if n == 0:
                    exp_pos, exp_len = 0, "0"
                elif n > c["nchars"]:
                    # the grammar fails after the list has ended: everything has been read
                    exp_pos, exp_len = len(c["bytes"]) // 2, "'none'"
                else:
                    m = model.get(it["m"], "missing").split(" ")
                    exp_pos = int(m[2]) if len(m) == 3 and m[2].isdigit() else -1
                    exp_len = str(n)
                if rep is not None:
                    print("replay %s %s first(%d)\n impl : %s\n model: position %s" % (c["id"], c["label"], n, ra[:200], exp_pos))
                mm = re.search(r"Len=('none'|\d+),P=(\d+)", ra)
                distinct.add((c["label"], "first", n))
                if mm and mm.group(1) == exp_len and int(mm.group(2)) == exp_pos:
                    agree += 1
                    continue
                cls = "bom_at_block_start" if c["feff_at_block_start"] else "other"
                sig = {"class": cls} if cls != "other" else {"class": "early-stop-position", "n": str(n), "label": c["label"]}
                kind = "violation" if cls != "other" else "disagreement"
                findings.append(core.Finding(kind, sig,
                                             "after a grammar that inspects %d cells of content %s the stream position / result is %s; the model's lazy reader stops at byte %s (length %s)" % (n, c["label"], ra[:120], exp_pos, exp_len), cc))
    return {
        "evaluations": total,
        "distinct_nontrivial": len(distinct),
        "rule": "file contents with lengths around multiples of the block size (%d characters: 0, 1, k-1, k, k+1, 2k, 2k+1, 3k+2), multi-byte characters placed on and around every block boundary, `needle` straddling a boundary, U+FEFF at a block start, small random texts; grammars: whole text, length, all positions of a needle (backtracking across blocks), deterministic counting, pushback, call//N, failing, last character, character at / around a boundary offset, early stop after N cells (position observed); non-trivial = content longer than one block (or an early-stop position check); distinct by (content, goal)" % k,
        "samples": [{"content": c["label"], "chars": c["nchars"], "goals": [it.get("goal", "first(%s)" % it.get("n")) for it in c["items"]][:6]} for c in cases[3:6]],
        "traces_validated_against_impl": agree,
        "disagreements_checked": total - agree,
        "retried_after_timeout": retried,
        "block_size": k,
        "contents": len(cases),
        "goal_kinds": per_goal,
        "findings": findings,
    }
