"""C04 — Arithmetic comparison is exact and self-consistent.

One abstract *case* = an ordered pair (A, B) of numbers, each an integer (any size), a rational n/d or
a double given by its IEEE bits. From a case we produce
  * Prolog text: one consulted file (literal operands in clause bodies) and five queries, one per
    evaluation context, each returning the vector of the six predicates (< =< > >= =:= =\\=) for (A,B) and
    then for (B,A) as a list of 12 t/f atoms;
  * the token line for drv_C04 (Lean model Model/NumCmp.lean), which prints the same vector under the
    exact (specification) conversions, under the mirror of the pinned dashu conversions and under the
    mirror of the proposed repair;
  * an independent Python opinion (fractions.Fraction, correctly rounded int/int true division).
The proved specification (Props/C04.lean) is the oracle; every context must give the spec vector.
"""
import os
import re
import struct
import time
from fractions import Fraction

from .. import core, diff

LEVEL = "proof"
TRUSTED_BASE = [
    "vlib/props/C04.py renders one abstract pair both as Prolog text and as drv_C04 tokens; float literals are written with 17 significant digits and the bits the reader produced are echoed and checked in every case",
    "hardware `i64 as f64` / `u128 as f64` casts and IEEE comparison of doubles are modelled by F64.rne / F64.cmp (compared on every generated line)",
    "dashu Integer/Rational exact comparison (cmp, num_partial_cmp, num_eq) is modelled by exact cross-multiplication (compared on every generated line)",
    "Python's Fraction arithmetic and correctly rounded int/int division are a third opinion only",
]
ASSUMPTIONS = [
    "operands are numbers or `N rdiv D` / `+(N)` expressions with D =/= 0: no evaluation error can occur, so every context must answer all 12 comparisons",
    "-0.0, infinities and NaN cannot be written or computed in this system (`X is -(0.0)` gives +0.0; overflow raises an error), so float OPERANDS are finite and never -0.0; infinities arise only inside a comparison from converting a huge integer/rational and are covered; -0.0/NaN are covered by the theorems only",
    "magnitudes are bounded by 2^2200 (numerators, denominators and integers) to keep allocation small",
]

IMPL_ENV = {"SV_TIMEOUT_MS": "30000"}
OPS = ["<", "=<", ">", ">=", "=:=", "=\\="]


def repo_path():
    """the source tree the harness was built from (/repo, or the private worktree of tools/mutant_check.sh)."""
    if os.environ.get("SV_REPO"):
        return os.environ["SV_REPO"]
    hb = os.environ.get("SV_HARNESS_BIN")
    if hb:
        w = os.path.join(os.path.dirname(os.path.dirname(os.path.dirname(os.path.abspath(hb)))), "repo")
        if os.path.isdir(os.path.join(w, "src")):
            return w
    return "/repo"


def load_extractor():
    import importlib.util
    spec = importlib.util.spec_from_file_location("evaltables", os.path.join(core.ROOT, "extract", "evaltables.py"))
    mod = importlib.util.module_from_spec(spec)
    spec.loader.exec_module(mod)
    return mod


def extract():
    """regenerates lean/ScryerModel/Extracted/CmpInstrs.lean from the current dispatch.rs; Props/C04.lean proves
    (by evaluation over the extracted table) that all 24 instructions test exactly `CmpOp.accepts`."""
    ev = load_extractor()
    try:
        tbl = ev.cmp_instr_table(repo_path())
        ev.write_if_changed(os.path.join(core.LEAN, "ScryerModel", "Extracted", "CmpInstrs.lean"), ev.render_cmp(tbl))
    except ev.ExtractError as x:
        return [core.Finding("disagreement", {"family": "extract", "class": "cmp-instructions-not-recognised"},
                             "extract/evaltables.py no longer recognises the comparison instructions of dispatch.rs: %s" % x, None)]
    return [None]
FIX_MIN, FIX_MAX = -(2 ** 55), 2 ** 55 - 1


# ------------------------------------------------------------------ numbers
# ("i", v) | ("r", n, d) with d>0 | ("f", bits)

def f_of_bits(b):
    return struct.unpack(">d", struct.pack(">Q", b))[0]


def bits_of_f(f):
    return struct.unpack(">Q", struct.pack(">d", f))[0]


INF = float("inf")


def to_float(x):
    """correctly rounded conversion (Python ints: float()/true division are correctly rounded)."""
    if x[0] == "f":
        return f_of_bits(x[1])
    if x[0] == "i":
        try:
            return float(x[1])
        except OverflowError:
            return INF if x[1] > 0 else -INF
    n, d = x[1], x[2]
    try:
        return n / d
    except OverflowError:
        return INF if n > 0 else -INF


def exact(x):
    if x[0] == "i":
        return Fraction(x[1])
    if x[0] == "r":
        return Fraction(x[1], x[2])
    return Fraction(f_of_bits(x[1]))


def ref_cmp(a, b):
    if a[0] == "f" or b[0] == "f":
        u, v = to_float(a), to_float(b)
    else:
        u, v = exact(a), exact(b)
    return -1 if u < v else (1 if u > v else 0)


def vec_of(c_ab):
    def six(c):
        return [c < 0, c <= 0, c > 0, c >= 0, c == 0, c != 0]
    return "".join("t" if x else "f" for x in six(c_ab) + six(-c_ab))


def pl_num(x):
    if x[0] == "i":
        return str(x[1]) if x[1] >= 0 else "(%d)" % x[1]
    if x[0] == "r":
        n = str(x[1]) if x[1] >= 0 else "(%d)" % x[1]
        return "(%s rdiv %d)" % (n, x[2])
    f = f_of_bits(x[1])
    s = "%.17e" % abs(f)
    return s if f >= 0 and not str(f).startswith("-") else "(-%s)" % s


def pl_unevaluated(x, rng_bit):
    """an expression term (not a number) with the same value: +(N) / N rdiv D / big-path (2^80+N)-2^80."""
    if x[0] == "r":
        return pl_num(x)
    if x[0] == "i" and rng_bit:
        return "((1208925819614629174706176 + %s) - 1208925819614629174706176)" % pl_num(x)
    return "+(%s)" % pl_num(x)


def tok(x):
    if x[0] == "i":
        return "i:%d" % x[1]
    if x[0] == "r":
        # dashu keeps a rational in lowest terms, and the PINNED conversion depends on the bit lengths of that reduced
        # numerator/denominator (the exact conversions do not): the model gets what the implementation holds
        fr = Fraction(x[1], x[2])
        return "r:%d/%d" % (fr.numerator, fr.denominator)
    return "f:%016x" % x[1]


def canon_echo(x):
    """what the harness prints for the evaluated operand."""
    if x[0] == "i":
        return str(x[1])
    if x[0] == "r":
        fr = Fraction(x[1], x[2])
        return "r(%d,%d)" % (fr.numerator, fr.denominator)
    return "f(%016x)" % x[1]


# ------------------------------------------------------------------ generators

def next_up(b, k=1):
    """k-th neighbour of the finite non-negative-bits double (moves away from zero for k>0)."""
    sign = b >> 63
    m = (b & (2 ** 63 - 1)) + k
    m = max(0, min(m, 0x7FEFFFFFFFFFFFFF))
    return (sign << 63) | m


def fnum(f):
    if f == 0.0:
        return ("f", 0)          # -0.0 is not expressible
    if f in (INF, -INF) or f != f:
        return None
    return ("f", bits_of_f(f))


KS = [24, 31, 52, 53, 54, 55, 56, 62, 63, 64, 65, 100, 127, 128, 129, 130, 200, 1000, 1022, 1023, 1024, 1025, 1100]


def tie_int(rng, L=None):
    """an integer of L bits whose bits below the 53rd follow a rounding-critical pattern."""
    L = L or rng.choice([54, 55, 56, 57, 60, 63, 64, 65, 66, 70, 100, 127, 128, 129, 130, 131, 140, 200, 500, 1000,
                         1023, 1024])
    m = (1 << 52) | rng.getrandbits(52)
    if rng.random() < 0.3:
        m = rng.choice([1 << 52, (1 << 53) - 1, (1 << 52) + 1, (1 << 53) - 2])
    t = L - 53           # number of low bits
    half = 1 << (t - 1)
    tail = rng.choice([0, half, half - 1, half + 1, half | (half >> 1), half | (half >> 2), (half >> 1),
                       half | 1, (1 << t) - 1, rng.getrandbits(t),
                       half | (1 << rng.randrange(t)), half | (half >> 1) | (rng.getrandbits(t) & (half >> 10))])
    v = (m << t) | (tail & ((1 << t) - 1))
    return -v if rng.random() < 0.4 else v


def gen_int(rng):
    r = rng.random()
    if r < 0.25:
        return ("i", rng.randint(-30, 30))
    if r < 0.55:
        k = rng.choice(KS)
        v = 2 ** k + rng.choice([-3, -2, -1, 0, 0, 1, 2, 3])
        return ("i", -v if rng.random() < 0.4 else v)
    if r < 0.85:
        return ("i", tie_int(rng))
    if r < 0.9:
        # around the overflow threshold 2^1024 - 2^970
        v = 2 ** 1024 - 2 ** 970 + rng.choice([-2 ** 969, -1, 0, 1, 2 ** 969, -2 ** 970, -2 ** 971, 2 ** 970])
        return ("i", -v if rng.random() < 0.4 else v)
    bits = rng.choice([20, 50, 56, 64, 80, 128, 300, 1100, 2000])
    v = rng.getrandbits(bits)
    return ("i", -v if rng.random() < 0.5 else v)


SPECIAL_FLOATS = [0x0000000000000001, 0x0000000000000002, 0x000FFFFFFFFFFFFF, 0x0010000000000000,
                  0x0010000000000001, 0x7FEFFFFFFFFFFFFF, 0x7FEFFFFFFFFFFFFE, 0x3FF0000000000000,
                  0x3FF0000000000001, 0x3FEFFFFFFFFFFFFF, 0x3FE0000000000000, 0x3FB999999999999A,
                  0x4340000000000000, 0x4340000000000001, 0x433FFFFFFFFFFFFF, 0x4330000000000000,
                  0x4360000000000000, 0x43E0000000000000, 0x43F0000000000000, 0x43DFFFFFFFFFFFFF,
                  0x7FE0000000000000, 0x0000000000000000, 0x3CB0000000000000, 0x4000000000000000]


def gen_float(rng):
    r = rng.random()
    if r < 0.35:
        b = rng.choice(SPECIAL_FLOATS)
    elif r < 0.6:
        k = rng.choice([k for k in KS if k <= 1023] + [-1, -2, -52, -53, -1000, -1022, -1023, -1050, -1074])
        b = bits_of_f(2.0 ** k)
        b = next_up(b, rng.choice([-2, -1, 0, 0, 1, 2])) if b > 2 else b
    elif r < 0.8:
        b = bits_of_f(float(rng.randint(-2 ** 40, 2 ** 40)) / rng.choice([1, 2, 3, 7, 10, 1024]))
    else:
        b = rng.getrandbits(64)
        if (b >> 52) & 0x7FF == 0x7FF:
            b ^= 1 << 61
    if rng.random() < 0.4:
        b |= 1 << 63
    x = fnum(f_of_bits(b))
    return x or ("f", 0x3FF0000000000000)


def gen_rat(rng):
    r = rng.random()
    if r < 0.15:
        return ("r", rng.randint(-50, 50), rng.choice([1, 2, 3, 4, 7, 10, 64]))
    if r < 0.55:
        # a rounding-critical quotient: (integer with a tie/near-tie tail) / (small odd or power of two), times 2^j
        v = tie_int(rng, rng.choice([54, 55, 56, 57, 58, 60, 64, 70]))
        d = rng.choice([1, 3, 3, 5, 7, 9, 11, 2 ** 10, 3 * 2 ** 7, 2 ** 60 + 1])
        n = v * d + rng.choice([0, 1, -1, 2, d // 2, d - 1, d // 3])
        j = rng.choice([0, 0, 1, 5, 64, 900, 968, 969, 970, -1, -60, -1000, -1074, -1076, -1100, -1126, -1127, -1130])
        if j >= 0:
            n <<= j
        else:
            d <<= -j
        return ("r", n, d)
    if r < 0.75:
        # huge numerator and denominator, quotient of moderate size
        nb = rng.choice([300, 1000, 1500, 2100])
        d = rng.getrandbits(nb) | (1 << (nb - 1)) | 1
        q = Fraction(rng.choice([1, 3, 2 ** 53 + 1, 2 ** 53 - 1, 10 ** 20, 2 ** 64 + 1]), rng.choice([1, 3, 7]))
        n = int(q * d) + rng.choice([-1, 0, 1])
        return ("r", -n if rng.random() < 0.3 else n, d)
    if r < 0.9:
        # tiny: around the subnormal range / underflow threshold 2^-1075
        k = rng.choice([1022, 1023, 1050, 1073, 1074, 1075, 1076, 1077, 1100])
        n = rng.choice([1, 1, 3, 5, 2 ** 52 + 1, 2 ** 53 - 1, 3 * 2 ** 52 - 1])
        d = (2 ** k) * rng.choice([1, 1, 3, 2 ** 52, 2 ** 53 + 2])
        return ("r", -n if rng.random() < 0.3 else n, d + rng.choice([0, 0, 1, -1]) * (d > 4))
    # huge: around the overflow threshold
    n = (2 ** 1024 - 2 ** 970) * 3 + rng.choice([-1, 0, 1, -3 * 2 ** 969, 3 * 2 ** 969])
    return ("r", -n if rng.random() < 0.3 else n, 3)


def gen_num(rng):
    r = rng.random()
    if r < 0.4:
        return gen_int(rng)
    if r < 0.7:
        return gen_float(rng)
    return gen_rat(rng)


def neighbours(x, rng):
    """numbers of every representation close to x (equal, 1 ulp off, off by 1, a hair off)."""
    out = []
    f = to_float(x)
    if f not in (INF, -INF):
        b = bits_of_f(f) if f != 0.0 else 0
        for k in (-1, 0, 0, 1):
            y = fnum(f_of_bits(next_up(b, k))) if b > 1 or k >= 0 else None
            if y:
                out.append(y)
    e = exact(x)
    if abs(e) < 2 ** 2100:
        fl = e.numerator // e.denominator
        for v in (fl - 1, fl, fl + 1, fl + 2):
            out.append(("i", v))
        if e != 0 and abs(e) > Fraction(1, 2 ** 1200):
            for eps in (Fraction(1, 3 * 2 ** 80), Fraction(-1, 3 * 2 ** 80), Fraction(1, 3), Fraction(0)):
                y = e * (1 + eps * Fraction(1, 2 ** rng.choice([0, 30, 60]))) if eps else e
                if y.denominator.bit_length() < 2200 and y.numerator.bit_length() < 2200:
                    out.append(("r", y.numerator, y.denominator))
            # halfway to the next double
            if f not in (INF, -INF) and x[0] != "f":
                b = bits_of_f(f) if f != 0.0 else 0
                g = f_of_bits(next_up(b, 1))
                if g not in (INF, -INF):
                    mid = (Fraction(f) + Fraction(g)) / 2
                    out.append(("r", mid.numerator, mid.denominator) if mid.denominator != 1 else ("i", mid.numerator))
    return [y for y in out if y]


BOUNDARY = None


def boundary_numbers():
    global BOUNDARY
    if BOUNDARY is not None:
        return BOUNDARY
    out = [("i", 0), ("i", 1), ("i", -1), ("r", 1, 2), ("r", 1, 3), ("r", -1, 3), ("f", 0), ("f", bits_of_f(0.5)),
           ("f", bits_of_f(1.0)), ("f", bits_of_f(-1.0)), ("f", bits_of_f(1 / 3)), ("r", 2, 1)]
    for k in (53, 55, 63, 64, 1023):
        for s in (1, -1):
            for dlt in (-1, 0, 1):
                out.append(("i", s * (2 ** k + dlt)))
            out.append(("f", bits_of_f(s * 2.0 ** k)))
            out.append(("f", next_up(bits_of_f(s * 2.0 ** k), 1)))
            out.append(("f", next_up(bits_of_f(s * 2.0 ** k), -1)))
            out.append(("r", s * (3 * 2 ** k + 1), 3))
    for dlt in (-(2 ** 970), -(2 ** 969) - 1, -(2 ** 969), -1, 0, 1, 2 ** 970):
        out.append(("i", 2 ** 1024 - 2 ** 970 + dlt))
        out.append(("i", -(2 ** 1024 - 2 ** 970 + dlt)))
    out += [("i", 2 ** 1024), ("i", 2 ** 1024 + 1), ("i", 2 ** 2000), ("i", -(2 ** 2000)),
            ("f", 0x7FEFFFFFFFFFFFFF), ("f", 0xFFEFFFFFFFFFFFFF), ("f", 1), ("f", 0x8000000000000001),
            ("f", 0x000FFFFFFFFFFFFF), ("f", 0x0010000000000000),
            ("r", 1, 2 ** 1074), ("r", 1, 2 ** 1075), ("r", 3, 2 ** 1076), ("r", 1, 2 ** 1076), ("r", -1, 2 ** 1075),
            ("r", 3 * (2 ** 1024 - 2 ** 970) - 1, 3), ("r", 3 * (2 ** 1024 - 2 ** 970) + 1, 3),
            ("r", 2 ** 2000 + 1, 2 ** 2000), ("r", 2 ** 2000, 2 ** 2000 + 1),
            # the witnesses of findings C04-1 / C04-2
            ("r", 3 * 2 ** 53 + 8, 3), ("f", 0x4340000000000001), ("f", 0x4340000000000002),
            ("i", (2 ** 66 + 2 ** 13 + 2 ** 12) * 2 ** 64), ("f", 0x4810000000000000), ("f", 0x4810000000000001),
            ("i", 2 ** 130 + 2 ** 77 + 1)]
    BOUNDARY = out
    return out


def gen_pair(rng):
    r = rng.random()
    a = gen_num(rng)
    if r < 0.7:
        ns = neighbours(a, rng)
        b = rng.choice(ns) if ns else gen_num(rng)
    elif r < 0.8:
        b = rng.choice(boundary_numbers())
    else:
        b = gen_num(rng)
    return (a, b) if rng.random() < 0.5 else (b, a)


# ------------------------------------------------------------------ cases

def goals12(a, b):
    return ["%s %s %s" % (a, op, b) for op in OPS] + ["%s %s %s" % (b, op, a) for op in OPS]


def make_case(i, a, b, flag):
    cid = "p%d" % i
    A, B = pl_num(a), pl_num(b)
    rs = ["R%d" % k for k in range(1, 13)]
    body = lambda x, y: ", ".join("(%s -> %s = t ; %s = f)" % (g, r, r) for g, r in zip(goals12(x, y), rs))
    prog = "k1_%s(R) :- R = [%s], %s.\n" % (cid, ",".join(rs), body(A, B))
    prog += "k3_%s(X, Y, R) :- R = [%s], %s.\n" % (cid, ",".join(rs), body("X", "Y"))
    for k, g in enumerate(goals12(A, B)):
        prog += "k2_%s(%d) :- %s.\n" % (cid, k + 1, g)
    UA, UB = pl_unevaluated(a, flag & 1), pl_unevaluated(b, flag & 2)
    glist = "[" + ",".join(goals12("X", "Y")) + "]"
    qs = [
        ("k1", "k1_%s(R)." % cid),
        ("k3", "X is %s, Y is %s, k3_%s(X, Y, R)." % (A, B, cid)),
        ("k4", "use_module(library(lists)), X is %s, Y is %s, findall(T, (member(G, %s), (call(G) -> T = t ; T = f)), R)." % (A, B, glist)),
        ("k2", "use_module(library(between)), findall(T, (between(1, 12, K), (k2_%s(K) -> T = t ; T = f)), R)." % cid),
        ("k5", "X = %s, Y = %s, k3_%s(X, Y, R), findall(T, (member(P, [<,=<,>,>=,=:=,=\\=]), (call(P, X, Y) -> T = t ; T = f)), R6)." % (UA, UB, cid)),
    ]
    esc = prog.replace("\\", "\\\\").replace("\n", "\\n")
    impl = ["L\t%s_l\tuser\t%s" % (cid, esc)]
    for name, q in qs:
        impl.append("Q\t%s_%s\t2\t%s" % (cid, name, q.replace("\\", "\\\\")))
    return {"id": cid, "a": list(a), "b": list(b), "flag": flag, "impl": impl,
            "model": ["cmp\t%s\t%s\t%s" % (cid, tok(a), tok(b))],
            "prolog": "%s  vs  %s" % (A if len(A) < 80 else A[:77] + "...", B if len(B) < 80 else B[:77] + "...")}


RE_R = re.compile(r'[{,]R="([tf]*)"')      # a list of one-char atoms is printed as a string
RE_R6 = re.compile(r'[{,]R6="([tf]*)"')
RE_X = re.compile(r"[{,]X=((?:r\([^)]*\))|(?:f\([^)]*\))|(?:-?\d+))")
RE_Y = re.compile(r"[{,]Y=((?:r\([^)]*\))|(?:f\([^)]*\))|(?:-?\d+))")


def vec_from(res, rx=RE_R):
    m = rx.search(res)
    if not m:
        return None
    return m.group(1)


def transient(r):
    return r == "missing" or r.startswith("timeout") or r.startswith("abort") or r.startswith("skipped")


def classify(a, b):
    kinds = sorted([a[0], b[0]])
    return "".join(kinds)


def nontrivial(a, b):
    def small(x):
        return x[0] == "i" and FIX_MIN <= x[1] <= FIX_MAX
    return not (small(a) and small(b))


def run(ctx):
    rng, tier = ctx["rng"], ctx["tier"]
    rep = diff.replay_case(ctx)
    pairs = []
    if rep is not None:
        for c in rep:
            pairs.append((tuple(c["a"]), tuple(c["b"]), c.get("flag", 0)))
    else:
        for c in diff.load_corpus("C04"):
            pairs.append((tuple(c["a"]), tuple(c["b"]), c.get("flag", 0)))
        bn = boundary_numbers()
        allp = [(x, y) for x in bn for y in bn]
        allp = rng.sample(allp, 220 if tier == "quick" else 3000)
        for x, y in allp:
            pairs.append((x, y, rng.getrandbits(2)))
        n = 560 if tier == "quick" else 6000
        for _ in range(n):
            a, b = gen_pair(rng)
            pairs.append((a, b, rng.getrandbits(2)))
    cases = [make_case(i, a, b, fl) for i, (a, b, fl) in enumerate(pairs)]
    t0 = time.time()
    impl, model = diff.run_cases(cases, impl_env=IMPL_ENV)

    def suspect(c):
        """a case whose lines were disturbed by machine load: a harness process that died during start-up
        or a watchdog timeout loses the consulted clauses of the case (existence_error on its own k*_
        procedures) — never a verdict on the comparison. Such a case is run again alone."""
        rs = [impl.get(core.line_id(l), "missing") for l in c["impl"]]
        return any(transient(r) or r.startswith("panic(") or ("existence_error" in r and "_" + c["id"] + "'" in r) for r in rs)

    retried = 0
    for attempt in (1, 2):
        flaky = [c for c in cases if suspect(c)]
        if not flaky:
            break
        retried += len(flaky)
        core.log("[C04] %d case(s) disturbed (load?), re-running each alone, attempt %d: %s" % (
            len(flaky), attempt, [(c["id"], impl.get(c["id"] + "_l", "missing")[:40]) for c in flaky[:4]]))
        for c in flaky[:40]:
            impl.update(core.run_impl(c["impl"], env=IMPL_ENV))
    core.log("[C04] correspondence run: %d pairs, %.1fs, %d retried" % (len(cases), time.time() - t0, retried))

    findings = []
    agree = 0
    distinct = set()
    by_class = {}
    outcomes = {"lt": 0, "eq": 0, "gt": 0}
    known_instances = {"rat-to-double-misrounded": 0, "bigint-to-double-misrounded": 0}
    conv_inf = 0
    for c in cases:
        a, b = tuple(c["a"]), tuple(c["b"])
        cid = c["id"]
        mres = model.get(cid, "missing")
        mm = dict(kv.split("=", 1) for kv in mres.split(" ") if "=" in kv)
        E, P, X, S, Q = mm.get("E"), mm.get("P"), mm.get("X"), mm.get("S"), mm.get("Q")
        refc = ref_cmp(a, b)
        refv = vec_of(refc)
        cls = classify(a, b)
        by_class[cls] = by_class.get(cls, 0) + 1
        if S in outcomes:
            outcomes[S] += 1
        if (a[0] != "f" and to_float(a) in (INF, -INF)) or (b[0] != "f" and to_float(b) in (INF, -INF)):
            conv_inf += 1
        if nontrivial(a, b):
            distinct.add((tok(a), tok(b)))
        ctxv = {}
        problems = []
        for name in ("k1", "k3", "k4", "k2", "k5"):
            res = impl.get("%s_%s" % (cid, name), "missing")
            v = vec_from(res)
            ctxv[name] = v if v is not None else "other:" + res[:200]
            if name == "k5":
                v6 = vec_from(res, RE_R6)
                ctxv["k5call"] = (v6 + v[6:]) if (v6 is not None and v is not None) else "other:" + res[:200]
            if name in ("k3", "k4"):
                mx, my = RE_X.search(res), RE_Y.search(res)
                if v is not None and (not mx or not my or mx.group(1) != canon_echo(a) or my.group(1) != canon_echo(b)):
                    problems.append("operand-echo %s: X=%s Y=%s expected %s %s" % (
                        name, mx and mx.group(1)[:60], my and my.group(1)[:60], canon_echo(a)[:60], canon_echo(b)[:60]))
        if impl.get(cid + "_l") != "loaded":
            problems.append("consult: " + str(impl.get(cid + "_l"))[:200])
        if rep is not None:
            print("replay %s: model=%s ref=%s impl=%s" % (c["prolog"], mres, refv, ctxv))
        model_ok = (E == refv and X == E and S == {-1: "lt", 0: "eq", 1: "gt"}[refc] and Q == ("t" if refc == 0 else "f"))
        impl_vecs = set(ctxv.values())
        if model_ok and impl_vecs == {E} and not problems:
            agree += 1
            continue
        case = {k: c[k] for k in ("a", "b", "flag", "prolog")}
        case["contexts"] = ctxv
        case["model"] = mres
        if not model_ok:
            findings.append(core.Finding("disagreement", {"family": "cmp", "class": "model-vs-reference", "a": tok(a)[:80], "b": tok(b)[:80]},
                                         "Lean model (E/X/S/Q) and the Python reference disagree: E=%s X=%s S=%s Q=%s ref=%s" % (E, X, S, Q, refv), case))
            continue
        if problems:
            findings.append(core.Finding("disagreement", {"family": "cmp", "class": "case-setup", "a": tok(a)[:80], "b": tok(b)[:80]},
                                         "; ".join(problems), case))
            continue
        # the implementation differs from the proved specification in at least one context
        if impl_vecs == {P}:
            # explained exactly by the mirror of the pinned dashu conversions (findings C04-1 / C04-2)
            kinds = {a[0], b[0]}
            which = "rat-to-double-misrounded" if "r" in kinds else "bigint-to-double-misrounded"
            known_instances[which] += 1
            findings.append(core.Finding("violation", {"family": "cmp", "class": which, "explained_by_pinned_conversion_model": "yes"},
                                         "comparison with a float uses a conversion that is not the nearest double: %s ; spec %s, implementation %s in every context" % (c["prolog"], E, P), case))
        elif len(impl_vecs) > 1:
            findings.append(core.Finding("violation", {"family": "cmp", "class": "contexts-differ", "a": tok(a)[:80], "b": tok(b)[:80],
                                                       "contexts": ",".join(sorted(k for k, v in ctxv.items() if v != E))},
                                         "the evaluation contexts do not agree with each other: %s" % ctxv, case))
        else:
            findings.append(core.Finding("violation", {"family": "cmp", "class": "differs-from-spec", "pair": cls, "a": tok(a)[:80], "b": tok(b)[:80],
                                                       "impl": next(iter(impl_vecs))[:40], "spec": E},
                                         "implementation vector differs from the proved specification", case))
    return {
        "evaluations": len(cases) * 5,
        "pairs": len(cases),
        "distinct_nontrivial": len(distinct),
        "rule": "ordered pairs of numbers (int / rational / double-by-bits) built from boundary values (2^k±3 for k in 24..1100, the overflow threshold 2^1024-2^970, subnormals, the underflow threshold 2^-1075), rounding-critical tails below the 53rd bit, huge numerators/denominators, and neighbours of the first operand in every representation (same value, 1 ulp off, off by one, halfway to the next double, a relative 2^-80 off); plus (thorough: 3000 / quick: 220 sampled) pairs over %d boundary numbers. Each pair is evaluated in 5 contexts x 12 comparisons. non-trivial = not both operands small fixnums; distinct by operand pair" % len(boundary_numbers()),
        "samples": [c["prolog"] for c in cases[:3]] + [c["prolog"] for c in cases[-3:]],
        "traces_validated_against_impl": agree,
        "disagreements_checked": len(cases) - agree,
        "retried_after_timeout": retried,
        "representation_pairs": by_class,
        "spec_outcomes": outcomes,
        "pairs_with_conversion_to_infinity": conv_inf,
        "known_defect_instances": known_instances,
        "exhaustive": False,
        "findings": findings,
    }
