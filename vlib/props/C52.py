"""C52 — library(random): values are in range and reproducible.

One abstract *script* = a list of calls (set_random/1, random_integer/3, random/1, maybe/0, bulk
repetitions through findall/3).  From a script we produce
  * one harness query per call, all on the same machine and in order, and
  * ONE token line for the Lean model driver (drv_C52), which runs the mirrored range logic on the
    mirrored StdRng word stream of the seed and predicts every value exactly.
The judge compares call by call (exact equality of values, failure, error terms) and, independently
of the model, checks the property's own oracle on every implementation answer
(L =< X < H, failure iff H =< L, float in [0,1), span 1 gives L, the error table, equal sequences
after re-seeding on the same and on a fresh machine).
"""
import time

from .. import core, diff

LEVEL = "proof"
TRUSTED_BASE = [
    "vlib/props/C52.py renders one abstract call both as Prolog text and as drv_C52 tokens, and parses the harness' canonical answers",
    "the transcription of StdRng (PCG32 seed expansion + ChaCha12 block function + BlockRng word order) in Model/Random.lean `seedStream` is used by the driver only; the theorems hold for every word stream. Its agreement with the pinned rand/rand_chacha crates is observed (every compared value would differ otherwise), not proved",
    "the rand 0.8.6 / dashu-int 0.4.2 sources mirrored by the model are the ones Cargo.lock pins (a semver-compatible upgrade that changes the sampling algorithm shows up as disagreements)",
    "findall/3 and between/3 are used to repeat a call inside one query",
]
ASSUMPTIONS = [
    "integer bounds are written as literals (a literal is a fixnum iff it fits 56 bits); bounds that are un-normalised arena integers holding a small value (e.g. a previous bignum-arm result) select the bignum arm in the code but the fixnum arm in the model and are not generated",
    "an entropy-seeded machine (no set_random yet) is only checked against the distribution-free oracle",
    "the chi-square statistics in the evidence are informative only and never produce a finding",
]

IMPL_ENV = {"SV_TIMEOUT_MS": "60000"}
FUEL = 1000
CTX_RI = "'/'('random_integer',3)"
CTX_SR = "'/'('set_random',1)"
CTX = {"random_integer/3": CTX_RI, "set_random/1": CTX_SR}

# (prolog text, canonical text) of non-integer, non-variable arguments
OTHERS = [("a", "'a'"), ("1.5", "f(3ff8000000000000)"), ("foo(1)", "'foo'(1)"), ("\"ab\"", "\"ab\""),
          ("[]", "[]"), ("2^70", "'^'(2,70)"), ("[1]", "[1]"), ("0.0", "f(0000000000000000)"),
          ("1 rdiv 2", "'rdiv'(1,2)"), ("seed(1)", "'seed'(1)")]
OTHER_CAN = dict(OTHERS)


def transient(r):
    return r == "missing" or r.startswith("timeout") or r.startswith("abort") or r.startswith("skipped")


# ------------------------------------------------------------------ abstract calls
# arg: "v" | int (a literal) | ("o", prolog_text) | ("b", int): the integer held in an arena Integer whatever its value
# call: {"k":"S","a":"v"|"sv"|"x"|int|("o",text)} | {"k":"I","l":arg,"u":arg,"r":arg,"n":reps}
#       | {"k":"R","r":arg,"n":reps} | {"k":"M","n":reps} | {"k":"RESET"} (fresh machine, impl only)

def arg_pl(a, var):
    if a == "v":
        return var
    if isinstance(a, int):
        return str(a)
    if a[0] == "b":
        return var + "b"
    return a[1]


def arg_pre(a, var):
    """goal prefix that builds an un-normalised arena integer (bignum arithmetic never renormalises)."""
    if isinstance(a, tuple) and a[0] == "b":
        return "%sb is 2^80-2^80+(%d)," % (var, a[1])
    return ""


def arg_tok(a):
    if a == "v":
        return "v"
    if isinstance(a, int):
        # the reader builds a negative literal by negating the positive one: -2^55 is an arena Integer
        return ("b:%d" if a == -(1 << 55) else "i:%d") % a
    if a[0] == "b":
        return "b:%d" % a[1]
    return "o:" + OTHER_CAN[a[1]]


def ival(a):
    """integer value of an integer argument, else None."""
    if isinstance(a, int):
        return a
    if isinstance(a, tuple) and a[0] == "b":
        return a[1]
    return None


def call_pl(c):
    """query text; bulk calls collect answers with findall (1/0 for maybe)."""
    k, n = c["k"], c.get("n", 1)
    if k == "S":
        a = c["a"]
        if a == "v":
            return "set_random(_)."
        if a == "sv":
            return "set_random(seed(_))."
        if a == "x":
            return "set_random(foo)."
        if isinstance(a, int):
            return "set_random(seed(%d))." % a
        return "set_random(seed(%s))." % a[1]
    if k == "I":
        g = "%s%srandom_integer(%s,%s,%s)" % (arg_pre(c["l"], "_L"), arg_pre(c["u"], "_U"), arg_pl(c["l"], "_L"), arg_pl(c["u"], "_U"), arg_pl(c["r"], "X"))
    elif k == "R":
        g = "random(%s)" % arg_pl(c["r"], "X")
    else:
        g = "maybe"
    if n == 1:
        return g + "."
    if k == "M":
        return "findall(X,(between(1,%d,_),(maybe->X=1;X=0)),Xs)." % n
    return "findall(X,(between(1,%d,_),%s),Xs)." % (n, g)


def call_tok(c):
    k, n = c["k"], c.get("n", 1)
    pre = "* %d " % n if n != 1 else ""
    if k == "S":
        a = c["a"]
        if a in ("v", "sv", "x"):
            return "S " + a
        if isinstance(a, int):
            return "S i %d" % a
        return "S o " + OTHER_CAN[a[1]]
    if k == "I":
        return pre + "I %s %s %s" % (arg_tok(c["l"]), arg_tok(c["u"]), arg_tok(c["r"]))
    if k == "R":
        return pre + "R " + arg_tok(c["r"])
    return pre + "M"


def words_estimate(c):
    if c["k"] == "I" and ival(c["l"]) is not None and ival(c["u"]) is not None and ival(c["u"]) > ival(c["l"]):
        return c.get("n", 1) * (6 + 2 * ((ival(c["u"]) - ival(c["l"])).bit_length() // 64 + 1)) * 2
    return c.get("n", 1) * 4


def make_case(cid, calls):
    impl = ["Q\t%s_u1\t1\tuse_module(library(random))." % cid, "Q\t%s_u2\t1\tuse_module(library(between))." % cid]
    model_calls, ids = [], []
    est = 64
    for j, c in enumerate(calls):
        if c["k"] == "RESET":
            impl += ["R\t%s_r%d" % (cid, j), "Q\t%s_v%d\t1\tuse_module(library(random))." % (cid, j),
                     "Q\t%s_w%d\t1\tuse_module(library(between))." % (cid, j)]
            ids.append(None)
            continue
        lid = "%s_c%d" % (cid, j)
        ids.append(lid)
        impl.append("Q\t%s\t2\t%s" % (lid, call_pl(c)))
        model_calls.append(call_tok(c))
        est += words_estimate(c)
    nblocks = min(est // 16 + 2, 6000)
    model = ["script\t%s_m\t%d %d %s" % (cid, nblocks, FUEL, " ".join(model_calls))]
    return {"id": cid, "calls": calls, "ids": ids, "impl": impl, "model": model}


def norm_calls(calls):
    """calls as loaded from JSON (lists) -> tuples for ("o", text) args."""
    out = []
    for c in calls:
        d = {}
        for k, v in c.items():
            d[k] = tuple(v) if isinstance(v, list) else v
        out.append(d)
    return out


# ------------------------------------------------------------------ answers

def parse_list(txt):
    if txt == "[]":
        return []
    if not (txt.startswith("[") and txt.endswith("]")):
        return None
    return txt[1:-1].split(",")


def impl_outcomes(c, res):
    """harness result of one call -> list of outcome strings in the model's vocabulary, or None."""
    n = c.get("n", 1)
    if res.startswith("error('error'("):
        body = res[len("error('error'("):-2]
        for name, can in CTX.items():
            if body == "'instantiation_error'," + can:
                return ["inst(%s)" % name]
            pre = "'type_error'('integer',"
            if body.startswith(pre) and body.endswith(")," + can):
                return ["type(%s,%s)" % (body[len(pre):-len(")," + can)], name)]
        return None
    if n == 1:
        if res == "false":
            return ["fails"]
        if res == "true":
            return ["true"]
        if res.startswith("{X=") and res.endswith("}"):
            return [res[3:-1].split(",_")[0]]       # helper variables _Lb/_Ub follow X
        if res.startswith("{_") and res.endswith("}") and "X=" not in res:
            return ["true"]
        return None
    if res.startswith("{Xs=") and res.endswith("}"):
        l = parse_list(res[4:-1])
        if l is None:
            return None
        if c["k"] == "M":
            l = ["true" if x == "1" else "fails" for x in l]
        # findall drops failing iterations: only meaningful when every iteration succeeds
        return l
    return None


def model_outcomes(c, toks, pos):
    """consume this call's outcomes from the model's flat outcome list."""
    n = c.get("n", 1)
    if c["k"] == "S":
        n = 1
    out = toks[pos:pos + n]
    if c.get("n", 1) != 1 and c["k"] != "M":
        out = [x for x in out if x != "fails"]     # findall keeps successes only
    return out, pos + n


def float_ok(tok):
    """f(<16 hex>) denotes a double in [0,1)."""
    if not (tok.startswith("f(") and tok.endswith(")") and len(tok) == 19):
        return False
    try:
        b = int(tok[2:-1], 16)
    except ValueError:
        return False
    return b < 0x3FF0000000000000


def oracle(c, outs):
    """the property's own oracle on the implementation's outcomes of one call. None = ok."""
    k = c["k"]
    if k == "I":
        l, u, r = c["l"], c["u"], c["r"]
        if r != "v":
            return None if outs == ["fails"] else "third argument is not a variable: the documented mode is -R"
        if l == "v" or u == "v":
            return None if outs == ["inst(random_integer/3)"] else "unbound bound must raise instantiation_error"
        if ival(l) is None:
            return None if outs == ["type(%s,random_integer/3)" % OTHER_CAN[l[1]]] else "non-integer Lower must raise type_error(integer, Lower)"
        if ival(u) is None:
            return None if outs == ["type(%s,random_integer/3)" % OTHER_CAN[u[1]]] else "non-integer Upper must raise type_error(integer, Upper)"
        l, u = ival(l), ival(u)
        if u <= l:
            return None if outs in (["fails"], []) else "empty range must fail"
        if len(outs) != c.get("n", 1):
            return "non-empty range must succeed (%d of %d answers)" % (len(outs), c.get("n", 1))
        for x in outs:
            try:
                v = int(x)
            except ValueError:
                return "answer %s is not an integer" % x
            if not (l <= v < u):
                return "answer %d is outside [%d,%d)" % (v, l, u)
        return None
    if k == "R":
        if c["r"] != "v":
            return None if outs == ["fails"] else "random/1 with a bound argument"
        if len(outs) != c.get("n", 1):
            return "random/1 must succeed"
        for x in outs:
            if not float_ok(x):
                return "answer %s is not a float in [0,1)" % x
        return None
    if k == "M":
        return None if all(x in ("true", "fails") for x in outs) and len(outs) == c.get("n", 1) else "maybe/0 neither succeeded nor failed"
    if k == "S":
        a = c["a"]
        if a in ("v", "sv"):
            return None if outs == ["inst(set_random/1)"] else "unbound seed must raise instantiation_error"
        if a == "x":
            return None
        if isinstance(a, int):
            return None if outs == ["true"] else "set_random(seed(S)) with an integer S must succeed"
        return None if outs == ["type(%s,set_random/1)" % OTHER_CAN[a[1]]] else "non-integer seed must raise type_error(integer, S)"
    return None


# ------------------------------------------------------------------ generators

P = lambda k: 1 << k
CENTRES = [0, P(31), -P(31), P(55), -P(55), P(56), -P(56), P(63), -P(63), P(64), -P(64),
           P(127), -P(128), P(128), P(200), -P(200)]
SPANS = [1, 1, 2, 3, 6, 10, 255, P(32) - 1, P(32) + 1, P(50), P(55), P(56) - 1, P(56), P(62) * 3, P(63) - 1, P(63) + 1,
         P(64) - 1, P(64), P(64) + 1, P(64) * 3 // 2, P(127) + 1, P(128) - 1, P(128), P(128) + 1, P(128) + P(64),
         P(128) * 2 - 1, P(191), P(192), P(192) + 1, P(200), P(256) - 1, P(64) * (P(64) - 1) * P(64) + 5]
SEEDS = [0, 1, 2, 5, P(32) - 1, P(32), P(55), P(56), P(63) - 1, P(63), P(64) - 1]
BAD_SEEDS = [-1, -2, -P(55), -P(56) - 1, -P(63), -P(64), P(64), P(64) + 5, P(65) + 7, P(200) + 3, -P(200)]


def gen_seed(rng):
    return rng.choice(SEEDS) if rng.random() < 0.4 else rng.getrandbits(rng.choice([8, 32, 56, 64]))


def gen_bounds(rng):
    r = rng.random()
    if r < 0.10:        # empty / reversed ranges
        l = rng.choice(CENTRES) + rng.randint(-2, 2)
        return l, l - rng.choice([0, 0, 1, 2, P(56), P(64), P(130)])
    if r < 0.30:        # both bounds fixnums (u64 sampler), incl. the extreme fixnums
        span = rng.choice([1, 2, 3, 6, 7, 10, 100, 255, P(16) + 1, P(31), P(32) - 1, P(32), P(32) + 1, P(33) + P(31), P(50), P(54) + 3,
                           P(55) - 1, P(55), P(55) + 1, P(56) - 2])
        l = rng.choice([0, 0, 1, -1, -span // 2, -span, P(31), -P(31), P(55) - 1 - span, -P(55) + 1, rng.randint(-10 ** 6, 10 ** 6)])
        l = max(l, -P(55) + 1)
        u = min(l + span, P(55) - 1)
        return l, u
    if r < 0.70:
        c = rng.choice(CENTRES) + rng.randint(-2, 2)
        span = rng.choice(SPANS)
        off = rng.choice([0, 0, 1, span // 2, span - 1, span, span + 1]) if span > 1 else rng.choice([0, 1])
        l = c - off
        return l, l + span
    bits = rng.choice([3, 8, 30, 54, 55, 56, 57, 63, 64, 65, 100, 127, 128, 129, 190, 260])
    l = rng.getrandbits(bits) * rng.choice([1, -1])
    span = rng.getrandbits(rng.choice([1, 2, 8, 33, 56, 64, 65, 128, 129, 200])) + 1
    return l, l + span


def gen_call(rng, bulk):
    r = rng.random()
    if r < 0.62:
        l, u = gen_bounds(rng)
        c = {"k": "I", "l": l, "u": u, "r": "v"}
        if u > l and rng.random() < 0.35:
            c["n"] = bulk
        if rng.random() < 0.08:      # the same integers held un-normalised in arena Integers
            w = rng.choice(["l", "u", "lu"])
            if "l" in w:
                c["l"] = ("b", l)
            if "u" in w:
                c["u"] = ("b", u)
        return c
    if r < 0.72:
        return {"k": "R", "r": "v", "n": rng.choice([1, 1, bulk])}
    if r < 0.80:
        return {"k": "M", "n": rng.choice([1, 1, bulk])}
    if r < 0.92:        # error / failure table of random_integer/3 and random/1
        pool = ["v", "v", rng.choice(CENTRES), rng.randint(-5, 5), ("o", rng.choice(OTHERS)[0])]
        l, u = rng.choice(pool), rng.choice(pool)
        rr = rng.choice(["v", "v", "v", rng.randint(0, 3), ("o", "a")])
        if rng.random() < 0.15:
            return {"k": "R", "r": rng.choice([3, ("o", "1.5"), ("o", "a")])}
        return {"k": "I", "l": l, "u": u, "r": rr}
    # set_random table / re-seeding in the middle
    return {"k": "S", "a": rng.choice(["v", "sv", "x", ("o", rng.choice(OTHERS)[0]), gen_seed(rng), gen_seed(rng)])}


def gen_script(rng, cid, ncalls, bulk):
    calls = [{"k": "S", "a": gen_seed(rng)}] + [gen_call(rng, bulk) for _ in range(ncalls)]
    return make_case(cid, calls)


def gen_repro(rng, cid, ncalls, bulk):
    """the same calls after set_random(seed(S)): on the machine as it is, again after re-seeding, and
    on a fresh machine (R); the judge compares the three segments with each other."""
    s = gen_seed(rng)
    body = []
    while len(body) < ncalls:
        c = gen_call(rng, bulk)
        if c["k"] != "S":
            body.append(c)
    seg = [{"k": "S", "a": s}] + body
    # some draws with another seed in between, so that the generator state differs before re-seeding
    mid = [{"k": "S", "a": s ^ 1} if rng.random() < 0.5 else {"k": "M", "n": 2}, {"k": "I", "l": 0, "u": 1000, "r": "v", "n": 3}]
    case = make_case(cid, seg + mid + seg + [{"k": "RESET"}] + seg)
    case["repro"] = len(seg)
    return case


def gen_badseed(rng, cid, s):
    return make_case(cid, [{"k": "S", "a": s}, {"k": "I", "l": 0, "u": 1000, "r": "v", "n": 4},
                           {"k": "I", "l": -P(70), "u": P(70), "r": "v"}, {"k": "R", "r": "v"}])


def gen_unseeded(rng, cid, n):
    """fresh machine, entropy seeded: only the oracle applies (the model answers `?`)."""
    calls = [{"k": "RESET"}]
    for _ in range(n):
        l, u = gen_bounds(rng)
        calls.append({"k": "I", "l": l, "u": u, "r": "v", "n": 1 if u <= l else 5})
    calls += [{"k": "R", "r": "v", "n": 20}, {"k": "M", "n": 20}]
    case = make_case(cid, calls)
    case["unseeded"] = True
    return case


def gen_stat(rng, cid, n):
    s = gen_seed(rng)
    case = make_case(cid, [{"k": "S", "a": s}, {"k": "I", "l": -2, "u": 4, "r": "v", "n": n},
                           {"k": "M", "n": n}, {"k": "I", "l": P(70), "u": P(70) + 6, "r": "v", "n": n}])
    case["stat"] = True
    return case


# ------------------------------------------------------------------ judge

def judge_case(case, impl, model, stats):
    """returns list of findings."""
    calls, ids = case["calls"], case["ids"]
    mline = model.get(case["id"] + "_m", "missing")
    mtoks = mline.split(" pos=")[0].split(";") if " pos=" in mline else []
    findings = []
    pos = 0
    seeded = False
    segs = []       # outcomes per call, for the reproducibility comparison
    for j, c in enumerate(calls):
        if c["k"] == "RESET":
            seeded = False
            segs.append(None)
            continue
        res = impl.get(ids[j], "missing")
        mo, pos = model_outcomes(c, mtoks, pos)
        io = impl_outcomes(c, res)
        stats["evaluations"] += 1
        mini = {"id": case["id"] + "x", "calls": mini_calls(calls, j)}

        def fnd(kind, extra, detail):
            s = {"family": "random", "call": {"S": "set_random", "I": "random_integer", "R": "random", "M": "maybe"}[c["k"]]}
            s.update(extra)
            mc = dict(mini)
            mc["observed"] = res[:300]
            mc["model_out"] = mo[:20]
            return core.Finding(kind, s, detail, mc)

        if c["k"] == "S" and isinstance(c["a"], int) and not (0 <= c["a"] < P(64)) and res.startswith("panic("):
            findings.append(fnd("violation", {"defect": "set_seed-panics-on-seed-outside-u64", "seed_sign": "neg" if c["a"] < 0 else "big"},
                                "set_random(seed(%d)) panics inside '$set_seed' (try_into::<u64>().unwrap()); the machine is lost" % c["a"]))
            stats["known_shape"] += 1
            return findings     # the rest of the case ran on a new machine without the library
        if io is None:
            findings.append(fnd("violation", {"input": call_pl(c), "impl": res[:120]},
                                "unexpected answer shape (panic, foreign error, or non-list)"))
            return findings
        segs.append(io)
        o = oracle(c, io)
        if o is not None:
            findings.append(fnd("violation", {"input": call_pl(c)[:200], "impl": ",".join(io)[:120]}, o))
            continue
        if c["k"] == "S" and io == ["true"] and not any(f.kind == "disagreement" for f in findings):
            seeded = True
        if not seeded:
            stats["oracle_only"] += 1
            continue
        if io != mo:
            first = next((i for i, (a, b) in enumerate(zip(io, mo)) if a != b), min(len(io), len(mo)))
            findings.append(fnd("disagreement", {"input": call_pl(c)[:200], "impl": ",".join(io[first:first + 1])[:100],
                                                 "model": ",".join(mo[first:first + 1])[:100], "at": str(first)},
                                "the value differs from the model's function of the seed's raw word stream (all values are in range): "
                                "the sampling algorithm or the generator changed"))
            seeded = False      # later values are shifted too: only the oracle and the reproducibility comparison go on
            continue
        stats["agree"] += 1
        if c["k"] in ("I", "R") and c.get("r") == "v" and io and io[0] not in ("fails",) and not io[0].startswith(("inst", "type")):
            stats["distinct"].add((call_pl(c), io[0]))
            stats["values"] += len(io)
        stats["kinds"][kind_of(c, io)] = stats["kinds"].get(kind_of(c, io), 0) + 1
    if "repro" in case:
        n = case["repro"]
        a, b, c3 = segs[:n], segs[n + 2:2 * n + 2], segs[2 * n + 3:3 * n + 3]
        stats["repro_scripts"] += 1
        if not (a == b == c3):
            findings.append(core.Finding("violation", {"family": "random", "call": "reproducibility", "seed": str(calls[0]["a"])},
                                         "the same calls after set_random(seed(S)) gave different values (same machine re-seeded: %s, fresh machine: %s)" % (a == b, a == c3),
                                         {"id": case["id"] + "x", "calls": calls, "repro": n}))
    return findings


def mini_calls(calls, j):
    """smallest replayable prefix: everything from the last seeding/RESET before call j."""
    start = 0
    for i in range(j, -1, -1):
        if calls[i]["k"] == "RESET" or (calls[i]["k"] == "S" and isinstance(calls[i]["a"], int) and i < j):
            start = i
            break
    return calls[start:j + 1]


def kind_of(c, io):
    k = c["k"]
    if k == "I" and ival(c["l"]) is not None and ival(c["u"]) is not None and c["r"] == "v":
        if ival(c["u"]) <= ival(c["l"]):
            return "I:empty"
        rep = lambda a: "unnormalised-big" if (not isinstance(a, int) or a == -P(55)) and -P(55) <= ival(a) < P(55) else ("fix" if -P(55) <= ival(a) < P(55) else "big")
        span = ival(c["u"]) - ival(c["l"])
        arm = rep(c["l"]) + "/" + rep(c["u"])
        if arm == "fix/fix":
            return "I:fix/fix"
        return "I:%s:%s" % (arm, "u128" if span < P(128) else "words%d" % ((span.bit_length() + 63) // 64))
    if io and (io[0].startswith("inst") or io[0].startswith("type")):
        return k + ":" + io[0].split("(")[0]
    if k == "S":
        return "S:" + (io[0] if io else "?")
    return k + (":nonvar" if c.get("r", "v") != "v" else "")


def chi_square(xs, k):
    n = len(xs)
    if n == 0:
        return None
    e = n / k
    cnt = {}
    for x in xs:
        cnt[x] = cnt.get(x, 0) + 1
    return round(sum((cnt.get(i, 0) - e) ** 2 / e for i in range(k)) if all(0 <= x < k for x in xs) else -1.0, 3)


def run(ctx):
    rng, tier = ctx["rng"], ctx["tier"]
    rep = diff.replay_case(ctx)
    if rep is not None:
        cases = []
        for i, c in enumerate(rep):
            k = make_case("rp%d" % i, norm_calls(c["calls"]))
            if "repro" in c:
                k["repro"] = c["repro"]
            cases.append(k)
    else:
        cases = []
        for i, c in enumerate(diff.load_corpus("C52")):
            k = make_case("k%d" % i, norm_calls(c["calls"]))
            if "repro" in c:
                k["repro"] = c["repro"]
            cases.append(k)
        if tier == "quick":
            nscripts, ncalls, bulk, nrep, nuns, nstat = 160, 12, 40, 8, 3, 3000
        else:
            nscripts, ncalls, bulk, nrep, nuns, nstat = 800, 14, 300, 30, 10, 10000
        cases += [gen_script(rng, "s%d" % i, ncalls, bulk) for i in range(nscripts)]
        cases += [gen_repro(rng, "r%d" % i, 8, bulk) for i in range(nrep)]
        cases += [gen_badseed(rng, "b%d" % i, s) for i, s in enumerate(BAD_SEEDS)]
        cases += [gen_unseeded(rng, "u%d" % i, 10) for i in range(nuns)]
        # directed: every span of the table at every centre once (span 1 must return L), one script per centre
        for i, cen in enumerate(CENTRES):
            calls = [{"k": "S", "a": gen_seed(rng)}]
            for sp in SPANS:
                l = cen - rng.choice([0, 1, sp // 2, sp - 1])
                calls.append({"k": "I", "l": l, "u": l + sp, "r": "v", "n": 3})
            cases.append(make_case("d%d" % i, calls))
        # directed: width 1..3 ranges straddling the fixnum boundaries (fix/big and big/fix arms; the
        # literal -2^55 itself is an arena integer) and the u64/u128 word boundaries
        for i, b in enumerate([P(55), -P(55), P(63), P(64), -P(64), P(128), -P(128)]):
            calls = [{"k": "S", "a": gen_seed(rng)}]
            for lo, hi in [(-1, 0), (-1, 1), (-2, 1), (0, 1), (0, 2), (-3, 0), (-1, 2)]:
                calls.append({"k": "I", "l": b + lo, "u": b + hi, "r": "v", "n": 6})
            cases.append(make_case("e%d" % i, calls))
        cases += [gen_stat(rng, "t0", nstat)]
    t0 = time.time()
    impl, model = diff.run_cases(cases, impl_env=IMPL_ENV)
    retried = 0
    for c in cases:
        if any(transient(impl.get(i, "missing")) for i in c["ids"] if i):
            retried += 1
            impl2, _ = diff.run_cases([{"id": c["id"], "impl": c["impl"]}], impl_env=IMPL_ENV, parallel=False)
            impl.update(impl2)
    core.log("[C52] correspondence run: %d scripts, %.1fs, %d retried" % (len(cases), time.time() - t0, retried))
    stats = {"evaluations": 0, "agree": 0, "oracle_only": 0, "known_shape": 0, "values": 0, "distinct": set(),
             "kinds": {}, "repro_scripts": 0}
    findings = []
    chis = {}
    for c in cases:
        fs = judge_case(c, impl, model, stats)
        findings += fs
        if rep is not None:
            for j, cl in enumerate(c["calls"]):
                if cl["k"] != "RESET":
                    print("replay %s\n  impl  = %s" % (call_pl(cl)[:200], impl.get(c["ids"][j], "missing")[:300]))
            print("  model = %s\n  -> %s" % (model.get(c["id"] + "_m", "missing")[:600], "agree" if not fs else fs[0].detail))
        if c.get("stat"):
            for j, cl in enumerate(c["calls"]):
                io = impl_outcomes(cl, impl.get(c["ids"][j] or "", "missing")) if cl["k"] != "RESET" else None
                if not io or cl.get("n", 1) == 1:
                    continue
                try:
                    if cl["k"] == "I":
                        chis["random_integer(%d,%d) n=%d df=5" % (cl["l"], cl["u"], len(io))] = chi_square([int(x) - cl["l"] for x in io], 6)
                    elif cl["k"] == "M":
                        chis["maybe n=%d df=1" % len(io)] = chi_square([1 if x == "true" else 0 for x in io], 2)
                except ValueError:
                    pass
    findings.sort(key=lambda f: 0 if f.kind == "violation" else 1)
    words = [model.get(c["id"] + "_m", "").split(" pos=")[-1] for c in cases[:3]]
    samples = []
    for c in cases[:3] + cases[-3:]:
        for j, cl in enumerate(c["calls"][:4]):
            if cl["k"] != "RESET":
                samples.append("%s -> %s" % (call_pl(cl)[:120], impl.get(c["ids"][j], "missing")[:80]))
    return {
        "evaluations": stats["evaluations"],
        "distinct_nontrivial": len(stats["distinct"]),
        "rule": "scripts = set_random(seed(S)) followed by random calls: random_integer with bounds around 0, +-2^31, +-2^55, +-2^56, +-2^63, +-2^64, "
                "+-2^127/2^128, +-2^200 and spans 1,2,3,...,2^32+-1,2^55,2^56,3*2^62,2^63+-1,2^64-1,2^64,2^64+1,2^127+1,2^128-1,2^128,2^128+1,2^192(+1),2^200,2^256-1 "
                "(every representation arm: fix/fix, fix/big, big/fix, big/big; u64, u128 and multi-word samplers), random bit-length bounds, empty and reversed "
                "ranges, bulk repetitions through findall, random/1, maybe/0, the error/failure table (unbound, non-integer, bound third argument), "
                "set_random error table and re-seeding in the middle; seeds at 0,1,2^32,2^55,2^56,2^63,2^64-1 and random; seeds outside 0..2^64; "
                "reproducibility scripts (same machine re-seeded + fresh machine); entropy-seeded machines (oracle only); one directed script per centre "
                "with every span. non-trivial = a call that produced a value; distinct by (query text, first value)",
        "samples": samples[:12],
        "traces_validated_against_impl": stats["agree"],
        "disagreements_checked": stats["evaluations"] - stats["agree"] - stats["oracle_only"],
        "values_compared_exactly": stats["values"],
        "oracle_only_calls": stats["oracle_only"],
        "reproducibility_scripts": stats["repro_scripts"],
        "retried_after_timeout": retried,
        "call_kinds_hit": dict(sorted(stats["kinds"].items())),
        "known_defect_instances": stats["known_shape"],
        "raw_words_consumed_first_scripts": words,
        "chi_square_sanity_not_a_verdict": chis,
        "exact_value_tie": "yes: no hook needed, the driver mirrors StdRng (seed_from_u64 + ChaCha12) and predicts every value from the seed",
        "findings": findings,
    }
