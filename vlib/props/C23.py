"""C23 — term construction and inspection builtins match a term model.

One abstract case = one call of functor/3, arg/3, =../2, copy_term/2, term_variables/2, ground/1
or subsumes_term/2 on generated argument terms (shared variables, atoms, small/boundary/big
integers, floats, rationals, strings, partial strings, lists, partial/improper lists, compounds)
in a generated instantiation mode, including malformed arguments.

Implementation:   Prelude, catch((Goal, S = ok), error(E,_), S = err(E)), R0 = r(S, V0, …, Vn), copy_term(R0, R).
Model (drv_C23):  the mirrored builtin (Model/TermOps.lean) on the same argument terms, printing the
                  same report term r(S, V0σ, …, Vnσ).
Judge: both report terms must be equal up to a bijective renaming of variables (success: the answer
substitution on all query variables, so sharing between the answer's fresh variables and the
query's variables is compared; error: the formal with its culprit; failure: `false`).  Cases where
the model says `cyclic` (the builtin's unification builds a rational tree) are not compared.
"""
import re
import struct

from .. import core, diff

LEVEL = "proof"
TRUSTED_BASE = [
    "Model.TermOps is a term-level model: heap cells (Lis/PStrLoc/Str), the copier's forwarding/trail phases and binding direction are tied to it only by this correspondence run; unification inside the builtins is Model.Unify (C10)",
    "vlib/props/C23.py renders one abstract term both as Prolog text (strings, partial strings via partial_string/3, list syntax, run-time computed bignums/rationals) and as canonical text for the model driver; parser of the canonical answer syntax and the variant (equal up to renaming) test are in Python",
    "answers are observed through one report term r(Status, V0..Vn) bound after the call (catch/3 turns error(E,_) into err(E))",
]
ASSUMPTIONS = [
    "terms are finite (cyclic inputs are not generated; calls whose unification creates a cyclic term are not compared); attributed variables are out of scope",
    "floats -0.0 and NaN are not generated; rationals with denominator 1 are not generated",
    "results containing a partial string with a non-[] atom tail are not compared (printing them back panics in the answer printer: notes/findings-misc.md)",
    "numbervars/3 does not exist in this tree; arg/3 has no enumeration mode (N unbound raises instantiation_error) — mirrored",
]

OPS = ("functor", "arg", "univ", "copy", "tvars", "ground", "subsumes")

# ------------------------------------------------------------------ abstract terms
# ('v', name) ('i', n) ('ri', n, exprtext) ('q', num, den) ('f', float) ('a', name)
# ('s', functor, [args]) ('str', "chars", tail|None) ('lst', [elems], tail|None)
# ('sh', VarName, term): a sub-term reached through a variable bound in the prelude (shared when it
#                        occurs more than once)


def fbits(x):
    return struct.unpack(">Q", struct.pack(">d", x))[0]


def q_atom(a):
    return "'" + a.replace("\\", "\\\\").replace("'", "\\'") + "'"


def nil():
    return ('a', '[]')


def cons(h, t):
    return ('s', '.', [h, t])


def is_char(t):
    return t[0] == 'a' and len(t[1]) == 1


class Render:
    """renders abstract terms to Prolog text, collecting prelude goals."""

    def __init__(self):
        self.prelude = []
        self.shared = set()
        self.n = 0

    def fresh(self, p):
        self.n += 1
        return "%s%d" % (p, self.n)

    def pl(self, t):
        k = t[0]
        if k == 'v':
            return t[1]
        if k == 'i':
            return str(t[1]) if t[1] >= 0 else "-%d" % -t[1]
        if k == 'ri':
            v = self.fresh("N")
            self.prelude.append("%s is %s" % (v, t[2]))
            return v
        if k == 'q':
            v = self.fresh("Q")
            self.prelude.append("%s is %d rdiv %d" % (v, t[1], t[2]))
            return v
        if k == 'f':
            return repr(t[1])
        if k == 'a':
            return "[]" if t[1] == '[]' else q_atom(t[1])
        if k == 's':
            return "%s(%s)" % (q_atom(t[1]), ",".join(self.pl(a) for a in t[2]))
        if k == 'str':
            s = '"' + t[1].replace("\\", "\\\\").replace('"', '\\"') + '"'
            if t[2] is None:
                return s
            tl = self.pl(t[2])
            v = self.fresh("P")
            self.prelude.append("partial_string(%s, %s, %s)" % (s, v, tl))
            return v
        if k == 'lst':
            inner = ",".join(self.pl(e) for e in t[1])
            if t[2] is None:
                return "[%s]" % inner
            return "[%s|%s]" % (inner, self.pl(t[2]))
        if k == 'sh':
            if t[1] not in self.shared:
                self.shared.add(t[1])
                txt = self.pl(t[2])
                self.prelude.append("%s = (%s)" % (t[1], txt))
            return t[1]
        raise ValueError(t)


def expand(t):
    """abstract term -> plain tree over v/i/q/f/a/s (lists as cons cells)."""
    k = t[0]
    if k in ('v', 'a', 'q', 'i'):
        return t
    if k == 'ri':
        return ('i', t[1])
    if k == 'f':
        return ('f', fbits(t[1]))
    if k == 's':
        return ('s', t[1], [expand(a) for a in t[2]])
    if k == 'str':
        tl = nil() if t[2] is None else expand(t[2])
        for c in reversed(t[1]):
            tl = cons(('a', c), tl)
        return tl
    if k == 'lst':
        tl = nil() if t[2] is None else expand(t[2])
        for e in reversed(t[1]):
            tl = cons(expand(e), tl)
        return tl
    if k == 'sh':
        return expand(t[2])
    raise ValueError(t)


def canon(t):
    """plain tree -> canonical text understood by Drv/TermIO.parseTermStr."""
    k = t[0]
    if k == 'v':
        return t[1]
    if k == 'i':
        return str(t[1])
    if k == 'q':
        return "r(%d,%d)" % (t[1], t[2])
    if k == 'f':
        return "f(%016x)" % t[1]
    if k == 'a':
        return "[]" if t[1] == '[]' else q_atom(t[1])
    if k == 's':
        return "%s(%s)" % (q_atom(t[1]), ",".join(canon(a) for a in t[2]))
    raise ValueError(t)


def tree_vars(t, acc=None):
    acc = [] if acc is None else acc
    st = [t]
    while st:
        x = st.pop()
        if x[0] == 'v':
            if x[1] not in acc:
                acc.append(x[1])
        elif x[0] == 's':
            st.extend(reversed(x[2]))
    return acc


def tree_size(t):
    n, st = 0, [t]
    while st:
        x = st.pop()
        n += 1
        if x[0] == 's':
            st.extend(x[2])
    return n


def tree_subst(t, sub):
    if t[0] == 'v':
        return sub.get(t[1], t)
    if t[0] == 's':
        return ('s', t[1], [tree_subst(a, sub) for a in t[2]])
    return t


def unprintable(t):
    """a cons cell with a one-char head and a non-[] atom tail (printing it back panics)."""
    st = [t]
    while st:
        x = st.pop()
        if x[0] == 's':
            if x[1] == '.' and len(x[2]) == 2 and is_char(x[2][0]) and x[2][1][0] == 'a' and x[2][1][1] != '[]':
                return True
            st.extend(x[2])
    return False


# ------------------------------------------------------------------ canonical answer parser

class P:
    def __init__(self, s):
        self.s, self.i = s, 0

    def peek(self):
        return self.s[self.i] if self.i < len(self.s) else ""

    def quoted(self, q):
        assert self.s[self.i] == q
        self.i += 1
        out = []
        while True:
            c = self.s[self.i]
            if c == "\\":
                d = self.s[self.i + 1]
                if d == "x":
                    j = self.s.index("\\", self.i + 2)
                    out.append(chr(int(self.s[self.i + 2:j], 16)))
                    self.i = j + 1
                else:
                    out.append(d)
                    self.i += 2
            elif c == q:
                self.i += 1
                return "".join(out)
            else:
                out.append(c)
                self.i += 1

    def args(self, close):
        out = []
        while True:
            out.append(self.term())
            c = self.s[self.i]
            self.i += 1
            if c == close:
                return out
            assert c == ",", (self.s, self.i)

    RX_R = re.compile(r"r\((-?\d+),(\d+)\)")
    RX_F = re.compile(r"f\(([0-9a-f]{16})\)")
    RX_I = re.compile(r"-?\d+")
    RX_V = re.compile(r"[A-Za-z_][A-Za-z0-9_]*")

    def term(self):
        c = self.peek()
        if c == "'":
            name = self.quoted("'")
            if self.peek() == "(":
                self.i += 1
                return ('s', name, self.args(")"))
            return ('a', name)
        if c == '"':
            tl = nil()
            for ch in reversed(self.quoted('"')):
                tl = cons(('a', ch), tl)
            return tl
        if c == "[":
            self.i += 1
            if self.peek() == "]":
                self.i += 1
                return nil()
            tl = nil()
            for e in reversed(self.args("]")):
                tl = cons(e, tl)
            return tl
        m = self.RX_R.match(self.s, self.i)
        if m:
            self.i = m.end()
            return ('q', int(m.group(1)), int(m.group(2)))
        m = self.RX_F.match(self.s, self.i)
        if m:
            self.i = m.end()
            return ('f', int(m.group(1), 16))
        m = self.RX_I.match(self.s, self.i)
        if m:
            self.i = m.end()
            return ('i', int(m.group(0)))
        m = self.RX_V.match(self.s, self.i)
        if m:
            self.i = m.end()
            return ('v', m.group(0))
        raise ValueError("cannot parse %r at %d" % (self.s, self.i))


def parse_canon(s):
    p = P(s)
    t = p.term()
    if p.i != len(s):
        raise ValueError("trailing text in %r at %d" % (s, p.i))
    return t


def parse_bindings(s):
    """`{A=t,B=t}` -> dict name -> tree."""
    assert s.startswith("{") and s.endswith("}"), s
    p = P(s)
    p.i = 1
    out = {}
    if p.peek() == "}":
        return out
    while True:
        m = P.RX_V.match(p.s, p.i)
        name = m.group(0)
        p.i = m.end()
        assert p.s[p.i] == "=", (s, p.i)
        p.i += 1
        out[name] = p.term()
        c = p.s[p.i]
        p.i += 1
        if c == "}":
            return out
        assert c == ",", (s, p.i)


def rename_first(t):
    """canonical text of t with variables renamed by first occurrence (preorder)."""
    names = {}
    out = []

    def go(x):
        k = x[0]
        if k == 'v':
            out.append("_%d" % names.setdefault(x[1], len(names)))
        elif k == 's':
            out.append(q_atom(x[1]) + "(")
            for j, a in enumerate(x[2]):
                if j:
                    out.append(",")
                go(a)
            out.append(")")
        else:
            out.append(canon(x))

    import sys
    sys.setrecursionlimit(max(sys.getrecursionlimit(), 20000))
    go(t)
    return "".join(out)


# ------------------------------------------------------------------ generators

VARS = ["V0", "V1", "V2", "V3", "V4", "V5"]
OUT = ["W0", "W1", "W2"]     # variables that occur nowhere else (fresh output arguments)
ATOMS = ["a", "b", "c", "[]", "x", "{}", "f", "hello world", "A", "don't", ".", "foo", "\u00e9", "\u2192x"]
FUNCTORS = [("f", 1), ("f", 2), ("f", 3), ("g", 1), ("g", 2), ("h", 2), ("-", 2), ("p", 4), (".", 2), ("[]", 1),
            ("{}", 1), (".", 3)]
SMALL = [0, 1, -1, 2, 3, 7, 255]
EDGE = [2 ** 55, 2 ** 55 - 1, -(2 ** 55), 2 ** 56, -(2 ** 56), 2 ** 62, 2 ** 63, 2 ** 63 - 1, -(2 ** 63), 2 ** 64,
        2 ** 64 - 1, 2 ** 64 + 1, 2 ** 70, -(2 ** 70), 10 ** 30, 2 ** 128 + 3]
FLOATS = [0.0, 1.0, -1.0, 1.5, 2.0, 0.1, -2.25, 255.0, 72057594037927936.0, 3.0e10]
RATS = [(1, 3), (2, 3), (-1, 3), (1, 2), (7, 2), (2 ** 70 + 1, 2), (-5, 2 ** 64), (1, 2 ** 70)]


def rt_int_expr(n):
    if n >= 0:
        return "2^80 - (2^80 - %d)" % n
    return "(2^80 - %d) - 2^80" % -n


def gen_int(rng, n):
    return ('ri', n, rt_int_expr(n)) if rng.random() < 0.3 else ('i', n)


def gen_number(rng):
    r = rng.random()
    if r < 0.35:
        return gen_int(rng, rng.choice(SMALL))
    if r < 0.65:
        return gen_int(rng, rng.choice(EDGE))
    if r < 0.85:
        return ('f', rng.choice(FLOATS))
    q = rng.choice(RATS)
    return ('q', q[0], q[1])


def gen_var(rng, nv):
    return ('v', rng.choice(VARS[:max(nv, 1)]))


def gen_listy(rng, depth, nv):
    r = rng.random()
    n = rng.choice([0, 1, 1, 2, 2, 3, 4])
    chars = "".join(rng.choice("abcab c\u00e9\u2192") for _ in range(n))
    tailr = rng.random()
    tail = None
    if tailr < 0.3 and nv > 0:
        tail = gen_var(rng, nv)
    elif tailr < 0.45:
        tail = gen_listy(rng, depth - 1, nv) if depth > 0 else None
    elif tailr < 0.52:
        tail = rng.choice([('i', 1), ('s', 'foo', [('i', 1)]), ('f', 1.5)])
    if r < 0.4 and n > 0:
        return ('str', chars, tail)
    if r < 0.65:
        return ('lst', [('a', c) for c in chars], tail) if n > 0 else (tail or nil())
    elems = [gen_term(rng, depth - 1, nv) for _ in range(n)]
    if tail is None and n > 0 and rng.random() < 0.08:
        tail = ('a', rng.choice(["x", "foo"]))      # improper list with an atom tail
        if is_char(expand(elems[-1])):
            elems[-1] = ('i', 0)
    return ('lst', elems, tail) if n > 0 else (tail or nil())


SHARE_NAMES = ["S1", "S2", "S3"]


def gen_term(rng, depth, nv, numw=0.2, listw=0.2, share=None):
    """share: dict name -> abstract term of sub-terms reached through prelude variables."""
    if share is not None and depth > 0 and rng.random() < 0.18:
        if share and rng.random() < 0.6:
            k = rng.choice(sorted(share))
        else:
            k = SHARE_NAMES[len(share) % 3]
            if k not in share:
                share[k] = None
                share[k] = gen_term(rng, depth - 1, nv, numw, listw) if rng.random() < 0.5 else gen_listy(rng, depth - 1, nv)
        if share[k] is not None:
            return ('sh', k, share[k])
    t = gen_term0(rng, depth, nv, numw, listw, share)
    return t


def gen_term0(rng, depth, nv, numw, listw, share):
    r = rng.random()
    if depth <= 0 or r < 0.25:
        r2 = rng.random()
        if r2 < 0.5 and nv > 0:
            return gen_var(rng, nv)
        if r2 < 0.5 + numw:
            return gen_number(rng)
        return ('a', rng.choice(ATOMS))
    if r < 0.25 + listw:
        return gen_listy(rng, depth, nv)
    f, n = rng.choice(FUNCTORS)
    return ('s', f, [gen_term(rng, depth - 1, nv, numw, listw, share) for _ in range(n)])


def gen_compound(rng, depth, nv):
    for _ in range(20):
        t = gen_term(rng, depth, nv)
        if expand(t)[0] == 's':
            return t
    return ('s', 'f', [gen_var(rng, nv), ('a', 'a')])


def instance_of(rng, t, nv):
    """apply a random substitution (some variables replaced by terms, some aliased)."""
    sub = {}
    for v in VARS:
        r = rng.random()
        if r < 0.35:
            sub[v] = gen_term(rng, 1, nv)
        elif r < 0.5:
            sub[v] = gen_var(rng, nv)

    def go(x):
        k = x[0]
        if k == 'sh':
            return go(x[2])
        if k == 'v':
            return sub.get(x[1], x)
        if k == 's':
            return ('s', x[1], [go(a) for a in x[2]])
        if k == 'str':
            return ('str', x[1], None if x[2] is None else go(x[2]))
        if k == 'lst':
            return ('lst', [go(e) for e in x[1]], None if x[2] is None else go(x[2]))
        return x
    return go(t)


def rename_apart(t, suffix="b"):
    def go(x):
        k = x[0]
        if k == 'sh':
            return go(x[2])
        if k == 'v':
            return ('v', x[1] + suffix)
        if k == 's':
            return ('s', x[1], [go(a) for a in x[2]])
        if k == 'str':
            return ('str', x[1], None if x[2] is None else go(x[2]))
        if k == 'lst':
            return ('lst', [go(e) for e in x[1]], None if x[2] is None else go(x[2]))
        return x
    return go(t)


def name_arity(tree):
    if tree[0] == 's':
        return ('a', tree[1]), len(tree[2])
    return tree, 0


def args_of(t):
    """abstract argument list of an abstract compound (through its plain tree when list-like)."""
    if t[0] == 's':
        return list(t[2])
    return list(expand(t)[2])


def gen_functor(rng):
    nv = rng.choice([1, 2, 3])
    r = rng.random()
    if r < 0.45:
        # inspection: T nonvar
        t = gen_term(rng, rng.choice([0, 1, 2, 3]), nv)
        if expand(t)[0] == 'v':
            t = gen_compound(rng, 2, nv)
        nm, ar = name_arity(expand(t))
        n = rng.choice([('v', 'W0'), ('v', 'W0'), nm, gen_term(rng, 1, nv), gen_var(rng, nv), ('a', rng.choice(ATOMS))])
        a = rng.choice([('v', 'W1'), ('v', 'W1'), gen_int(rng, ar), gen_int(rng, ar), ('v', 'W0'), gen_var(rng, nv),
                        gen_number(rng), ('a', 'a'), ('f', float(ar))])
        return [t, n, a]
    # construction: T unbound
    t = rng.choice([('v', 'W0'), ('v', 'W0'), gen_var(rng, nv)])
    n = rng.choice([('a', rng.choice(ATOMS))] * 6 + [gen_number(rng), gen_number(rng), gen_var(rng, nv), ('v', 'W0'),
                   gen_compound(rng, 1, nv), ('str', "ab", None), ('lst', [('i', 1)], None), ('str', "a", ('v', 'V0'))])
    a = rng.choice([gen_int(rng, k) for k in (0, 0, 1, 1, 2, 3, 5, 17, 254, 255, 256, 257, 1023, 1024, -1, -2,
                                              2 ** 62, 2 ** 64, 2 ** 70, -(2 ** 63), -(2 ** 70))] +
                   [gen_var(rng, nv), ('v', 'W1'), ('f', 1.0), ('f', 2.5), ('q', 3, 2), ('q', -1, 3), ('a', 'a'), ('a', '[]'),
                    gen_compound(rng, 1, nv), ('str', "1", None), t])
    return [t, n, a]


def gen_arg(rng):
    nv = rng.choice([1, 2, 3])
    r = rng.random()
    if r < 0.75:
        t = gen_compound(rng, rng.choice([1, 2, 3]), nv)
    else:
        t = rng.choice([gen_var(rng, nv), ('v', 'W1'), ('a', rng.choice(ATOMS)), gen_number(rng), nil(),
                        ('str', "a", None), ('str', "ab", ('v', 'V0'))])
    tree = expand(t)
    ar = len(tree[2]) if tree[0] == 's' else 0
    n = rng.choice([gen_int(rng, k) for k in (1, 1, 1, 2, 2, 3, ar, ar, ar + 1, 0, -1, -3, 255, 2 ** 31, 2 ** 62, 2 ** 63,
                                              2 ** 64 - 1, 2 ** 64, 2 ** 64 + 1, 2 ** 70, -(2 ** 63), -(2 ** 70))] * 2 +
                   [gen_var(rng, nv), ('v', 'W0'), ('f', 1.0), ('q', 1, 2), ('a', 'a'), ('a', '1'), gen_compound(rng, 1, nv),
                    ('str', "1", None)])
    k = n[1] if n[0] in ('i', 'ri') else None
    choices = [('v', 'W2'), ('v', 'W2'), gen_var(rng, nv), gen_term(rng, 1, nv)]
    if tree[0] == 's' and k is not None and 1 <= k <= ar:
        a = args_of(t)[k - 1] if t[0] == 's' else None
        if a is not None:
            choices += [a, instance_of(rng, a, nv), rename_apart(a)]
    x = rng.choice(choices)
    return [n, t, x]


def gen_univ(rng):
    nv = rng.choice([1, 2, 3])
    r = rng.random()
    if r < 0.4:
        # decomposition / checking: T nonvar
        t = gen_term(rng, rng.choice([0, 1, 2, 3]), nv)
        if expand(t)[0] == 'v':
            t = gen_compound(rng, 2, nv)
        tree = expand(t)
        nm, ar = name_arity(tree)
        r2 = rng.random()
        if r2 < 0.4:
            l = ('v', 'W0')
        elif r2 < 0.6:
            # the exact list, in another spelling / with abstract args
            if t[0] == 's':
                l = ('lst', [('a', t[1])] + list(t[2]), rng.choice([None, None, ('v', 'W1')]))
            else:
                l = ('lst', [t], None) if tree[0] != 's' else ('v', 'W0')
        elif r2 < 0.75 and t[0] == 's':
            el = [('a', t[1])] + [rng.choice([a, ('v', 'W%d' % (j % 3)), instance_of(rng, a, nv)]) for j, a in enumerate(t[2])]
            if rng.random() < 0.2:
                el = el[:-1] if rng.random() < 0.5 else el + [('a', 'z')]
            l = ('lst', el, rng.choice([None, None, None, ('v', 'W1'), ('a', 'x'), ('i', 1)]))
        else:
            l = gen_bad_list(rng, nv)
        return [t, l]
    # construction: T unbound
    t = rng.choice([('v', 'W0'), ('v', 'W0'), gen_var(rng, nv)])
    r2 = rng.random()
    if r2 < 0.5:
        f, n = rng.choice(FUNCTORS + [("foo", 0), ("[]", 0), ("a", 0)])
        l = ('lst', [('a', f)] + [gen_term(rng, rng.choice([0, 1, 2]), nv) for _ in range(n)], None)
        if rng.random() < 0.1:
            l = ('lst', l[1], t)        # T =.. [f, …|T]: partial list -> instantiation_error
    elif r2 < 0.6:
        k = rng.choice([253, 254, 255, 256, 257, 300])
        els = [('a', 'f')] + [rng.choice([('i', j), ('v', 'V0'), ('a', 'a')]) for j in range(k)]
        l = ('lst', els, None)
    elif r2 < 0.7:
        l = ('lst', [gen_number(rng)] + [gen_term(rng, 0, nv) for _ in range(rng.choice([0, 0, 1, 2]))], None)
    else:
        l = gen_bad_list(rng, nv)
    return [t, l]


def gen_bad_list(rng, nv):
    r = rng.random()
    if r < 0.12:
        return nil()
    if r < 0.2:
        return ('a', rng.choice(["foo", "a"]))
    if r < 0.3:
        return gen_number(rng)
    if r < 0.4:
        return gen_var(rng, nv)
    if r < 0.5:
        return ('lst', [gen_var(rng, nv)] + [gen_term(rng, 0, nv) for _ in range(rng.choice([0, 1, 2]))], None)
    if r < 0.6:
        return ('lst', [gen_compound(rng, 1, nv)] + [gen_term(rng, 0, nv) for _ in range(rng.choice([0, 0, 1]))], None)
    if r < 0.7:
        return ('lst', [('a', 'foo'), gen_term(rng, 1, nv)], rng.choice([('a', 'bar'), ('i', 3), ('s', 'g', [('a', 'a')])]))
    if r < 0.8:
        return ('lst', [('a', 'foo')] + [gen_term(rng, 1, nv) for _ in range(rng.choice([0, 1, 2]))], gen_var(rng, nv))
    if r < 0.9:
        return ('str', rng.choice(["a", "ab", "foo"]), rng.choice([None, None, ('v', 'V0')]))
    return gen_compound(rng, 1, nv)


def gen_cell_backref(rng, nv):
    """a list cell whose car / cdr are variable cells that are referenced again from outside the
    list (the copier's back-edge forwarding when such a variable is bound later)."""
    n = rng.choice([1, 1, 2, 3])
    el = [gen_var(rng, nv) if rng.random() < 0.7 else gen_term(rng, 1, nv) for _ in range(n)]
    tl = gen_var(rng, nv)
    lst = ('lst', el, tl)
    refs = [rng.choice([tl, tl] + el) for _ in range(rng.choice([1, 2, 3]))]
    parts = [lst, ('s', 'h', refs)]
    rng.shuffle(parts)
    return ('s', 'f', parts)


def gen_copy(rng):
    nv = rng.choice([1, 2, 3, 4])
    if rng.random() < 0.12:
        return [gen_cell_backref(rng, max(nv, 2)), rng.choice([('v', 'W0'), ('v', 'W0'), gen_term(rng, 2, nv)])]
    t = gen_term(rng, rng.choice([1, 2, 3, 4]), nv, share={} if rng.random() < 0.6 else None)
    r = rng.random()
    if r < 0.5:
        c = ('v', 'W0')
    elif r < 0.6:
        c = gen_var(rng, nv)
    elif r < 0.7:
        c = t
    elif r < 0.85:
        c = rename_apart(instance_of(rng, t, nv)) if rng.random() < 0.5 else instance_of(rng, t, nv)
    else:
        c = gen_term(rng, 2, nv)
    return [t, c]


def gen_tvars(rng):
    nv = rng.choice([0, 1, 2, 3, 4, 5])
    t = gen_term(rng, rng.choice([0, 1, 2, 3, 4]), nv, share={} if rng.random() < 0.4 else None)
    tv = tree_vars(expand(t))
    r = rng.random()
    if r < 0.45:
        vs = ('v', 'W0')
    elif r < 0.55:
        vs = ('lst', [('v', v) for v in tv], None) if tv else nil()
    elif r < 0.65:
        k = len(tv) + rng.choice([0, 0, 0, 1, -1])
        vs = ('lst', [('v', 'W%d' % (j % 3)) if rng.random() < 0.5 else ('v', 'U%d' % j) for j in range(max(k, 0))], None) \
            if k > 0 else nil()
    elif r < 0.75:
        sh = list(tv)
        rng.shuffle(sh)
        vs = ('lst', [('v', v) for v in sh[:max(1, len(sh) - rng.choice([0, 0, 1]))]], rng.choice([None, ('v', 'W1')])) \
            if sh else ('v', 'W1')
    elif r < 0.85:
        vs = gen_bad_list(rng, max(nv, 1))
    else:
        vs = ('lst', [gen_term(rng, 1, max(nv, 1)) for _ in range(rng.choice([1, 2, 3]))],
              rng.choice([None, ('v', 'W1'), ('i', 1), ('s', 'foo', [('i', 1)])]))
    return [t, vs]


def gen_ground(rng):
    nv = rng.choice([0, 0, 0, 1, 2])
    return [gen_term(rng, rng.choice([0, 1, 2, 3, 4]), nv)]


def gen_subsumes(rng):
    nv = rng.choice([1, 2, 3, 4])
    g = gen_term(rng, rng.choice([1, 2, 3]), nv)
    r = rng.random()
    if r < 0.3:
        s = instance_of(rng, g, nv)
    elif r < 0.5:
        s = rename_apart(instance_of(rng, g, nv))
    elif r < 0.6:
        s = g
    elif r < 0.7:
        s = rename_apart(g)
    elif r < 0.85:
        s, g = g, (instance_of(rng, g, nv) if rng.random() < 0.5 else rename_apart(instance_of(rng, g, nv)))
    else:
        s = gen_term(rng, 2, nv)
    return [g, s]


GEN = {"functor": gen_functor, "arg": gen_arg, "univ": gen_univ, "copy": gen_copy, "tvars": gen_tvars,
       "ground": gen_ground, "subsumes": gen_subsumes}
GOAL = {"functor": "functor(%s,%s,%s)", "arg": "arg(%s,%s,%s)", "univ": "(%s) =.. (%s)", "copy": "copy_term(%s,%s)",
        "tvars": "term_variables(%s,%s)", "ground": "ground(%s)", "subsumes": "subsumes_term(%s,%s)"}


def directed():
    V = lambda n: ('v', n)
    s = lambda f, *a: ('s', f, list(a))
    a, b = ('a', 'a'), ('a', 'b')
    X, Y, Z, W = V("V0"), V("V1"), V("V2"), V("W0")
    big = ('ri', 2 ** 70, "2^70")
    L = [
        ("functor", [W, ('a', 'foo'), ('i', 3)]), ("functor", [W, ('a', 'foo'), ('i', 0)]),
        ("functor", [W, ('a', 'foo'), ('i', 255)]), ("functor", [W, ('a', 'foo'), ('i', 256)]),
        ("functor", [W, ('a', 'foo'), ('i', -1)]), ("functor", [W, ('a', 'foo'), big]),
        ("functor", [W, s('foo', a), ('i', 0)]), ("functor", [W, s('foo', a), ('i', 1)]),
        ("functor", [W, ('f', 1.5), ('i', 1)]), ("functor", [W, ('f', 1.5), ('i', 0)]),
        ("functor", [W, big, ('i', 0)]), ("functor", [W, big, ('i', 2)]),
        ("functor", [W, ('q', 1, 3), ('i', 0)]), ("functor", [W, ('str', "ab", None), ('i', 1)]),
        ("functor", [W, X, ('i', 1)]), ("functor", [W, ('a', 'foo'), X]), ("functor", [W, X, Y]),
        ("functor", [W, ('a', 'foo'), ('f', 1.0)]), ("functor", [W, ('a', 'foo'), ('q', 3, 2)]),
        ("functor", [W, ('a', 'foo'), a]), ("functor", [W, ('a', '.'), ('i', 2)]), ("functor", [W, nil(), ('i', 2)]),
        ("functor", [W, s('foo', a), ('i', -1)]), ("functor", [W, s('foo', a), ('i', 256)]),
        ("functor", [W, W, ('i', 0)]), ("functor", [W, ('a', 'foo'), W]),
        ("functor", [s('f', X, Y), X, Y]), ("functor", [s('f', X, Y), X, X]), ("functor", [s('f', a), X, X]),
        ("functor", [('str', "abc", None), X, Y]), ("functor", [('str', "abc", X), Y, Z]),
        ("functor", [('i', 3), X, Y]), ("functor", [big, X, Y]), ("functor", [('f', 1.5), X, Y]),
        ("functor", [('q', 1, 3), X, Y]), ("functor", [a, X, Y]), ("functor", [nil(), X, Y]),
        ("functor", [s('f', a), ('a', 'f'), ('f', 1.0)]), ("functor", [s('f', a), s('f', a), ('i', 1)]),
        ("functor", [a, a, big]), ("functor", [s('f', a), ('a', 'f'), ('ri', 1, rt_int_expr(1))]),
        ("arg", [('i', 1), s('f', a, b), W]), ("arg", [('i', 2), s('f', a, b), W]), ("arg", [('i', 3), s('f', a, b), W]),
        ("arg", [('i', 0), s('f', a, b), W]), ("arg", [('i', -1), s('f', a, b), W]), ("arg", [X, s('f', a, b), W]),
        ("arg", [('i', 1), X, W]), ("arg", [('i', 1), a, W]), ("arg", [('i', 1), ('i', 3), W]), ("arg", [a, X, W]),
        ("arg", [('f', 1.0), s('f', a), W]), ("arg", [big, s('f', a), W]), ("arg", [big, X, W]), ("arg", [big, a, W]),
        ("arg", [('i', 2 ** 64), X, W]), ("arg", [('i', 2 ** 64 - 1), X, W]), ("arg", [('i', 2 ** 64), a, W]),
        ("arg", [('i', -1), ('i', -1), W]), ("arg", [('i', 0), a, W]), ("arg", [('i', 0), X, W]),
        ("arg", [('i', 1), ('str', "ab", None), W]), ("arg", [('i', 2), ('str', "ab", None), W]),
        ("arg", [('i', 2), ('str', "a", None), W]), ("arg", [('i', 2), ('str', "ab", X), W]),
        ("arg", [('i', 2), ('str', "a", X), W]), ("arg", [('i', 3), ('str', "abc", None), W]),
        ("arg", [('i', 2), ('str', "\u00e9b", None), W]), ("arg", [('i', 2), ('str', "\u2192\u00e9c", X), W]),
        ("arg", [('i', 1), ('str', "\u2192b", None), W]), ("copy", [s('f', ('str', "\u00e9\u2192", X), X), W]),
        ("copy", [s('f', ('sh', 'S1', ('lst', [a, X], Y)), ('sh', 'S1', ('lst', [a, X], Y)), Y), W]),
        ("copy", [s('f', ('lst', [a], X), X), W], [("V0", ('lst', [b, ('a', 'c')], None))]),
        ("copy", [s('f', X, ('lst', [a], X)), W], [("V0", ('lst', [b, ('a', 'c')], None))]),
        ("copy", [s('f', ('lst', [X], Y), X, Y), W], [("V0", s('g', Z)), ("V1", ('lst', [b], None))]),
        ("copy", [s('f', ('str', "ab", X), X), W], [("V0", ('str', "cd", None))]),
        ("copy", [s('f', s('g', X, Y), Y, X), W], [("V0", ('lst', [b], Z)), ("V1", s('h', Z, Z))]),
        ("copy", [s('f', ('lst', [X], Y), s('h', Y, X)), W], [("V0", s('f', ('i', 1))), ("V1", s('g', ('i', 2)))]),
        ("copy", [s('f', ('lst', [X], Y), s('h', Y)), W], [("V1", s('g', ('i', 2)))]),
        ("copy", [s('f', ('lst', [X], Y), s('h', X)), W], [("V0", s('g', ('i', 2)))]),
        ("copy", [s('f', s('h', Y), ('lst', [X], Y)), W], [("V1", s('g', Z))]),
        ("copy", [s('f', ('lst', [X, Z], Y), s('h', Y, Z, X)), W], [("V1", ('lst', [b], None)), ("V2", a)]),
        ("tvars", [s('f', ('lst', [X], Y), s('h', Y, X)), W], [("V1", s('g', Z))]),
        ("tvars", [s('f', ('lst', [a], X), X, Y), W], [("V0", ('lst', [Z, Y], None))]),
        ("arg", [('i', 2), ('lst', [a], X), W], [("V0", ('lst', [b], None))]),
        ("arg", [('i', 1), ('str', "abc", None), X], [("V0", ('lst', [b], None))]),
        ("arg", [('i', 1), ('str', "abc", None), X], [("V0", a)]),
        ("arg", [('i', 1), ('str', "abc", None), X], [("V0", b)]),
        ("arg", [('i', 1), ('str', "abc", Y), X], [("V0", s('g', Z))]),
        ("arg", [('i', 1), ('str', "abc", None), ('str', "abc", None)]),
        ("arg", [('i', 2), ('str', "abc", None), X], [("V0", ('str', "bc", None))]),
        ("univ", [('lst', [a], X), W], [("V0", ('lst', [b], None))]),
        ("copy", [s('f', ('sh', 'S1', ('str', "ab", X)), ('sh', 'S1', ('str', "ab", X)), X), W]),
        ("copy", [s('f', ('sh', 'S1', s('g', X, Y)), ('sh', 'S1', s('g', X, Y)), ('lst', [('sh', 'S1', s('g', X, Y))], X)), W]),
        ("arg", [('i', 1), s('f', s('g', X)), X]), ("arg", [('i', 1), s('f', X), X]), ("arg", [('i', 1), s('f', X, Y), Y]),
        ("arg", [('i', 1), s('f', s('g', X, Y)), s('g', Y, a)]), ("arg", [('ri', 1, rt_int_expr(1)), s('f', a), W]),
        ("univ", [s('f', a, X), W]), ("univ", [W, ('lst', [('a', 'f'), a, X], None)]), ("univ", [a, W]), ("univ", [('i', 1), W]),
        ("univ", [W, ('lst', [a], None)]), ("univ", [W, ('lst', [('f', 1.5)], None)]), ("univ", [W, ('lst', [('i', 1), a], None)]),
        ("univ", [s('f', a), ('lst', [('i', 1), a], None)]), ("univ", [W, ('lst', [('a', 'foo')], X)]),
        ("univ", [W, ('lst', [('a', 'foo')], ('a', 'bar'))]), ("univ", [W, nil()]), ("univ", [a, nil()]),
        ("univ", [W, ('lst', [s('foo', a)], None)]), ("univ", [a, ('lst', [s('foo', a)], None)]),
        ("univ", [W, ('lst', [X, a], None)]), ("univ", [W, X]), ("univ", [a, ('a', 'b')]), ("univ", [s('f', X), X]),
        ("univ", [s('f', X), ('lst', [('a', 'f'), s('g', X)], None)]), ("univ", [W, ('lst', [('a', 'f'), W], None)]),
        ("univ", [('str', "ab", None), W]), ("univ", [('str', "ab", X), ('lst', [Y, Z], X)]), ("univ", [W, ('str', "ab", None)]),
        ("univ", [W, ('lst', [('a', '.'), a, nil()], None)]), ("univ", [W, ('lst', [nil()], None)]),
        ("univ", [W, ('lst', [('a', 'f')] + [('i', j) for j in range(255)], None)]),
        ("univ", [W, ('lst', [('a', 'f')] + [('i', j) for j in range(256)], None)]),
        ("univ", [X, ('lst', [('a', 'f'), X, Y], None)]), ("univ", [s('f', a, b), ('lst', [X], Y)]),
        ("copy", [s('f', X, Y, X), W]), ("copy", [s('f', X, Y), s('g', Z)]), ("copy", [s('f', X, Y), s('f', Z, Z)]),
        ("copy", [s('f', X, Y, X), s('f', V("W0"), V("W1"), V("W2"))]), ("copy", [s('-', X, Y), s('-', Y, X)]),
        ("copy", [X, X]), ("copy", [X, W]), ("copy", [s('f', ('str', "abc", X), X), W]), ("copy", [('str', "abc", None), W]),
        ("copy", [s('f', big, ('q', 1, 3), ('f', 0.1)), W]), ("copy", [s('f', X), X]), ("copy", [a, b]),
        ("tvars", [s('f', X, s('g', Y, Z), X), W]), ("tvars", [a, W]), ("tvars", [X, W]), ("tvars", [s('f', X, Y), ('lst', [Y], W)]),
        ("tvars", [s('f', X, Y), ('lst', [V("W0"), V("W1"), V("W2")], None)]), ("tvars", [s('f', X, Y), ('a', 'foo')]),
        ("tvars", [s('f', X, Y), ('lst', [W], s('foo', ('i', 1)))]), ("tvars", [s('f', Z, ('lst', [Y, X], Z)), W]),
        ("tvars", [s('f', X), ('lst', [s('g', X)], None)]), ("tvars", [s('f', X, Y), ('lst', [Y, X], None)]),
        ("tvars", [s('f', X, Y), ('lst', [X, X], None)]), ("tvars", [('str', "ab", X), W]), ("tvars", [X, nil()]),
        ("tvars", [a, ('i', 1)]), ("tvars", [s('f', X, Y), ('str', "ab", None)]),
        ("ground", [X]), ("ground", [a]), ("ground", [s('f', a, ('str', "abc", None), ('f', 1.5))]),
        ("ground", [s('f', a, ('str', "abc", X))]), ("ground", [big]), ("ground", [s('f', s('g', s('h', a, X)))]),
        ("subsumes", [s('f', X), s('f', s('g', X))]), ("subsumes", [s('f', X, Y), s('f', Z, Z)]),
        ("subsumes", [s('f', Z, Z), s('f', X, Y)]), ("subsumes", [s('f', X, X), s('f', ('i', 2), ('i', 2))]),
        ("subsumes", [s('f', X, ('i', 2)), s('f', ('i', 2), X)]), ("subsumes", [X, X]), ("subsumes", [X, Y]),
        ("subsumes", [a, X]), ("subsumes", [X, a]), ("subsumes", [s('f', X, Y), s('f', Y, X)]),
        ("subsumes", [s('f', X, Y), s('f', Y, a)]), ("subsumes", [s('f', X), s('f', X)]), ("subsumes", [X, s('f', X)]),
        ("subsumes", [('str', "ab", X), ('str', "abc", None)]), ("subsumes", [s('g', X, s('f', X)), s('g', Y, Z)]),
        ("subsumes", [s('g', X, Y), s('g', s('f', Y), Z)]), ("subsumes", [s('g', X, Y), s('g', s('f', Z), Z)]),
    ]
    return L


def sanitize(t):
    """no cons cell with a one-char head and a non-[] atom tail (printing it back panics in the
    answer printer, notes/findings-misc.md): such a tail becomes the integer 1."""
    k = t[0]
    if k == 'sh':
        return ('sh', t[1], sanitize(t[2]))
    if k == 's':
        a = [sanitize(x) for x in t[2]]
        if t[1] == '.' and len(a) == 2 and is_char(expand(a[0])) and a[1][0] == 'a' and a[1][1] != '[]':
            a[1] = ('i', 1)
        return ('s', t[1], a)
    if k == 'str':
        tl = None if t[2] is None else sanitize(t[2])
        if tl is not None and tl[0] == 'a':
            tl = None if tl[1] == '[]' else ('i', 1)
        return ('str', t[1], tl) if t[1] else (tl if tl is not None else nil())
    if k == 'lst':
        el = [sanitize(e) for e in t[1]]
        tl = None if t[2] is None else sanitize(t[2])
        if tl is not None and tl[0] == 'a':
            if tl[1] == '[]':
                tl = None
            elif el and is_char(expand(el[-1])):
                tl = ('i', 1)
        return ('lst', el, tl) if el else (tl if tl is not None else nil())
    return t


LATE_VALUES = [('lst', [('a', 'b'), ('a', 'c')], None), ('str', "bc", None), ('lst', [('i', 1)], ('v', 'U0')),
               ('s', 'g', [('v', 'U0'), ('a', 'a')]), ('a', 'z'), ('i', 7), ('v', 'U1'), ('str', "b", ('v', 'U0')),
               ('lst', [('v', 'U0'), ('v', 'U0')], None), nil()]


def gen_late(rng, args):
    """late bindings: some variables of the argument terms are bound AFTER the terms have been built
    (so the argument holds a reference to a variable cell that lives inside a structure or list and
    is bound by the time the builtin runs)."""
    vs = []
    for a in args:
        tree_vars(expand(a), vs)
    vs = [v for v in vs if v.startswith("V")]
    rng.shuffle(vs)
    return [(v, rng.choice(LATE_VALUES)) for v in vs[:rng.choice([1, 1, 2, 3])]]


def make_case(cid, op, args, late=()):
    args = [sanitize(a) for a in args]
    late = [(v, sanitize(t)) for v, t in late]
    sub = {v: expand(t) for v, t in late}
    trees = [tree_subst(expand(a), sub) for a in args]
    if late and any(unprintable(t) for t in trees):
        # the bound argument would be printed with the answer: keep the case without late bindings
        return make_case(cid, op, args)
    vs = []
    for t in trees:
        tree_vars(t, vs)
    vs = sorted(vs)
    rd = Render()
    texts = [rd.pl(a) for a in args]
    pre = []
    if late:
        # build the arguments first, then bind
        names = ["A%d" % (j + 1) for j in range(len(texts))]
        # parenthesised: an operator atom such as '-' is not a valid operand of =/2 when bare
        pre = ["%s = (%s)" % (n, t) for n, t in zip(names, texts)] + ["%s = (%s)" % (v, rd.pl(t)) for v, t in late]
        texts = names
    goal = GOAL[op] % tuple(texts)
    rterm = "r(S%s)" % "".join("," + v for v in vs)
    # the report term is printed from a copy: the answer printer shows a bound variable that is
    # reached a second time inside a list cell as unbound (notes/findings-misc.md, not C23)
    q = ", ".join(rd.prelude + pre + ["catch((%s, S = ok), error(E,_), S = err(E))" % goal, "R0 = %s" % rterm,
                                     "copy_term(R0, R)"]) + "."
    rcanon = "'r'(%s)" % ",".join(vs) if vs else "'r'"
    return {
        "id": cid, "op": op, "prolog": q, "args": [canon(t) for t in trees], "size": sum(tree_size(t) for t in trees),
        "nvars": len(vs), "vars": vs,
        "impl": ["Q\t%s_use\t1\tuse_module(library(iso_ext))." % cid, "Q\t%s\t3\t%s" % (cid, q)],
        "model": ["%s\t%s\t%s\t%s" % (op, cid, "\t".join(canon(t) for t in trees), rcanon)],
    }


RX_PRINT_PANIC = re.compile(r"panic\((assertion .left == right. failed|attempt to subtract with overflow)")


def classify_arg_bign(c):
    """finding C23-1: arg/3 with N >= 2^64 fails before Term is inspected."""
    if c["op"] != "arg":
        return False
    n, t = c["args"][0], c["args"][1]
    compound = t != "[]" and (t.startswith('"') or t.startswith("[") or (t.startswith("'") and t.endswith(")")))
    return re.fullmatch(r"\d+", n) is not None and int(n) >= 2 ** 64 and not compound


def classify_arg_pstr_bound(c):
    """finding C23-2: arg(1, T, X) with T a (partial) string and X bound (reached through a variable
    reference): unify_char is handed the undereferenced register and binds a bound variable."""
    if c["op"] != "arg" or c["args"][0] != "1":
        return False
    t = parse_canon(c["args"][1])
    x = parse_canon(c["args"][2])
    return t[0] == 's' and t[1] == '.' and len(t[2]) == 2 and is_char(t[2][0]) and x[0] != 'v'


def judge(c, impl, model):
    """-> (status, problems); status in agree / skipped-cyclic / skipped-unprintable / problem"""
    mv = model.get(c["id"])
    iv = impl.get(c["id"])
    if mv is None or mv.startswith("parse-error") or mv.startswith("bad-"):
        raise RuntimeError("model driver cannot handle case %s: %r" % (c["id"], mv))
    if mv.startswith("mirror-mismatch"):
        return "problem", [("disagreement", {"op": c["op"], "problem": "univ-mirror-mismatch"},
                            "closed form of =.. construction differs from the functor/arg composition: %s" % mv)]
    if mv == "cyclic":
        return "skipped-cyclic", []
    mterm = None
    if mv.startswith("ok ") or mv.startswith("err "):
        mterm = parse_canon(mv.split(" ", 1)[1])
        if unprintable(mterm):
            return "skipped-unprintable", []
        if mv.startswith("ok "):
            # the argument terms under the answer substitution (the prelude's variables are printed too)
            sub = dict(zip(c["vars"], mterm[2][1:]))
            if any(unprintable(tree_subst(parse_canon(a), sub)) for a in c["args"]):
                return "skipped-unprintable", []
    if iv is None:
        return "problem", [("disagreement", {"op": c["op"], "problem": "no-answer"}, "no answer from the implementation")]
    if iv.startswith("panic(internal error: entered unreachable code") and classify_arg_pstr_bound(c):
        return "problem", [("violation", {"op": "arg", "defect": "pstr-first-char-against-bound-variable-panics"},
                            "%s -> %s (model: %s)" % (c["prolog"], iv[:200], mv[:200]))]
    if iv.startswith("panic") or iv.startswith("timeout"):
        return "problem", [("violation", {"op": c["op"], "problem": iv.split("(")[0], "args": " ".join(c["args"])[:160]},
                            "%s -> %s (model: %s)" % (c["prolog"], iv[:200], mv[:200]))]
    answers = iv.split(" ;; ")
    if len(answers) > 1 and answers[-1] == "false":
        answers = answers[:-1]
    desc = None
    if len(answers) != 1:
        desc = "not exactly one answer"
    elif answers[0] == "false":
        if mv != "fail":
            desc = "implementation fails"
    elif answers[0].startswith("{"):
        try:
            b = parse_bindings(answers[0])
        except Exception as e:       # noqa
            return "problem", [("disagreement", {"op": c["op"], "problem": "unparsable-answer"},
                                "cannot parse %r (%s)" % (answers[0][:200], e))]
        r = b.get("R")
        if r is None:
            desc = "no binding for R"
        elif mterm is None:
            desc = "implementation answers, model fails"
        elif mv.startswith("err "):
            # the ball is a copy of the formal: its variables are not the query's variables
            if r[0] != 's' or rename_first(r[2][0]) != rename_first(mterm[2][0]):
                desc = "error terms differ"
            elif rename_first(('s', 'r', r[2][1:])) != rename_first(('s', 'r', mterm[2][1:])):
                desc = "bindings left after an error"
        elif rename_first(r) != rename_first(mterm):
            desc = "answers differ"
    else:
        desc = "unexpected answer"
    if desc is None:
        return "agree", []
    if classify_arg_bign(c) and answers == ["false"] and mv.startswith("err "):
        sig = {"op": "arg", "defect": "N-beyond-usize-fails-before-Term-is-checked"}
    else:
        sig = {"op": c["op"], "problem": desc, "args": " ".join(c["args"])[:200]}
    return "problem", [("violation", sig, "%s: %s\n  impl : %s\n  model: %s" % (desc, c["prolog"], iv[:300], mv[:300]))]


def run(ctx):
    rng, tier = ctx["rng"], ctx["tier"]
    rep = diff.replay_case(ctx)
    if rep is not None:
        cases = rep
    else:
        cases = diff.load_corpus("C23")
        n = 1800 if tier == "quick" else 16000
        specs = list(directed())
        weights = {"functor": 3, "arg": 3, "univ": 4, "copy": 4, "tvars": 3, "ground": 1, "subsumes": 3}
        bag = [op for op, w in weights.items() for _ in range(w)]
        for _ in range(n):
            op = rng.choice(bag)
            a = GEN[op](rng)
            specs.append((op, a, gen_late(rng, a)) if rng.random() < (0.4 if op in ("copy", "tvars", "ground") else 0.15)
                         else (op, a))
        for i, sp in enumerate(specs):
            cases.append(make_case("c%d" % i, *sp))
    impl, model = diff.run_cases(cases)
    retried = 0
    for c in cases:
        r = impl.get(c["id"])
        if r is None or r.startswith("timeout") or r.startswith("abort") or r.startswith("skipped") or \
                (r.startswith("panic") and "load_top_level" in r):
            retried += 1
            impl.update(core.run_impl(c["impl"], env={"SV_TIMEOUT_MS": "120000"}))
    findings = []
    agree = 0
    status_count = {}
    per_op = {}
    outcome = {}
    distinct = set()
    sizes = {}
    err_kinds = {}
    seen_sigs = {}
    for c in cases:
        st, probs = judge(c, impl, model)
        status_count[st] = status_count.get(st, 0) + 1
        per_op[c["op"]] = per_op.get(c["op"], 0) + 1
        mv = model.get(c["id"], "")
        mo = mv.split(" ", 1)[0]
        outcome["%s/%s" % (c["op"], mo)] = outcome.get("%s/%s" % (c["op"], mo), 0) + 1
        if mo == "err":
            m = re.match(r"err 'r'\('err'\('?([a-z_]+)'?(\('([a-z_]+)')?", mv)
            if m:
                k = "%s:%s%s" % (c["op"], m.group(1), "(" + m.group(3) + ")" if m.group(3) else "")
                err_kinds[k] = err_kinds.get(k, 0) + 1
        if st == "agree":
            agree += 1
            if c["size"] >= 4 or mo == "err":
                distinct.add((c["op"],) + tuple(c["args"]))
        b = str(min(c["size"] // 10 * 10, 60))
        sizes[b] = sizes.get(b, 0) + 1
        if rep is not None:
            print("replay %s" % c.get("prolog"))
            print("  model: %s" % mv)
            print("  impl : %s" % impl.get(c["id"]))
            for kind, sig, detail in probs:
                print("  PROBLEM %s" % detail)
        for kind, sig, detail in probs:
            key = tuple(sorted(sig.items()))
            seen_sigs[key] = seen_sigs.get(key, 0) + 1
            if seen_sigs[key] > 3 and "defect" in sig:
                continue
            findings.append(core.Finding(kind, sig, detail, {k: c.get(k) for k in (
                "id", "op", "prolog", "args", "size", "nvars", "vars", "impl", "model")}))
    compared = sum(v for k, v in status_count.items() if not k.startswith("skipped"))
    return {
        "evaluations": len(cases),
        "distinct_nontrivial": len(distinct),
        "rule": "one call of functor/3, arg/3, =../2, copy_term/2, term_variables/2, ground/1 or subsumes_term/2 per case; argument terms over <=6 shared variables plus fresh output variables, atoms (incl. '[]', '.', '{}'), small/boundary/big integers (literal and run-time computed), floats, rationals, strings / partial strings / char lists / partial and improper lists, compounds (incl. './2', './3', '[]'/1); modes: every argument unbound / fresh / aliased / exact / instance / variant / malformed (wrong type, partial and improper lists, arity and index boundaries 0, 255, 256, 2^63, 2^64, bignums, floats, rationals); non-trivial = agreed case with total argument size >= 4 nodes or an error outcome; distinct by (builtin, argument terms)",
        "samples": [c["prolog"] for c in cases[:2]] + [c["prolog"] for c in cases[-4:]],
        "traces_validated_against_impl": agree,
        "disagreements_checked": compared - agree,
        "status": status_count,
        "per_builtin": per_op,
        "model_outcomes": outcome,
        "error_kinds_hit": err_kinds,
        "size_histogram": sizes,
        "retried_after_timeout": retried,
        "exhaustive": False,
        "findings": findings,
    }
