"""C17 — Malformed input never crashes or desynchronises the reader.

One case = one text (a list of code points) written to a file and read with read_term/3 from a file
stream until end_of_file (capped).  Texts:

* `mut`:   0-2 valid clauses, one MUTATED clause, 1-3 valid clauses.  Valid clauses come from a grammar
           (atoms of every token class, quoted items with every escape form, numbers of every
           spelling, strings, lists, curly terms, compounds, operators, comments and layout between
           tokens).  Mutations: targeted snippets (unbalanced brackets and quotes, stray operators,
           `)(`, `a b`, `f(,)`, unterminated comments / quoted atoms / back quotes, illegal escapes,
           `0'` forms, NUL / control / odd Unicode characters, digit separators, `1.e5`, `..`, `. .`)
           spliced in at a token boundary, or character edits (delete / insert / replace / duplicate / swap).
* `tail`:  the mutated clause is the last thing in the file (errors at end of input, `0'` at EOF).
* `qerr`:  a quoted atom / string / back-quoted string with an illegal escape or character AND text that
           looks like an end token, doubled quotes, escaped quotes inside it, then valid clauses.
* `soup`:  random token soup, then valid clauses.
* `valid`: only valid clauses, with layout / comments after the last one.
* `stress`: very long tokens and deep nesting (10^4..10^5); judged by outcome class only.

Judge (the model `drv_C17 reads` gives, per read, the outcome class and the number of characters
consumed, i.e. the split of the text into clauses):
  1. no panic / abort / timeout / non-syntax error, ever;
  2. the number of reads before end_of_file and each read's class equal the model's
     (lexical error of the same kind / complete clause, for which the parser decides term or error);
  3. every read of the whole text gives exactly what reading that clause's own slice of the text
     ALONE (its own file) gives, followed by end_of_file: after an error the following clauses are
     read back exactly, nothing is lost, nothing is read twice.
Failing inputs are shrunk (delta debugging on characters) before they are reported.
"""
import os
import re
import shutil
import time

from .. import core, diff

LEVEL = "proof"
TRUSTED_BASE = [
    "extract/charclass.py (C55): the character classes of src/parser/macros.rs as Lean defs; Rust's Unicode predicates are parameters (UC), their values for the non-ASCII characters used come from the implementation's char_type/2",
    "read_term/3 on a file stream stands for every text stream (all go through MachineState::read -> read_tokens -> Lexer::next_token)",
    "vlib/props/C17.py writes each text as UTF-8 to build/c17tmp and passes the same code points to the model driver",
    "the parser proper (shift/reduce after all tokens of a clause have been read) is not modelled: for a lexically complete clause the judge accepts a term or a syntax error and only demands that the whole-text read equals the clause-alone read",
]
ASSUMPTIONS = [
    "texts are valid UTF-8 (byte-level decoding errors are C18)",
    "the standard operator table; no clause is the atom end_of_file",
    "the model describes the REPAIRED reader (findings C17-1, C17-2, C17-3); on the pinned tree the check reports them",
]

PRELUDE = "use_module(library(between)),use_module(library(charsio)),use_module(library(lists)),use_module(library(terms))"
NONASCII = [0xE9, 0xC9, 0x3BB, 0x39B, 0xA0, 0x85, 0x2028, 0x3000, 0x1F600, 0x663, 0x1C5, 0xBD, 0xAA, 0x301, 0x4E2D, 0x20AC, 0xFFFE, 0x200B]


# ---------------------------------------------------------------- Unicode parameters (as C55)

def uc_table(cps):
    cps = sorted(c for c in cps if c >= 128)
    q = ("%s,findall(ZC-ZTs,(member(ZC,[%s]),char_code(ZCh,ZC),findall(ZT,(member(ZT,[alphabetic,numeric,upper,whitespace,control]),"
         "char_type(ZCh,ZT)),ZTs)),A1)." % (PRELUDE, ",".join(str(c) for c in cps)))
    impl, _ = diff.run_cases([{"id": "uc", "impl": ["Q\tuc\t1\t" + q]}])
    bits = {"alphabetic": 1, "numeric": 2, "upper": 4, "whitespace": 8, "control": 16}
    tbl = {}
    for m in re.finditer(r"'-'\((\d+),(\[[^\]]*\]|\"[^\"]*\")\)", impl.get("uc", "")):
        v = 0
        for name, b in bits.items():
            if "'" + name + "'" in m.group(2):
                v |= b
        tbl[int(m.group(1))] = v
    return tbl, [c for c in cps if c not in tbl]


def uc_arg(tbl, text):
    e = sorted(set(ord(c) for c in text if ord(c) >= 128))
    return ",".join("%d:%d" % (c, tbl.get(c, 0)) for c in e) if e else "-"


def enc(text):
    return ",".join(str(ord(c)) for c in text) if text else "-"


# ---------------------------------------------------------------- valid clauses

ATOMS = ["a", "b", "foo", "bar_1", "aB", "x", "e", "[]", "{}", "!", ";", "'hello world'", "'it''s'", "'\\n'", "'a\\\\b'",
         "'\\x41\\'", "'\\101\\'", "'a\\\nb'", "'\"'", "'`'", "'\\''", "'\\\"'", "'\\`'", "''", "'A'", "'_'", "'a.b'", "'. '", "'%'", "'/*'",
         "\u00e9", "\u03bbx", "'\u00c9a'", "a\u4e2d", "'\u20ac'", "'\U0001f600'", "=..", "+", "-", "*", "\\+", "\\", "^", "@", "#", "&", "?", "$",
         "<", ">=", "=<", "...", "-->", ".:.", "dynamic", "is", "mod"]
VARS = ["X", "Y", "_", "_G1", "Foo", "_a", "X1", "\u00c9a", "\u039bb"]
INTS = ["0", "7", "42", "007", "123456789012345678901234567890", "9223372036854775807", "9223372036854775808", "0x1F", "0xff", "0o17",
        "0b101", "0'a", "0'Z", "0' ", "0'\\n", "0'\\\\", "0'\\'", "0'''", "0'\"", "0'\\x41\\", "0'\\101\\", "0'.", "0'%", "0'(", "1_000", "1_0_0",
        "12_ 34", "1_\n2", "1_/*c*/2", "1_%c\n2", "0'\u00e9", "0'\u4e2d"]
FLOATS = ["1.5", "0.0", "1.0e10", "2.5E-3", "1.0e+5", "123.456", "1.0e0", "3.14159", "1.0E10", "0.5e-10", "1_0.5"]
STRINGS = ['"abc"', '""', '"a\\nb"', '"it\'s"', '"say ""hi"""', '"\\x41\\"', '"a\\\nb"', '"a.b. c"', '"%"', '"/*"', '"\u00e9\u4e2d"', '"`"', '"\\""']
INFIX = ["=", "\\=", "==", "=..", "is", "<", ">", "=<", ">=", "+", "-", "*", "/", "**", "^", "mod", "rem", "//", ">>", "<<", ":", "@<", "=:=", "\\=="]
PREFIX = ["-", "\\+", "\\", "+"]
SEPS = [" ", " ", " ", " ", "\n", "\t", "  ", " % c\n", " /* c */ ", "\n% c. d\n", " /* . */ ", "\r\n", "\x0b", "\x0c"]
ENDS = ["\n", "\n", "\n", " ", "\t", "\n\n", " % c\n", "%c\n", "\r\n", " /* c */\n", "\n\n\n"]
OPEN_AFTER = set(["(", "[", "{", ",", "|"])


def primary(rng, d):
    """a list of token strings; `f(` is one unit"""
    r = rng.random()
    if d <= 0 or r < 0.30:
        k = rng.random()
        if k < 0.40:
            return [rng.choice(ATOMS)]
        if k < 0.55:
            return [rng.choice(VARS)]
        if k < 0.75:
            return [rng.choice(INTS)]
        if k < 0.87:
            return [rng.choice(FLOATS)]
        return [rng.choice(STRINGS)]
    if r < 0.50:
        f = rng.choice(["f", "g", "foo", "'hello world'", "+", "-", "=..", "'\\n'", "[]", "{}", "\u00e9", ";", "!"])
        out = [f + "("]
        for i in range(rng.randint(1, 3)):
            if i:
                out.append(",")
            out += term999(rng, d - 1)
        return out + [")"]
    if r < 0.65:
        out = ["["]
        n = rng.randint(0, 3)
        for i in range(n):
            if i:
                out.append(",")
            out += term999(rng, d - 1)
        if n and rng.random() < 0.3:
            out += ["|"] + primary(rng, d - 1)
        return out + ["]"]
    if r < 0.72:
        return ["{"] + term999(rng, d - 1) + ["}"]
    if r < 0.85:
        return ["("] + term999(rng, d - 1) + [")"]
    return ["("] + body(rng, d - 1) + [")"]


def operand(rng, d):
    t = primary(rng, d)
    # an operator atom as an operand is bracketed
    if len(t) == 1 and (t[0] in INFIX or t[0] in PREFIX or t[0] in ("dynamic", "-->", "is", "mod", "\\", "+", "-", "*", "^", "@", "#", "&", "?", "$", "<", ">=", "=<", "...", ".:.", "=..", ";", "!")):
        return ["("] + t + [")"]
    return t


def term999(rng, d):
    r = rng.random()
    if r < 0.55:
        return operand(rng, d)
    if r < 0.9:
        return operand(rng, d) + [rng.choice(INFIX)] + operand(rng, d)
    t = operand(rng, d)
    op = rng.choice(PREFIX)
    if t[0][0].isdigit():          # `- 1` is the number -1: still valid
        return [op] + t
    return [op] + t


def body(rng, d):
    out = term999(rng, d)
    for _ in range(rng.choice([0, 0, 1, 2])):
        out += [rng.choice([",", ",", ";", "->"])] + term999(rng, d)
    return out


def clause_tokens(rng):
    d = rng.choice([0, 1, 1, 2, 2, 3])
    r = rng.random()
    if r < 0.6:
        return term999(rng, d)
    if r < 0.9:
        return operand(rng, d) + [":-"] + body(rng, d)
    return [":-"] + body(rng, d)


def symch(c):
    return c in "#$&*+-./:<=>?@^~\\"


def alnum(c):
    return c.isalnum() or c == "_" or ord(c) >= 128


def join(rng, toks, plain=False):
    out = ""
    prev = None
    for t in toks:
        if prev is None:
            sep = ""
        else:
            need = True
            if prev in OPEN_AFTER or prev.endswith("("):
                need = False
            if t in (")", "]", "}", ",", "|"):
                need = False
            if t == "(" and prev not in OPEN_AFTER:
                need = True
            if prev == "," and rng.random() < 0.5:
                need = True
            if need:
                sep = " " if plain else rng.choice(SEPS)
            else:
                sep = "" if (plain or rng.random() < 0.7) else rng.choice(SEPS)
        out += sep + t
        prev = t
    return out


def valid_clause(rng, plain=False):
    toks = clause_tokens(rng)
    s = join(rng, toks, plain)
    if s == "end_of_file":
        s = "eof"
    last = s[-1]
    gap = "" if (alnum(last) and not last.isdigit()) or last in ")]}'\"" else " "
    if last.isdigit() and rng.random() < 0.5:
        gap = ""                    # `1.` + layout: integer then end
    if rng.random() < 0.15:
        gap = rng.choice([" ", "\n", " % c\n"])
    return s + gap + ".", toks


# ---------------------------------------------------------------- mutations

SNIPPETS = [")(", " a b ", "f(,)", "(", ")", "[", "]", "{", "}", "|", "||", ",", ",,", "'", "\"", "`", "`abc`", "`a``b`", "`a\\\nb`", "`a'`b`",
            "`a\\nb`", "`a\"b`", "/* unterminated", "/*", "*/", "/", "/*/", "/**/", "'unterminated", "\"unterminated", "`unterminated",
            "'a\\qb'", "\"a\\qb\"", "'\\x110000\\'", "'\\xD800\\'", "'\\x\\'", "'\\x41'", "'\\12'", "'\\400000000000\\'", "'\\xFFFFFFFFFF\\'",
            "\"\\x110000\\\"", "'\\8'", "'\\ '", "'\\", "'a\\", "'a\nb'", "\"a\nb\"", "'a\tb'", "'a. b\\q. c'. d", "'a\\q. b'", "\"a\\q. b\" ",
            "'a\\q\\'. b'", "'a\\q''. b'", "\"x\\q\"\". b\"", "'a\x01. b'", "0'", "0''", "0'''", "0''a", "0'ab", "0'\\", "0'\\q", "0'\n", "0'\\\n",
            "0'\\x41", "0'\\x", "0'\\xZ", "0'\\9", "0'\t", "0'\x01", "\x00", "\x01", "\x7f", "\x1b", "\x85", "\xa0", "\u2028", "\u3000", "\U0001f600",
            "\u0663", "\u01c5", "\xbd", "\xaa", "\u0301", "\ufffe", "\u200b", "a\x00b", "1_", "1__2", "1_ 2", "1_a", "1_ a", "1_/*", "1_/* c", "1_/",
            "1_%c", "1_.", "1.e5", "1.0e", "1.0e+", "1.0e+a", "1.0e-", "1e5", "1.0ee", "1.0e5e", "..", ". .", ".(", ".a", "a.b", "X.Y", "1.2.3", "1..2",
            "0x", "0xG", "0o8", "0b2", "0x1G", "00x1", "1x", "=..=", ".=.", "- - -", "\\", "\\\\", "a:-:-b", ":-", "-->", "?-", "a,", "|a", "a|b", "{|}", "[|]",
            "[a|]", "[a|b|c]", "f(", "f(a", "f(a,", "f a", "f(a))", "((a)", "X Y", "1 2", "a 1", "\"a\" \"b\"", "\"a\"b", "'a'b", "'a''", "a''", "9e9999",
            "1.0e400", "1.0e-400", "123456789.123456789e123", "- (", "-(", "-()", "()", "[]()", "{}{}", "[](", "foo(.\n", "a.%", ". % c\n", ".\x0b", ".\x0c",
            ".\r", "a .b", "%", "% c. d", "%\n", "/* . */", "/* a */ /* b", "*/ a", "end", "_", "__", "A_b", "!", "!!", ";;", "a ;", "a->", "->b", "\\+\\+", "\\+ (a,b)"]
WEIRD = list("()[]{}|,.'\"`\\%/*_ \n\t0123456789aAxeE+-=:<>#$&?@^~!;") + ["\x00", "\x01", "\x7f", "\x85", "\xa0", "\u2028", "\U0001f600", "\u0663", "\xe9", "\xc9", "\x0b", "\r"]


def mutate(rng, clause_text, toks):
    """returns (mutated text, description)"""
    r = rng.random()
    if r < 0.45:
        # snippet spliced at a character position that follows a token (approximated: any position)
        sn = rng.choice(SNIPPETS)
        pos = rng.randint(0, len(clause_text))
        if rng.random() < 0.5:
            # token boundary: a space or bracket nearby
            cands = [i for i, ch in enumerate(clause_text) if ch in " (),[]"]
            if cands:
                pos = rng.choice(cands)
        return clause_text[:pos] + sn + clause_text[pos:], "snippet:" + repr(sn)
    if r < 0.55:
        sn = rng.choice(SNIPPETS)
        return sn + rng.choice(["", " "]) + ".", "only:" + repr(sn)
    t = list(clause_text)
    n = rng.choice([1, 1, 1, 2, 3])
    what = []
    for _ in range(n):
        k = rng.random()
        if not t:
            t.append(rng.choice(WEIRD))
            continue
        p = rng.randrange(len(t))
        if k < 0.3:
            what.append("del")
            del t[p]
        elif k < 0.6:
            what.append("ins")
            t.insert(p, rng.choice(WEIRD))
        elif k < 0.85:
            what.append("rep")
            t[p] = rng.choice(WEIRD)
        elif k < 0.93:
            what.append("dup")
            t.insert(p, t[p])
        else:
            what.append("swap")
            if p + 1 < len(t):
                t[p], t[p + 1] = t[p + 1], t[p]
    return "".join(t), "chars:" + "+".join(what)


def soup(rng):
    n = rng.randint(1, 14)
    parts = []
    for _ in range(n):
        k = rng.random()
        if k < 0.35:
            parts.append(rng.choice(ATOMS + VARS + INTS + FLOATS + STRINGS))
        elif k < 0.7:
            parts.append(rng.choice(SNIPPETS))
        else:
            parts.append(rng.choice(WEIRD))
        if rng.random() < 0.5:
            parts.append(rng.choice([" ", " ", "\n", ""]))
    return "".join(parts)


def broken_quoted(rng):
    """a quoted item with at least one illegal piece and text that looks like an end token inside it"""
    q = rng.choice(["'", "'", "\"", "`"])
    good = ["a", "b c", ". ", ".", " .\t", "%", "/*", q + q, "\\" + q, "\\\\", "\\n", "\\x41\\", "\\101\\", "\\\n", "0'", "1.5", "(", "[", "\u00e9"]
    good += [x for x in ["'", "\"", "`"] if x != q]
    bad = ["\\q", "\\x41", "\\x", "\\xG", "\\x110000\\", "\\xD800\\", "\\8", "\\ ", "\\400000000000\\", "\x01", "\t", "\x7f", "\x00", "\\e", "\\z. "]
    parts = [rng.choice(good) for _ in range(rng.randint(0, 3))] + [rng.choice(bad)] + [rng.choice(good + bad[:6]) for _ in range(rng.randint(0, 4))]
    if rng.random() < 0.35:
        # an illegal piece, then a quote that does not close (doubled / escaped), then end-token-like text
        parts = [rng.choice(good) for _ in range(rng.randint(0, 2))] + [rng.choice(bad)] + [rng.choice([q + q, "\\" + q]), rng.choice([". ", ".\t", " . "])] + [rng.choice(good) for _ in range(rng.randint(0, 2))]
    return q + "".join(parts) + q


def gen_text(rng, family):
    pre = [valid_clause(rng)[0] + rng.choice(ENDS) for _ in range(rng.choice([0, 0, 1, 2]))]
    post = [valid_clause(rng)[0] + rng.choice(ENDS) for _ in range(rng.randint(1, 3))]
    if family == "valid":
        cl = [valid_clause(rng)[0] + rng.choice(ENDS) for _ in range(rng.randint(1, 4))]
        tail = rng.choice(["", "", " ", "\n\n", "% c", "% c\n", "/* c */", " /* c */ \n", "\t\n % x\n"])
        return "".join(cl) + tail, "valid"
    if family == "qerr":
        lead = rng.choice(["", "x = ", "f(", "[a, ", "- "])
        trail = rng.choice(["", " y", ")", "]", " = z"])
        return "".join(pre) + lead + broken_quoted(rng) + trail + rng.choice([".", " ."]) + rng.choice(ENDS) + "".join(post), "qerr"
    if family == "soup":
        return "".join(pre) + soup(rng) + rng.choice([".", " .", "."]) + rng.choice(ENDS) + "".join(post), "soup"
    ct, toks = valid_clause(rng, plain=rng.random() < 0.5)
    mt, what = mutate(rng, ct, toks)
    if family == "tail":
        if rng.random() < 0.5:
            mt = mt.rstrip(".")
        return "".join(pre) + "".join(post) + mt + rng.choice(["", "", "", "\n", " "]), "tail/" + what
    return "".join(pre) + mt + rng.choice(ENDS) + "".join(post), what


def stress_texts(rng, tier):
    n = 10000 if tier == "quick" else 100000
    good = "ok(1).\n"
    out = [
        ("a" * n + ".\n" + good, "long-name"),
        ("X" + "a" * n + ".\n" + good, "long-var"),
        ("1" * n + ".\n" + good, "long-int"),
        ("1." + "1" * n + ".\n" + good, "long-frac"),
        ("+" * n + ".\n" + good, "long-graphic"),
        ("'" + "a" * n + "'.\n" + good, "long-quoted"),
        ("\"" + "a" * n + "\".\n" + good, "long-string"),
        ("/*" + "a" * n + "*/ a.\n" + good, "long-comment"),
        ("%" + "a" * n + "\na.\n" + good, "long-line-comment"),
        ("'" + "a" * n + "\\q'.\n" + good, "long-quoted-bad-escape"),
        ("'" + "a" * n + ".\n" + good, "long-unterminated-quoted"),
        ("`" + "a" * n + "`.\n" + good, "long-backquote"),
        ("'\\x" + "1" * n + "\\'.\n" + good, "long-hex-escape"),
        (" " * n + "a.\n" + good, "long-layout"),
        ("(" * n + "a" + ")" * n + ".\n" + good, "deep-paren"),
        ("[" * n + "a" + "]" * n + ".\n" + good, "deep-list"),
        ("{" * n + "a" + "}" * n + ".\n" + good, "deep-curly"),
        ("f(" * n + "a" + ")" * n + ".\n" + good, "deep-compound"),
        ("- " * n + "a.\n" + good, "deep-prefix"),
        ("a" + "+a" * n + ".\n" + good, "deep-left-infix"),
        ("a" + "^a" * n + ".\n" + good, "deep-right-infix"),
        ("a" + ",a" * n + ".\n" + good, "deep-comma"),
        ("[" + "a," * n + "a].\n" + good, "long-list"),
        ("f(" + "a," * min(n, 2000) + "a).\n" + good, "wide-compound"),
        ("(" * n + ".\n" + good, "deep-unclosed-paren"),
        ("[" * n + ".\n" + good, "deep-unclosed-list"),
        (")" * n + ".\n" + good, "many-close"),
        ("f(" * n + ".\n" + good, "deep-unclosed-compound"),
        ("a " * n + ".\n" + good, "many-atoms"),
        ("\x01" * min(n, 3000) + ".\n" + good, "many-stray"),
        ("'\\q" * min(n, 3000) + "'.\n" + good, "many-bad-escapes"),
    ]
    return out


# ---------------------------------------------------------------- running

def q_read(path, n, shallow):
    """read up to n terms; every outcome is an atom or a string (terms are written to text inside Prolog:
    the library API's answer conversion panics on some improper lists, see notes/findings-misc.md)"""
    if shallow:
        t = "(T==end_of_file->R=eof;R='$o_t'(ok))"
    else:
        t = ("(T==end_of_file->R=eof;numbervars(T,0,_),write_term_to_chars(T,[quoted(true),ignore_ops(true),numbervars(true)],Cs),"
             "R='$o_t'(Cs))")
    return ("open(\"%s\",read,S),findall(R,(between(1,%d,_),catch((read_term(S,T,[]),%s),error(E,_),R='$o_e'(E)),"
            "(R==eof->!;true)),Rs),close(S)." % (path, n, t))


RS_RE = re.compile(r"^\{Rs=(.*),S='\$dropped_value'\}")
EOF_ITEM = "'eof'"


def parse_rs(r):
    """-> the text of the Rs list, or None"""
    m = RS_RE.match(r)
    return m.group(1) if m else None


def parse_model(r):
    """-> list of (class, kind/ntoks, len) or None"""
    if r == "-":
        return []
    out = []
    for it in r.split(" "):
        m = re.match(r"^(c|e)([a-z_0-9]*):(\d+)$", it)
        if not m:
            return None
        out.append((m.group(1), m.group(2), int(m.group(3))))
    return out


class Runner:
    def __init__(self, tbl):
        self.tbl = tbl
        self.dir = os.path.join(core.BUILD, "c17tmp", "%d_%d" % (os.getpid(), int(time.time() * 1000) % 100000000))
        os.makedirs(self.dir, exist_ok=True)
        self.n = 0

    def cleanup(self):
        shutil.rmtree(self.dir, ignore_errors=True)

    def path(self, name):
        return os.path.join(self.dir, name)

    def write(self, name, text):
        p = self.path(name)
        with open(p, "w", encoding="utf-8", newline="") as fh:
            fh.write(text)
        return p

    def evaluate(self, items, env=None):
        """items: list of dicts {text, shallow}. Returns per item a dict with model, whole, segs."""
        base = self.n
        self.n += len(items)
        mlines = ["reads\tm%d\t%s\t%s" % (base + i, uc_arg(self.tbl, it["text"]), enc(it["text"])) for i, it in enumerate(items)]
        model = core.run_model(mlines)
        cases = []
        res = []
        for i, it in enumerate(items):
            k = base + i
            text = it["text"]
            mo = parse_model(model.get("m%d" % k, "missing"))
            rec = {"model_raw": model.get("m%d" % k, "missing"), "model": mo, "k": k}
            res.append(rec)
            nreads = (len(mo) if mo is not None else 10) + 3
            lines = ["Q\tp%d\t1\t%s." % (k, PRELUDE),
                     "Q\tw%d\t1\t%s" % (k, q_read(self.write("w%d.pl" % k, text), nreads, it.get("shallow", False)))]
            if mo is not None and not it.get("shallow", False):
                off = 0
                for j, (_, _, ln) in enumerate(mo):
                    seg = text[off:off + ln]
                    off += ln
                    lines.append("Q\ts%d_%d\t1\t%s" % (k, j, q_read(self.write("s%d_%d.pl" % (k, j), seg), 3, False)))
            cases.append({"id": "k%d" % k, "impl": lines})
        # the model's own compositionality on this text: every slice read alone = that one outcome
        slines = []
        for i, it in enumerate(items):
            mo = res[i]["model"]
            if mo and not it.get("shallow", False):
                off = 0
                for j, (_, _, ln) in enumerate(mo):
                    seg = it["text"][off:off + ln]
                    off += ln
                    slines.append("reads\tms%d_%d\t%s\t%s" % (base + i, j, uc_arg(self.tbl, seg), enc(seg)))
        smodel = core.run_model(slines) if slines else {}
        for i, it in enumerate(items):
            mo = res[i]["model"]
            res[i]["model_segs_ok"] = True
            if mo and not it.get("shallow", False):
                for j, (c, kk, ln) in enumerate(mo):
                    if smodel.get("ms%d_%d" % (base + i, j)) != "%s%s:%d" % (c, kk, ln):
                        res[i]["model_segs_ok"] = "slice %d alone: %s, in the text: %s%s:%d" % (j, smodel.get("ms%d_%d" % (base + i, j)), c, kk, ln)
        impl, _ = diff.run_cases(cases, impl_env=env)
        # retry cases that ended in a timeout / crash / failed set-up once, sequentially (load); a genuine crash persists
        flaky = [c for c in cases if any(str(impl.get(l.split("\t")[1], "missing")).startswith(("timeout", "missing", "exception(", "error(", "panic", "abort", "skipped")) for l in c["impl"])]
        self.retried = len(flaky)
        if flaky and len(flaky) <= 40:
            e2 = dict(env or {})
            e2["SV_TIMEOUT_MS"] = "60000"
            impl2, _ = diff.run_cases(flaky, impl_env=e2, parallel=False)
            impl.update(impl2)
        for i, it in enumerate(items):
            rec = res[i]
            k = rec["k"]
            rec["prelude"] = impl.get("p%d" % k, "missing")
            rec["whole"] = impl.get("w%d" % k, "missing")
            rec["segs"] = []
            if rec["model"] is not None and not it.get("shallow", False):
                rec["segs"] = [impl.get("s%d_%d" % (k, j), "missing") for j in range(len(rec["model"]))]
        return res


BAD_PREFIX = ("panic", "abort", "timeout", "missing", "skipped", "error(", "exception(", "false")


def strip_answer(r):
    # answers are joined by ' ;; '; the query is deterministic after findall, '...' may follow
    return r.split(" ;; ")[0]


def judge(it, rec):
    """-> (ok, defect class, detail)"""
    text = it["text"]
    whole = strip_answer(rec["whole"])
    mo = rec["model"]
    if mo is None:
        return False, "model-failed", "model driver answered %r" % rec["model_raw"]
    if rec.get("model_segs_ok", True) is not True:
        return False, "model-not-compositional", str(rec["model_segs_ok"])
    if whole.startswith(BAD_PREFIX):
        cls = "crash:" + whole.split("(")[0]
        return False, cls, "reading the text ended in %s" % whole[:200]
    rs = parse_rs(whole)
    if rs is None:
        return False, "unparsable-result", whole[:200]
    for e in re.findall(r"'\$o_e'\(('[a-z_]+'|[^'])", rs):
        if e != "'syntax_error'":
            return False, "non-syntax-error", "a read raised something else than a syntax error: %s" % rs[:300]
    if it.get("shallow", False):
        seq = []
        for m in re.finditer(r"'\$o_t'\('ok'\)|'(eof)'|'\$o_e'\('syntax_error'\('([a-z_]+)'\)\)", rs):
            seq.append("eof" if m.group(1) else ("e:" + m.group(2) if m.group(2) else "t"))
        if not seq or seq[-1] != "eof":
            return False, classify(text, mo, rs, None), "no end_of_file after %d reads: %s" % (len(seq), rs[:200])
        seq = seq[:-1]
        if len(seq) != len(mo):
            return False, classify(text, mo, rs, None), "model expects %d reads, implementation made %d: %s" % (len(mo), len(seq), rs[:200])
        for (c, k, _), s in zip(mo, seq):
            if c == "e" and s != "e:" + k:
                return False, classify(text, mo, rs, None), "model: lexical error %s, implementation: %s" % (k, s)
            if c == "c" and not (s == "t" or s.startswith("e:")):
                return False, "other", s
        return True, "", ""
    if not rs.endswith(EOF_ITEM + "]"):
        return False, classify(text, mo, rs, None), "the reads do not end in end_of_file within the cap: %s" % rs[:300]
    # expected whole = concatenation of the segments' own results
    exp = []
    for j, sr in enumerate(rec["segs"]):
        sr = strip_answer(sr)
        if sr.startswith(BAD_PREFIX):
            return False, "crash:" + sr.split("(")[0], "reading clause %d alone ended in %s" % (j, sr[:200])
        srs = parse_rs(sr)
        if srs is None:
            return False, "unparsable-result", sr[:200]
        tail = "," + EOF_ITEM + "]"
        if not (srs.startswith("[") and srs.endswith(tail)) or (srs.count("'$o_t'(") + srs.count("'$o_e'(")) != 1:
            return False, classify(text, mo, rs, j), "clause %d read alone does not give one outcome then end_of_file: %s" % (j, srs[:300])
        one = srs[1:-len(tail)]
        c, k, _ = mo[j]
        if c == "e" and one != "'$o_e'('syntax_error'('%s'))" % k:
            return False, classify(text, mo, rs, j), "model: clause %d is the lexical error %s; alone the implementation gives %s" % (j, k, one[:200])
        if c == "c" and one.startswith("'$o_e'(") and not one.startswith("'$o_e'('syntax_error'("):
            return False, "non-syntax-error", one[:200]
        exp.append(one)
    want = "[" + ",".join(exp + [EOF_ITEM]) + "]"
    if rs != want:
        return False, classify(text, mo, rs, None), "whole text read: %s ; clauses read alone: %s" % (rs[:400], want[:400])
    return True, "", ""


def classify(text, mo, rs, j):
    """stable defect class of a failing case (for known-finding matching)"""
    if "\x00" in text and "'$o_t'(\"A\")" in rs:
        return "nul-read-as-unbound-term"
    items = re.findall(r"'\$o_[te]'\((?:[^'$]|'[^$])*", rs)
    if len(items) >= 3 and not rs.endswith(EOF_ITEM + "]") and len(set(items[-3:])) == 1 and items[-1].startswith("'$o_e'("):
        return "same-error-for-ever"
    # trailing layout: the implementation's reads = the model's plus one incomplete_reduction before end_of_file
    n_impl = rs.count("'$o_t'(") + rs.count("'$o_e'(")
    if n_impl == len(mo) + 1 and rs.endswith("'$o_e'('syntax_error'('incomplete_reduction'))," + EOF_ITEM + "]") and not any(c == "e" for c, _, _ in mo):
        return "layout-before-eof-is-a-syntax-error"
    if any(c == "e" for c, _, _ in mo):
        return "no-resync-after-lexical-error"
    return "other"


def shrink(runner, it, cls, budget=120):
    """delta debugging on characters: a shorter text with the same defect class"""
    text = it["text"]
    n = 2
    used = 0
    while len(text) >= 2 and used < budget:
        chunk = max(1, len(text) // n)
        cands = []
        for a in range(0, len(text), chunk):
            cands.append(text[:a] + text[a + chunk:])
        cands = [c for c in cands if c and c != text][:24]
        if not cands:
            break
        items = [dict(it, text=c) for c in cands]
        recs = runner.evaluate(items)
        used += len(items)
        hit = None
        for c, i2, rec in zip(cands, items, recs):
            ok, cl, _ = judge(i2, rec)
            if not ok and cl == cls:
                hit = c
                break
        if hit is not None:
            text = hit
            n = max(n - 1, 2)
        else:
            if chunk == 1:
                break
            n = min(n * 2, len(text))
    return text


def run(ctx):
    rng, tier = ctx["rng"], ctx["tier"]
    rep = diff.replay_case(ctx)
    t0 = time.time()
    tbl, missing = uc_table(NONASCII)
    if missing:
        core.log("[C17] char_type/2 gave no answer for %r" % missing)
    runner = Runner(tbl)
    try:
        items = []
        if rep is not None:
            items = [{"text": "".join(chr(c) for c in c0["cps"]), "shallow": c0.get("shallow", False), "what": c0.get("what", "replay"), "family": c0.get("family", "replay")} for c0 in rep]
        else:
            for c0 in diff.load_corpus("C17"):
                items.append({"text": "".join(chr(c) for c in c0["cps"]), "shallow": c0.get("shallow", False), "what": c0.get("what", "corpus"), "family": "corpus"})
            n = int(os.environ.get("C17_N", "700" if tier == "quick" else "8000"))
            fams = [("mut", 0.47), ("qerr", 0.12), ("tail", 0.14), ("soup", 0.14), ("valid", 0.13)]
            for _ in range(n):
                x = rng.random()
                acc = 0.0
                fam = "mut"
                for f, w in fams:
                    acc += w
                    if x < acc:
                        fam = f
                        break
                text, what = gen_text(rng, fam)
                items.append({"text": text, "what": what, "family": fam})
            for text, what in stress_texts(rng, tier):
                items.append({"text": text, "what": what, "family": "stress", "shallow": True})
        recs = []
        B = 4000
        retried = 0
        for a in range(0, len(items), B):
            recs += runner.evaluate(items[a:a + B])
            retried += getattr(runner, "retried", 0)
        findings, agree = [], 0
        by_class = {}
        distinct = set()
        err_kinds = {}
        fam_count = {}
        n_reads = 0
        n_lexerr_cases = 0
        for it, rec in zip(items, recs):
            ok, cls, detail = judge(it, rec)
            fam_count[it["family"]] = fam_count.get(it["family"], 0) + 1
            if rec["model"]:
                n_reads += len(rec["model"])
                ks = [k for c, k, _ in rec["model"] if c == "e"]
                if ks:
                    n_lexerr_cases += 1
                    distinct.add(it["text"])
                for k in ks:
                    err_kinds[k] = err_kinds.get(k, 0) + 1
            if rep is not None:
                print("replay text=%r\n model: %s\n whole: %s\n segs : %s\n verdict: %s %s %s" % (
                    it["text"], rec["model_raw"], rec["whole"][:1000], [s[:300] for s in rec["segs"]], ok, cls, detail))
            if ok:
                agree += 1
            else:
                by_class.setdefault(cls, []).append((it, rec, detail))
        for cls, lst in sorted(by_class.items()):
            lst.sort(key=lambda x: len(x[0]["text"]))
            for it, rec, detail in lst[:2]:
                text = it["text"]
                small = text
                if rep is None and len(text) <= 400 and not cls.startswith("model"):
                    try:
                        small = shrink(runner, it, cls)
                    except Exception as e:     # shrinking must never hide a finding
                        core.log("[C17] shrink failed: %r" % e)
                kind = "disagreement" if cls in ("model-failed", "model-not-compositional", "other", "unparsable-result") else "violation"
                case = {"cps": [ord(c) for c in small], "shallow": it.get("shallow", False), "what": it.get("what", ""), "family": it["family"],
                        "original_cps": [ord(c) for c in text] if len(text) <= 2000 else None}
                findings.append(core.Finding(kind, {"defect": cls, "text": repr(small)[:120]},
                                             "%s [%d failing cases of this class; shown shrunk from %d to %d characters] %s" % (
                                                 cls, len(lst), len(text), len(small), detail[:600]), case))
        core.log("[C17] %d texts, %d reads, %.1fs, %d retried, failing classes: %s" % (
            len(items), n_reads, time.time() - t0, retried, {k: len(v) for k, v in by_class.items()}))
        return {
            "evaluations": len(items),
            "distinct_nontrivial": len(distinct),
            "rule": "texts = valid grammar clauses with one mutated clause (snippet splice / character edits), token soup, tail-of-file errors, valid-only texts with trailing layout, stress texts; non-trivial = the model reports at least one lexical error in the text; distinct by text",
            "samples": [{"what": it["what"], "text": it["text"][:120], "model": rec["model_raw"][:120]} for it, rec in list(zip(items, recs))[:5]],
            "traces_validated_against_impl": agree,
            "disagreements_checked": len(items) - agree,
            "families": fam_count,
            "reads": n_reads,
            "texts_with_lexical_error": n_lexerr_cases,
            "error_kinds_hit": err_kinds,
            "retried_after_timeout": retried,
            "failing_classes": {k: len(v) for k, v in by_class.items()},
            "findings": findings,
        }
    finally:
        runner.cleanup()
