"""Generates MANIFEST.json from the per-property metadata in vlib/props/*.py and claims.json.
Run: python3 -m vlib.manifest"""
import importlib
import json
import os
import subprocess

ROOT = os.path.dirname(os.path.dirname(os.path.abspath(__file__)))


def main():
    props = [json.loads(l) for l in open(os.path.join(ROOT, "properties.jsonl"))]
    claims = json.load(open(os.path.join(ROOT, "claims.json")))
    checks, na = [], []
    for p in props:
        pid = p["id"]
        c = claims.get(pid)
        if c is None or c.get("not_applicable"):
            na.append({"property_id": pid,
                       "reason": (c or {}).get("reason", "check not built yet (see DESIGN.md section 10 for the planned model); not claimed until its check exists and is quiet on the unchanged tree")})
            continue
        checks.append({
            "property_id": pid,
            "quick_cmd": "./check %s --tier quick" % pid,
            "thorough_cmd": "./check %s --tier thorough" % pid,
            "evidence_file": "evidence/%s.json" % pid,
            "replay_cmd_template": "./check %s --replay {path}" % pid,
            "engine": "lean4-model+correspondence",
            "level_claimed": {"category": "proof", "text": c["level_text"], "design_ref": "DESIGN.md section 10, %s" % pid},
            "level_note": c["level_note"],
            "technique": c.get("technique", "Lean 4 theorems over a hand-written model of the anchored code; differential correspondence (model driver vs rebuilt crate)"),
        })
    hooks_commits = subprocess.run(["git", "-C", "/repo", "log", "--format=%h %s", "--grep=^verif:"],
                                   stdout=subprocess.PIPE, text=True).stdout.strip().split("\n")
    man = {
        "version": 1,
        "setup_cmd": "./setup.sh",
        "hooks": {
            "guard": "cargo feature `verif` (Cargo.toml [features] verif = []; code under #[cfg(feature = \"verif\")])",
            "enable": "harness/Cargo.toml depends on scryer-prolog with features = [\"verif\", \"crypto-full\"], default-features = false; built by ./check via cargo build --release --offline in /verif/harness",
            "baseline_off_cmd": "cd /repo && cargo test --workspace --no-fail-fast --offline",
            "source_commits": [c.split(" ")[0] for c in hooks_commits if c],
            "add_only": True,
        },
        "engines": [
            {"name": "lean4-model+correspondence", "path": "lean/ + harness/ + vlib/",
             "serves_properties": [c["property_id"] for c in checks],
             "kind_free_text": "Lean 4 theorems about hand-written executable models (lake build + #print axioms audit), tied to /repo by differential execution of the compiled model driver against a Rust harness that links the rebuilt crate"}
        ],
        "checks": checks,
        "not_applicable": na,
        "notes": "See DESIGN.md. known_findings.json lists fixed/open genuine defects. ./check <id> --tier quick|thorough; VERIF_SEED honoured.",
    }
    with open(os.path.join(ROOT, "MANIFEST.json"), "w") as fh:
        json.dump(man, fh, indent=1)
    print("claimed", len(checks), "not_applicable", len(na))


if __name__ == "__main__":
    main()
