// C30 / C31: whole-machine fault injection (through `scryer_prolog::verif_hooks`).
//
//   QF <id> <k> <mode> <max> <query>   run the query on the current machine with the k-th heap growth
//        from now failing (k = 0: none, only count; mode `p`: all later growths fail too until the
//        query is over, mode `o`: only that one). Result: `g=<growths attempted> d=<denied> | <result>`
//   LF <id> <k> <mode> <module> <program>   consult_module_string under the same kind of planned fault;
//        result `g=.. d=.. | loaded` (or panic(..)/timeout)
//   QI <id> <n> <max> <query>          run the query with the interrupt flag raised just before the
//        n-th dispatched instruction from now (n = 0: never, only count).
//        Result: `i=<instructions dispatched> at=<count when a poll consumed the flag, 0 = never> | <result>`
// <result> is what `Q` prints, except that an interrupt ball is printed as it is (not as `timeout`);
// `timeout` is printed when the 10 s watchdog had to fire.  The plan is always cleared afterwards, so
// the following `Q` lines of the case probe the same machine without faults.
use crate::{canon, escape, unescape, Ctx};
use scryer_prolog::LeafAnswer;
use std::panic::{catch_unwind, AssertUnwindSafe};
use std::time::Instant;

fn run_raw(ctx: &mut Ctx, text: &str, max: usize, before: &dyn Fn(), after: &mut dyn FnMut()) -> String {
    let _ = ctx.machine();
    ctx.arm();
    let t0 = Instant::now();
    let res = {
        let m = ctx.machine();
        catch_unwind(AssertUnwindSafe(|| {
            let mut out: Vec<String> = Vec::new();
            before();
            let qs = m.run_query(text.to_string());
            let mut n = 0usize;
            for ans in qs {
                n += 1;
                match ans {
                    Ok(LeafAnswer::True) => out.push("true".into()),
                    Ok(LeafAnswer::False) => out.push("false".into()),
                    Ok(LeafAnswer::Exception(t)) => out.push(format!("exception({})", canon::term(&t))),
                    Ok(LeafAnswer::LeafAnswer { bindings, .. }) => out.push(canon::bindings(&bindings)),
                    Err(t) => out.push(format!("error({})", canon::term(&t))),
                }
                if n >= max {
                    out.push("...".into());
                    break;
                }
            }
            out.join(" ;; ")
        }))
    };
    after();
    ctx.disarm();
    let late = t0.elapsed().as_millis() as u64 >= ctx.timeout_ms;
    match res {
        Ok(s) => {
            if late {
                "timeout".to_string()
            } else {
                s
            }
        }
        Err(e) => {
            ctx.machine = None;
            let msg = if let Some(s) = e.downcast_ref::<String>() {
                s.clone()
            } else if let Some(s) = e.downcast_ref::<&str>() {
                s.to_string()
            } else {
                "?".into()
            };
            let msg: String = msg.chars().take(160).collect();
            format!("panic({})", escape(&msg))
        }
    }
}

pub fn dispatch(ctx: &mut Ctx, op: &str, f: &[&str]) -> Option<String> {
    match op {
        "QF" => {
            let k: usize = f.get(2).and_then(|s| s.parse().ok()).unwrap_or(0);
            let persistent = f.get(3).copied().unwrap_or("p") != "o";
            let max: usize = f.get(4).and_then(|s| s.parse().ok()).unwrap_or(1);
            let text = unescape(f.get(5).copied().unwrap_or("true."));
            let mut stats = (0usize, 0usize);
            let r = run_raw(
                ctx,
                &text,
                max.max(1),
                &|| scryer_prolog::verif_hooks::set_grow_fault(k, persistent),
                &mut || {
                    stats = scryer_prolog::verif_hooks::grow_fault_stats();
                    scryer_prolog::verif_hooks::set_grow_fault(0, false);
                },
            );
            Some(format!("g={} d={} | {}", stats.0, stats.1, r))
        }
        "LF" => {
            // LF <id> <k> <mode> <module> <program text>: consult_module_string under a planned fault
            let k: usize = f.get(2).and_then(|s| s.parse().ok()).unwrap_or(0);
            let persistent = f.get(3).copied().unwrap_or("p") != "o";
            let module = f.get(4).copied().unwrap_or("user").to_string();
            let prog = unescape(f.get(5).copied().unwrap_or(""));
            let _ = ctx.machine();
            ctx.arm();
            let t0 = Instant::now();
            let r = {
                let m = ctx.machine();
                catch_unwind(AssertUnwindSafe(|| {
                    scryer_prolog::verif_hooks::set_grow_fault(k, persistent);
                    m.consult_module_string(&module, prog);
                }))
            };
            let stats = scryer_prolog::verif_hooks::grow_fault_stats();
            scryer_prolog::verif_hooks::set_grow_fault(0, false);
            ctx.disarm();
            let late = t0.elapsed().as_millis() as u64 >= ctx.timeout_ms;
            let res = match r {
                Ok(()) => {
                    if late {
                        "timeout".to_string()
                    } else {
                        "loaded".to_string()
                    }
                }
                Err(e) => {
                    ctx.machine = None;
                    let msg = if let Some(s) = e.downcast_ref::<String>() {
                        s.clone()
                    } else if let Some(s) = e.downcast_ref::<&str>() {
                        s.to_string()
                    } else {
                        "?".into()
                    };
                    let msg: String = msg.chars().take(160).collect();
                    format!("panic({})", escape(&msg))
                }
            };
            Some(format!("g={} d={} | {}", stats.0, stats.1, res))
        }
        "QI" => {
            let n: u64 = f.get(2).and_then(|s| s.parse().ok()).unwrap_or(0);
            let max: usize = f.get(3).and_then(|s| s.parse().ok()).unwrap_or(1);
            let text = unescape(f.get(4).copied().unwrap_or("true."));
            let mut stats = (0u64, 0u64);
            let r = run_raw(
                ctx,
                &text,
                max.max(1),
                &|| scryer_prolog::verif_hooks::set_interrupt_at(n),
                &mut || {
                    stats = scryer_prolog::verif_hooks::instr_stats();
                    scryer_prolog::verif_hooks::set_interrupt_at(0);
                },
            );
            Some(format!("i={} at={} | {}", stats.0, stats.1, r))
        }
        _ => None,
    }
}
