// sv-harness: runs operation lines against the real scryer-prolog library, in-process.
//
// Line protocol (stdin, one op per line, TAB separated, text fields backslash-escaped
// with \n \t \\):
//   Q <id> <max_answers> <query text>     run query, print "<id>\t<result>"
//   L <id> <module> <program text>        consult_module_string, print "<id>\tloaded"
//   R <id>                                drop the machine, build a fresh one
// Family-specific ops are dispatched in fam_*.rs (see `mod` list).
//
// Result syntax (canonical, see canon.rs):
//   answers separated by " ;; ", each one of
//     true | false | {X=term,Y=term} | exception(term) | error(term) | panic(msg) | timeout
use std::io::{self, BufRead, Write};
use std::panic::{catch_unwind, AssertUnwindSafe};
use std::sync::atomic::{AtomicU64, Ordering};
use std::sync::Arc;
use std::time::Duration;

use scryer_prolog::{LeafAnswer, Machine, MachineBuilder};

mod canon;
mod fam;
mod fam_c33;
mod fam_c32;
mod fam_c19;
mod fam_c35;
mod fam_c29;
mod fam_c30;

pub fn unescape(s: &str) -> String {
    let mut out = String::with_capacity(s.len());
    let mut it = s.chars();
    while let Some(c) = it.next() {
        if c == '\\' {
            match it.next() {
                Some('n') => out.push('\n'),
                Some('t') => out.push('\t'),
                Some('r') => out.push('\r'),
                Some('\\') => out.push('\\'),
                Some(o) => {
                    out.push('\\');
                    out.push(o)
                }
                None => out.push('\\'),
            }
        } else {
            out.push(c)
        }
    }
    out
}

pub fn escape(s: &str) -> String {
    let mut out = String::with_capacity(s.len());
    for c in s.chars() {
        match c {
            '\n' => out.push_str("\\n"),
            '\t' => out.push_str("\\t"),
            '\r' => out.push_str("\\r"),
            '\\' => out.push_str("\\\\"),
            c => out.push(c),
        }
    }
    out
}

pub struct Ctx {
    pub machine: Option<Machine>,
    // watchdog: deadline generation counter
    pub wd_gen: Arc<AtomicU64>,
    pub timeout_ms: u64,
}

impl Ctx {
    pub fn machine(&mut self) -> &mut Machine {
        if self.machine.is_none() {
            self.machine = Some(MachineBuilder::default().build());
        }
        self.machine.as_mut().unwrap()
    }

    pub fn reset(&mut self) {
        self.machine = None;
    }

    /// Arms the watchdog: if the generation is unchanged after timeout_ms, raise INTERRUPT.
    pub fn arm(&self) -> u64 {
        let g = self.wd_gen.fetch_add(1, Ordering::SeqCst) + 1;
        let gen = self.wd_gen.clone();
        let ms = self.timeout_ms;
        std::thread::spawn(move || {
            std::thread::sleep(Duration::from_millis(ms));
            if gen.load(Ordering::SeqCst) == g {
                scryer_prolog::verif_hooks::raise_interrupt();
                // keep raising in case the goal catches the interrupt and continues
                for _ in 0..200 {
                    std::thread::sleep(Duration::from_millis(50));
                    if gen.load(Ordering::SeqCst) != g {
                        break;
                    }
                    scryer_prolog::verif_hooks::raise_interrupt();
                }
            }
        });
        g
    }

    pub fn disarm(&self) {
        self.wd_gen.fetch_add(1, Ordering::SeqCst);
        scryer_prolog::verif_hooks::clear_interrupt();
    }

    /// Runs a query, returning canonical result text. A panic discards the machine.
    pub fn query(&mut self, text: &str, max: usize) -> String {
        // build the machine (lazily, ~0.3 s, much longer under load) BEFORE arming the watchdog,
        // so that the bootstrap is never interrupted
        let _ = self.machine();
        self.arm();
        let res = {
            let m = self.machine();
            catch_unwind(AssertUnwindSafe(|| {
                let mut out: Vec<String> = Vec::new();
                let qs = m.run_query(text.to_string());
                let mut n = 0usize;
                if max == 0 {
                    // create the iterator and drop it without asking for any answer
                    drop(qs);
                    return "...".to_string();
                }
                for ans in qs {
                    n += 1;
                    match ans {
                        Ok(LeafAnswer::True) => out.push("true".into()),
                        Ok(LeafAnswer::False) => out.push("false".into()),
                        Ok(LeafAnswer::Exception(t)) => {
                            out.push(format!("exception({})", canon::term(&t)))
                        }
                        Ok(LeafAnswer::LeafAnswer { bindings, .. }) => {
                            out.push(canon::bindings(&bindings))
                        }
                        Err(t) => out.push(format!("error({})", canon::term(&t))),
                    }
                    if n >= max {
                        out.push("...".into());
                        break;
                    }
                }
                out.join(" ;; ")
            }))
        };
        self.disarm();
        match res {
            Ok(s) => {
                if s.contains("'$interrupt_thrown'") || s.contains("$interrupt_thrown") {
                    // watchdog fired
                    format!("timeout")
                } else {
                    s
                }
            }
            Err(e) => {
                self.machine = None;
                let msg = if let Some(s) = e.downcast_ref::<String>() {
                    s.clone()
                } else if let Some(s) = e.downcast_ref::<&str>() {
                    s.to_string()
                } else {
                    "?".into()
                };
                let msg: String = msg.chars().take(120).collect();
                format!("panic({})", escape(&msg))
            }
        }
    }
}

fn main() {
    // silence panic messages on stderr unless asked
    if std::env::var("SV_PANIC_VERBOSE").is_err() {
        std::panic::set_hook(Box::new(|_| {}));
    }
    let args: Vec<String> = std::env::args().collect();
    let timeout_ms: u64 = std::env::var("SV_TIMEOUT_MS")
        .ok()
        .and_then(|s| s.parse().ok())
        .unwrap_or(10_000);
    let mut ctx = Ctx {
        machine: None,
        wd_gen: Arc::new(AtomicU64::new(0)),
        timeout_ms,
    };
    let stdin = io::stdin();
    let stdout = io::stdout();
    let mut out = io::BufWriter::new(stdout.lock());
    let _ = args;
    for line in stdin.lock().lines() {
        let line = match line {
            Ok(l) => l,
            Err(_) => break,
        };
        if line.is_empty() || line.starts_with('#') {
            continue;
        }
        let f: Vec<&str> = line.split('\t').collect();
        let id = f.get(1).copied().unwrap_or("?");
        let res: String = match f[0] {
            "Q" => {
                let max: usize = f.get(2).and_then(|s| s.parse().ok()).unwrap_or(20);
                let text = unescape(f.get(3).copied().unwrap_or("true."));
                ctx.query(&text, max)
            }
            "L" => {
                let module = f.get(2).copied().unwrap_or("user").to_string();
                let prog = unescape(f.get(3).copied().unwrap_or(""));
                let _ = ctx.machine(); // build before arming the watchdog
                ctx.arm();
                let r = {
                    let m = ctx.machine();
                    catch_unwind(AssertUnwindSafe(|| {
                        m.consult_module_string(&module, prog);
                    }))
                };
                ctx.disarm();
                match r {
                    Ok(()) => "loaded".into(),
                    Err(_) => {
                        ctx.machine = None;
                        "panic(load)".into()
                    }
                }
            }
            "R" => {
                ctx.reset();
                "reset".into()
            }
            other => match fam::dispatch(&mut ctx, other, &f) {
                Some(s) => s,
                None => format!("bad-op({})", other),
            },
        };
        let _ = writeln!(out, "{}\t{}", id, res);
        let _ = out.flush();
    }
}
