// Canonical text for library `Term`s. The Lean model driver prints the same syntax.
//   integer      123 / -123
//   rational     r(N,D)
//   float        f(<16 hex digits of the IEEE bits>)
//   atom         'text' (always quoted; \\ \' and \xHH\ escapes for non-printables)
//   string       "text" (a proper list of one-char atoms; same escapes, \" for ")
//   list         [a,b]        partial list / dotted pair: '.'(h,t)
//   compound     'f'(a,b)
//   variable     query-named variables keep their name; `_A`-style generated names are
//                renamed _G0,_G1.. in order of first occurrence
use scryer_prolog::Term;
use std::collections::BTreeMap;

fn esc(s: &str, q: char, out: &mut String) {
    for c in s.chars() {
        if c == '\\' {
            out.push_str("\\\\");
        } else if c == q {
            out.push('\\');
            out.push(c);
        } else if (c as u32) < 0x20 || c as u32 == 0x7f {
            out.push_str(&format!("\\x{:x}\\", c as u32));
        } else {
            out.push(c);
        }
    }
}

pub struct Namer {
    map: Vec<(String, String)>,
}

impl Namer {
    pub fn new() -> Self {
        Namer { map: vec![] }
    }
    fn name(&mut self, v: &str) -> String {
        let gen = v.starts_with('_')
            && v.len() > 1
            && v[1..].chars().all(|c| c.is_ascii_uppercase());
        if !gen {
            return v.to_string();
        }
        for (k, n) in &self.map {
            if k == v {
                return n.clone();
            }
        }
        let n = format!("_G{}", self.map.len());
        self.map.push((v.to_string(), n.clone()));
        n
    }
}

pub fn term_into(t: &Term, nm: &mut Namer, out: &mut String) {
    match t {
        Term::Integer(i) => out.push_str(&i.to_string()),
        Term::Rational(r) => {
            out.push_str(&format!("r({},{})", r.numerator(), r.denominator()));
        }
        Term::Float(f) => out.push_str(&format!("f({:016x})", f.to_bits())),
        Term::Atom(a) => {
            out.push('\'');
            esc(a, '\'', out);
            out.push('\'');
        }
        Term::String(s) => {
            out.push('"');
            esc(s, '"', out);
            out.push('"');
        }
        Term::List(v) => {
            out.push('[');
            for (i, e) in v.iter().enumerate() {
                if i > 0 {
                    out.push(',');
                }
                term_into(e, nm, out);
            }
            out.push(']');
        }
        Term::Compound(f, args) => {
            out.push('\'');
            esc(f, '\'', out);
            out.push('\'');
            out.push('(');
            for (i, e) in args.iter().enumerate() {
                if i > 0 {
                    out.push(',');
                }
                term_into(e, nm, out);
            }
            out.push(')');
        }
        Term::Var(v) => {
            let n = nm.name(v);
            out.push_str(&n);
        }
        _ => out.push_str("?unknown-term?"),
    }
}

pub fn term(t: &Term) -> String {
    let mut s = String::new();
    term_into(t, &mut Namer::new(), &mut s);
    s
}

pub fn bindings(b: &BTreeMap<String, Term>) -> String {
    let mut s = String::from("{");
    let mut nm = Namer::new();
    for (i, (k, v)) in b.iter().enumerate() {
        if i > 0 {
            s.push(',');
        }
        s.push_str(k);
        s.push('=');
        term_into(v, &mut nm, &mut s);
    }
    s.push('}');
    s
}
