// C35: footprint of the current machine (through `scryer_prolog::verif_hooks::machine_footprint`)
// and the second public load entry point (`Machine::load_module_string`).
use crate::Ctx;
use std::panic::{catch_unwind, AssertUnwindSafe};

/// FP <id>                      ->  "name=value name=value ..." (sizes of the machine's stores)
/// LM <id> <module> <program>   ->  load_module_string; "loaded" | "panic(load)"
pub fn dispatch(ctx: &mut Ctx, op: &str, f: &[&str]) -> Option<String> {
    match op {
        "FP" => {
            let m = ctx.machine();
            let fp = scryer_prolog::verif_hooks::machine_footprint(m);
            Some(
                fp.iter()
                    .map(|(k, v)| format!("{}={}", k, v))
                    .collect::<Vec<_>>()
                    .join(" "),
            )
        }
        "LM" => {
            let module = f.get(2).copied().unwrap_or("user").to_string();
            let prog = crate::unescape(f.get(3).copied().unwrap_or(""));
            let _ = ctx.machine(); // build before arming the watchdog
            ctx.arm();
            let r = {
                let m = ctx.machine();
                catch_unwind(AssertUnwindSafe(|| {
                    m.load_module_string(&module, prog);
                }))
            };
            ctx.disarm();
            Some(match r {
                Ok(()) => "loaded".into(),
                Err(_) => {
                    ctx.machine = None;
                    "panic(load)".into()
                }
            })
        }
        _ => None,
    }
}
