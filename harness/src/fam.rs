// Family-specific operations (internals reached through verif_hooks).
use crate::Ctx;
use std::panic::{catch_unwind, AssertUnwindSafe};


pub fn hex_decode(s: &str) -> Vec<u8> {
    let b = s.as_bytes();
    let mut out = Vec::with_capacity(b.len() / 2);
    let mut i = 0;
    while i + 1 < b.len() {
        let h = (b[i] as char).to_digit(16).unwrap_or(0) as u8;
        let l = (b[i + 1] as char).to_digit(16).unwrap_or(0) as u8;
        out.push(h * 16 + l);
        i += 2;
    }
    out
}

pub fn hex_encode(b: &[u8]) -> String {
    let mut s = String::with_capacity(b.len() * 2);
    for x in b {
        s.push_str(&format!("{:02x}", x));
    }
    s
}

/// CR <id> <chunk hex, comma separated> <script of p/r/b>
fn char_reader_script(chunks: &str, script: &str) -> String {
    let chunks: Vec<Vec<u8>> = if chunks.is_empty() {
        vec![]
    } else {
        chunks.split(',').map(hex_decode).collect()
    };
    let script = script.to_string();
    match catch_unwind(AssertUnwindSafe(|| {
        scryer_prolog::verif_hooks::char_reader_script(chunks, &script)
    })) {
        Ok(o) => o.join(" "),
        Err(_) => "PANIC".into(),
    }
}

/// U8 <id> <hex bytes>: std's decoding of the whole byte string, item by item.
fn std_decode(bytes: &[u8]) -> String {
    let mut out: Vec<String> = Vec::new();
    let mut rest = bytes;
    loop {
        match std::str::from_utf8(rest) {
            Ok(s) => {
                for c in s.chars() {
                    out.push(format!("c{:x}", c as u32));
                }
                break;
            }
            Err(e) => {
                let v = e.valid_up_to();
                for c in std::str::from_utf8(&rest[..v]).unwrap().chars() {
                    out.push(format!("c{:x}", c as u32));
                }
                let n = e.error_len().unwrap_or(rest.len() - v);
                out.push(format!("x{}", hex_encode(&rest[v..v + n])));
                rest = &rest[v + n..];
            }
        }
    }
    out.join(" ")
}

pub fn dispatch(_ctx: &mut Ctx, op: &str, f: &[&str]) -> Option<String> {
    match op {
        "CR" => Some(char_reader_script(
            f.get(2).copied().unwrap_or(""),
            f.get(3).copied().unwrap_or(""),
        )),
        "U8" => Some(std_decode(&hex_decode(f.get(2).copied().unwrap_or("")))),
        // further families live in their own files (fam_cxx.rs); chain them here
        _ => match crate::fam_c33::dispatch(_ctx, op, f) {
            Some(s) => Some(s),
            None => match crate::fam_c32::dispatch(_ctx, op, f) {
                Some(s) => Some(s),
                None => match crate::fam_c19::dispatch(_ctx, op, f) {
                    Some(s) => Some(s),
                    None => match crate::fam_c35::dispatch(_ctx, op, f) {
                        Some(s) => Some(s),
                        None => match crate::fam_c29::dispatch(_ctx, op, f) {
                            Some(s) => Some(s),
                            None => crate::fam_c30::dispatch(_ctx, op, f),
                        },
                    },
                },
            },
        },
    }
}
