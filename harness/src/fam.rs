// Family-specific operations (internals reached through verif_hooks).
use crate::Ctx;

pub fn dispatch(_ctx: &mut Ctx, _op: &str, _f: &[&str]) -> Option<String> {
    None
}
