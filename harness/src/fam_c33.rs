// C33 / C20: heap operation scripts on the real `machine::heap::Heap`
// (through `scryer_prolog::verif_hooks::heap_script`).
use crate::Ctx;
use std::panic::{catch_unwind, AssertUnwindSafe};

/// HS <id> <cap_cells> <op;op;...>  ->  one report token per executed operation, space separated
pub fn dispatch(_ctx: &mut Ctx, op: &str, f: &[&str]) -> Option<String> {
    match op {
        "HS" => {
            let cap: usize = f.get(2).and_then(|s| s.parse().ok()).unwrap_or(0);
            let ops: Vec<String> = f
                .get(3)
                .copied()
                .unwrap_or("")
                .split(';')
                .map(|s| s.trim().to_string())
                .filter(|s| !s.is_empty())
                .collect();
            Some(
                match catch_unwind(AssertUnwindSafe(|| {
                    scryer_prolog::verif_hooks::heap_script(cap, &ops)
                })) {
                    Ok(o) => o.join(" "),
                    Err(_) => "PANIC".into(),
                },
            )
        }
        _ => None,
    }
}
