// C32: concurrent atom interning on a fresh global atom table
// (through `scryer_prolog::verif_atomrace`).
//
//   AS <id> <init_size> <scripts> <schedule>          scheduled run  -> "<trace> | <report>"
//   AF <id> <init_size> <scripts> <yield_mask> <seed> free-running threads -> "<report>"
//   AM <id> <init_size> <scripts> <yield_mask> <seed> one Machine per thread -> "<report>"
//   AX <id> <texts>                                   which texts are static atoms -> "1,0,…"
// <scripts>: threads separated by `|`, texts by `,`, each text the hex of its UTF-8 bytes
// (`-` = empty text, `.` = empty script); <schedule>: space separated thread ids; <texts>: as one
// script.  The harness' own machine is dropped first (the hook needs a process without a live
// atom table); it is rebuilt lazily by the next Q/L line.
use crate::fam::hex_decode;
use crate::Ctx;
use std::panic::{catch_unwind, AssertUnwindSafe};

fn text(h: &str) -> String {
    if h == "-" {
        String::new()
    } else {
        String::from_utf8_lossy(&hex_decode(h)).into_owned()
    }
}

fn scripts(s: &str) -> Vec<Vec<String>> {
    s.split('|')
        .map(|th| {
            if th == "." || th.is_empty() {
                vec![]
            } else {
                th.split(',').map(text).collect()
            }
        })
        .collect()
}

pub fn dispatch(ctx: &mut Ctx, op: &str, f: &[&str]) -> Option<String> {
    let arg = |i: usize| f.get(i).copied().unwrap_or("");
    let run = |g: &dyn Fn() -> String| -> String {
        match catch_unwind(AssertUnwindSafe(g)) {
            Ok(s) => s,
            Err(_) => "PANIC".into(),
        }
    };
    match op {
        "AS" => {
            ctx.reset();
            let init: usize = arg(2).parse().unwrap_or(64);
            let sc = scripts(arg(3));
            let sched: Vec<usize> = arg(4)
                .split_whitespace()
                .filter_map(|x| x.parse().ok())
                .collect();
            Some(run(&|| {
                scryer_prolog::verif_atomrace::atom_race_scheduled(init, sc.clone(), &sched)
            }))
        }
        "AF" | "AM" => {
            ctx.reset();
            let init: usize = arg(2).parse().unwrap_or(64);
            let sc = scripts(arg(3));
            let mask: u32 = arg(4).parse().unwrap_or(0);
            let seed: u64 = arg(5).parse().unwrap_or(1);
            Some(run(&|| {
                if op == "AF" {
                    scryer_prolog::verif_atomrace::atom_race_free(init, sc.clone(), mask, seed)
                } else {
                    scryer_prolog::verif_atomrace::atom_race_machines(init, sc.clone(), mask, seed)
                }
            }))
        }
        "AX" => {
            let texts: Vec<String> = if arg(2).is_empty() {
                vec![]
            } else {
                arg(2).split(',').map(text).collect()
            };
            let r = scryer_prolog::verif_atomrace::atom_static_texts(&texts);
            Some(
                r.iter()
                    .map(|b| if *b { "1" } else { "0" })
                    .collect::<Vec<_>>()
                    .join(","),
            )
        }
        _ => None,
    }
}
