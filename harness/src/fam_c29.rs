// C29: the real toplevel ('$toplevel':'$repl'/0) run in-process with a scripted keyboard
// (through `scryer_prolog::verif_hooks::{set_key_script, clear_key_script, run_toplevel}`).
//
//   TLM <id> <input>                 replace the harness' machine by a fresh one whose user_input is the
//                                    (escaped) text <input> = the lines that will be typed at the prompt;
//                                    user_output / user_error are in-memory streams -> "ok".
//                                    Later L / Q lines act on that machine as usual (they do not read
//                                    user_input).
//   TL <id> <keys> <fallback>        run the toplevel on that machine until it halts at the end of its
//                                    input; get_single_char/1 is answered from <keys> (escaped text, one
//                                    byte per call) and then from <fallback> (one character, or `-` for
//                                    none: the call then raises the error of a failed terminal read)
//                                    -> "exit=<code> left=<unread keys> out=<escaped user_output>\x1ferr=<escaped user_error>"
//                                    The machine is dropped afterwards (it has halted).
// The input is a `&'static str` stream (the text is leaked, a few hundred bytes per TLM): an owned string
// stream is rewound by '$read_query_term' before every query, and an input channel cannot put back a
// character (`1.` loses its end token).
use crate::{escape, unescape, Ctx};
use scryer_prolog::{InputStreamConfig, MachineBuilder, OutputStreamConfig, StreamConfig};
use std::cell::Cell;
use std::panic::{catch_unwind, AssertUnwindSafe};

thread_local! {
    static READY: Cell<bool> = const { Cell::new(false) };
}

fn fresh(ctx: &mut Ctx, input: String) {
    let input: &'static str = Box::leak(input.into_boxed_str());
    let streams = StreamConfig::in_memory()
        .with_user_input(InputStreamConfig::string(input))
        .with_user_output(OutputStreamConfig::memory())
        .with_user_error(OutputStreamConfig::memory());
    let mut m = MachineBuilder::default().with_streams(streams).build();
    // mark the machine: after a panic in a later Q line the harness silently builds a default machine
    let _ = m.run_query("assertz('$sv_tlm').").count();
    ctx.machine = Some(m);
    READY.with(|r| r.set(true));
}

pub fn dispatch(ctx: &mut Ctx, op: &str, f: &[&str]) -> Option<String> {
    let arg = |i: usize| f.get(i).copied().unwrap_or("");
    match op {
        "TLM" => {
            fresh(ctx, unescape(arg(2)));
            Some("ok".into())
        }
        "TL" => {
            if ctx.machine.is_none() || !READY.with(|r| r.get()) {
                return Some("no-toplevel-machine".into());
            }
            READY.with(|r| r.set(false));
            let marked = {
                let m = ctx.machine.as_mut().unwrap();
                matches!(
                    catch_unwind(AssertUnwindSafe(|| {
                        m.run_query("'$sv_tlm'.")
                            .next()
                            .map_or(false, |a| matches!(a, Ok(scryer_prolog::LeafAnswer::True)))
                    })),
                    Ok(true)
                )
            };
            if !marked {
                ctx.machine = None;
                return Some("no-toplevel-machine".into());
            }
            let keys = unescape(arg(2));
            let fallback = match arg(3) {
                "-" | "" => None,
                s => Some(unescape(s).as_bytes()[0]),
            };
            scryer_prolog::verif_hooks::set_key_script(keys.as_bytes(), fallback);
            ctx.arm();
            let res = {
                let m = ctx.machine.as_mut().unwrap();
                catch_unwind(AssertUnwindSafe(|| scryer_prolog::verif_hooks::run_toplevel(m)))
            };
            ctx.disarm();
            let left = scryer_prolog::verif_hooks::clear_key_script();
            ctx.machine = None;
            Some(match res {
                Ok((code, out, err)) => {
                    let code: String = code.chars().filter(|c| c.is_ascii_digit()).collect();
                    format!("exit={} left={} out={}\x1ferr={}", code, left, escape(&out), escape(&err))
                }
                Err(_) => "PANIC".into(),
            })
        }
        _ => None,
    }
}
