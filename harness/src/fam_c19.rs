// C19: in-memory input streams. No hook into /repo is needed: the public builder API is enough.
//
//   MS <id> <hex bytes (valid UTF-8)>   drop the machine and build a fresh one whose `user_input`
//                                       is an in-memory stream (`InputStreamConfig::string` with an
//                                       owned String, i.e. `Stream::Byte`) holding that text.
//                                       Result: `memory(<n bytes>)` or `bad-utf8`.
// Later `Q` lines of the same case read it through the alias `user_input`.
use crate::Ctx;
use scryer_prolog::{InputStreamConfig, MachineBuilder, StreamConfig};

pub fn dispatch(ctx: &mut Ctx, op: &str, f: &[&str]) -> Option<String> {
    match op {
        "MS" => {
            let bytes = crate::fam::hex_decode(f.get(2).copied().unwrap_or(""));
            let n = bytes.len();
            match String::from_utf8(bytes) {
                Ok(s) => {
                    let streams =
                        StreamConfig::in_memory().with_user_input(InputStreamConfig::string(s));
                    ctx.machine = Some(MachineBuilder::default().with_streams(streams).build());
                    Some(format!("memory({})", n))
                }
                Err(_) => Some("bad-utf8".into()),
            }
        }
        _ => None,
    }
}
