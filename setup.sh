#!/bin/sh
# MANIFEST.setup_cmd: build the framework from files on disk only (offline).
set -e
cd "$(dirname "$0")"
mkdir -p build evidence replays
export CARGO_NET_OFFLINE=true
export CARGO_TARGET_DIR="$PWD/build/target"
[ -f harness/Cargo.lock ] || cp /repo/Cargo.lock harness/Cargo.lock
(cd harness && cargo build --release --offline 2>&1 | tail -3)
(cd lean && lake build 2>&1 | tail -3)
echo setup-done
