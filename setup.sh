#!/bin/sh
# MANIFEST.setup_cmd: build the framework from files on disk only (offline).
set -e
cd "$(dirname "$0")"
mkdir -p build evidence replays
export CARGO_NET_OFFLINE=true
export CARGO_TARGET_DIR="$PWD/build/target"
[ -f harness/Cargo.lock ] || cp /repo/Cargo.lock harness/Cargo.lock
(cd harness && cargo build --release --offline 2>&1 | tail -3)
# Lean: every claimed property's theorem module and driver executable
TARGETS=$(python3 -c "
import json
m=json.load(open('MANIFEST.json'))
print(' '.join('ScryerModel.Props.%s drv_%s' % (c['property_id'], c['property_id']) for c in m['checks']))")
(cd lean && lake build $TARGETS 2>&1 | tail -5)
echo setup-done
