import ScryerModel.Drv.Util
import ScryerModel.Drv.Arith
/- modeldriver: one operation per line on stdin (TAB separated: family, id, args…),
   one result line `<id>\t<result>` on stdout. -/
open Scryer.Drv

def handle (line : String) : String :=
  match fields line with
  | "arith" :: id :: expr :: _ => s!"{id}\t{arithLine expr}"
  | "arithspec" :: id :: expr :: _ => s!"{id}\t{arithSpecLine expr}"
  | _ :: id :: _ => s!"{id}\tbad-op"
  | _ => "?\tbad-op"

partial def loop (h : IO.FS.Stream) (out : IO.FS.Stream) : IO Unit := do
  let line ← h.getLine
  if line.isEmpty then return ()
  let l := (line.dropRightWhile (fun c => c == '\n' || c == '\r'))
  if l.isEmpty || l.startsWith "#" then
    loop h out
  else
    out.putStrLn (handle l)
    loop h out

def main : IO Unit := do
  let out ← IO.getStdout
  loop (← IO.getStdin) out
  out.flush
