import ScryerModel.Model.ArithInt
