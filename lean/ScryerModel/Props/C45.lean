import ScryerModel.Proofs.ReadVars
/-!
# C45 — read_term/2 reports variables, names and singletons exactly

`Model/ReadVars.lean` has two layers.

* The **specification** over the clause's variable occurrences (`occsOf toks`, left to right):
  `specVariables` (distinct variables, first occurrence first; every `_` is its own variable),
  `specVariableNames` (`Name=Var` for the named ones, same order), `specSingletons` (the named
  ones — `_`-prefixed included — whose variable occurs once).
* The **mechanism**, mirrored from `read.rs`/`machine_state.rs`: the dictionary filled in the
  heap writer's visiting order (ANY permutation `order` of the occurrence positions — the code's
  order is breadth-first), `IndexMap` insert-or-replace for anonymous variables under the key
  `akey position`, the pre-order walk computing first-visit flags and indices, the stable sort by
  index.

`C45_mechanism_eq_spec` proves mechanism = specification for every clause, every visiting order and
every injective `akey`. The code pinned at the start of this work used a key that is NOT injective
(the heap length, equal for neighbouring anonymous variables): `C45_pinned_key_collision` shows
that this loses variables (finding C45-1; the repaired code keys by argument site).
-/
namespace Scryer.ReadVars
open List

/-! ## Tokens -/

/-- `_` alone is the anonymous variable; every other variable token — `_A`, `__`, `_1` included —
    is a named variable carrying its full text as name. -/
theorem C45_classify (name : String) :
    (name = "_" → classify name = .anon) ∧ (name ≠ "_" → classify name = .named name) := by
  unfold classify
  constructor <;> intro h <;> simp [h]

/-- Layout and comments between the tokens do not change the variable occurrences (and so none
    of the three lists). -/
theorem C45_layout_irrelevant (toks : List Tok) :
    occsOf (toks.filter (· != .layout)) = occsOf toks := by
  induction toks with
  | nil => rfl
  | cons t r ih =>
    cases t with
    | other => rw [filter_cons_of_pos (by decide)]; simpa [occsOf] using ih
    | layout => rw [filter_cons_of_neg (by decide)]; simpa [occsOf] using ih
    | var n =>
      rw [filter_cons_of_pos (by simp)]
      simp only [occsOf, ih]

/-- Tokens that are not variable tokens (atoms, quoted atoms, strings, numbers, `0'c`, punctuation)
    contribute nothing, wherever they stand. -/
theorem C45_other_tokens_irrelevant (toks : List Tok) :
    occsOf (toks.filter (· != .other)) = occsOf toks := by
  induction toks with
  | nil => rfl
  | cons t r ih =>
    cases t with
    | other => rw [filter_cons_of_neg (by decide)]; simpa [occsOf] using ih
    | layout => rw [filter_cons_of_pos (by decide)]; simpa [occsOf] using ih
    | var n =>
      rw [filter_cons_of_pos (by simp)]
      simp only [occsOf, ih]

/-! ## Identity of variables -/

/-- Two occurrences denote the same variable iff they are the same occurrence or carry the same
    name: same name ⇒ same variable, different names ⇒ different variables, and an anonymous
    occurrence is different from every other occurrence. -/
theorem C45_variable_identity (occs : List Occ) (i j : Nat) (hi : i < occs.length) (hj : j < occs.length) :
    (varsOf occs)[i]? = (varsOf occs)[j]? ↔
      i = j ∨ ∃ n, occs[i]? = some (.named n) ∧ occs[j]? = some (.named n) := by
  rw [getElem?_varsOf, getElem?_varsOf, getElem?_eq_getElem hi, getElem?_eq_getElem hj]
  simp only [Option.map_some, Option.some.injEq]
  cases h1 : occs[i] with
  | named a =>
    cases h2 : occs[j] with
    | named b =>
      simp only [toV, V.named.injEq, Occ.named.injEq]
      constructor
      · intro h; exact Or.inr ⟨a, rfl, h.symm⟩
      · rintro (h | ⟨n, rfl, rfl⟩)
        · subst h; rw [h1] at h2; cases h2; rfl
        · rfl
    | anon =>
      simp only [toV, reduceCtorEq, and_false, exists_false, or_false, false_iff]
      intro h; subst h; rw [h1] at h2; cases h2
  | anon =>
    cases h2 : occs[j] with
    | named b =>
      simp only [toV, reduceCtorEq, false_and, exists_false, or_false, false_iff]
      intro h; subst h; rw [h1] at h2; cases h2
    | anon =>
      simp only [toV, V.site.injEq, reduceCtorEq, false_and, exists_false, or_false]

/-! ## The specification has the properties the statement asks for -/

/-- `variables/1`: no duplicates, exactly the variables of the term, a subsequence of the
    occurrence sequence, ordered by first occurrence. -/
theorem C45_variables (occs : List Occ) :
    (specVariables occs).Nodup ∧
    (∀ v, v ∈ specVariables occs ↔ v ∈ varsOf occs) ∧
    (specVariables occs).Sublist (varsOf occs) ∧
    (specVariables occs).Pairwise (fun a b => (varsOf occs).idxOf a < (varsOf occs).idxOf b) :=
  ⟨nodup_dedupFirst _, fun _ => mem_dedupFirst, dedupFirst_sublist _, dedupFirst_order _⟩

/-- every anonymous occurrence is a variable of its own in `variables/1`. -/
theorem C45_anonymous_in_variables (occs : List Occ) (i : Nat) (h : occs[i]? = some .anon) :
    V.site i ∈ specVariables occs := by
  rw [specVariables, mem_dedupFirst, mem_iff_getElem?]
  exact ⟨i, by rw [getElem?_varsOf, h]; rfl⟩

theorem mem_varsOf_named (occs : List Occ) (n : String) : V.named n ∈ varsOf occs ↔ Occ.named n ∈ occs := by
  simp only [mem_iff_getElem?, getElem?_varsOf]
  constructor
  · rintro ⟨i, hi⟩
    cases h : occs[i]? with
    | none => simp [h] at hi
    | some o =>
      cases o with
      | named m => simp [h, toV] at hi; exact ⟨i, by rw [h, hi]⟩
      | anon => simp [h, toV] at hi
  · rintro ⟨i, hi⟩; exact ⟨i, by simp [hi, toV]⟩

/-- `variable_names/1`: exactly one `Name=Var` per name occurring in the clause, `Var` being the
    variable of that name (an anonymous variable is never named), names pairwise different, and
    the variables in the same relative order as in `variables/1`. -/
theorem C45_variable_names (occs : List Occ) :
    (∀ e, e ∈ specVariableNames occs ↔ ∃ n, e = (n, V.named n) ∧ Occ.named n ∈ occs) ∧
    ((specVariableNames occs).map (·.1)).Nodup ∧
    ((specVariableNames occs).map (·.2)).Sublist (specVariables occs) := by
  refine ⟨?_, ?_, ?_⟩
  · intro e
    simp only [specVariableNames, mem_filterMap]
    constructor
    · rintro ⟨v, hv, he⟩
      cases v with
      | named n =>
        simp only [nameEntry, Option.some.injEq] at he
        exact ⟨n, he.symm, (mem_varsOf_named occs n).mp (mem_dedupFirst.mp hv)⟩
      | site i => simp [nameEntry] at he
    · rintro ⟨n, rfl, hn⟩
      exact ⟨.named n, mem_dedupFirst.mpr ((mem_varsOf_named occs n).mpr hn), rfl⟩
  · have hnd := nodup_dedupFirst (varsOf occs)
    unfold specVariableNames specVariables
    generalize dedupFirst (varsOf occs) = L at hnd
    induction L with
    | nil => simp
    | cons v L ih =>
      rw [nodup_cons] at hnd
      cases v with
      | site i => simpa [filterMap_cons, nameEntry] using ih hnd.2
      | named n =>
        simp only [filterMap_cons, nameEntry, map_cons, nodup_cons]
        refine ⟨?_, ih hnd.2⟩
        intro hmem
        obtain ⟨e, he, hen⟩ := mem_map.mp hmem
        obtain ⟨w, hw, hwe⟩ := mem_filterMap.mp he
        cases w with
        | named m =>
          simp only [nameEntry, Option.some.injEq] at hwe
          subst hwe
          simp only at hen
          subst hen
          exact hnd.1 hw
        | site i => simp [nameEntry] at hwe
  · unfold specVariableNames
    generalize specVariables occs = L
    induction L with
    | nil => simp
    | cons v L ih =>
      cases v with
      | site i => simpa [filterMap_cons, nameEntry] using ih.cons (V.site i)
      | named n => simpa [filterMap_cons, nameEntry] using ih.cons_cons (V.named n)

theorem count_varsOf_named_aux (n : String) : ∀ (l : List Occ) (k : Nat),
    (l.mapIdx fun i => toV (i + k)).count (V.named n) = l.count (Occ.named n)
  | [], _ => rfl
  | o :: l, k => by
    rw [mapIdx_cons]
    have ih := count_varsOf_named_aux n l (k + 1)
    have hf : (fun i => toV (i + 1 + k)) = fun i => toV (i + (k + 1)) := by
      funext i; rw [Nat.add_assoc, Nat.add_comm 1 k]
    rw [hf]
    cases o with
    | named m =>
      by_cases h : m = n
      · subst h; simp [toV, ih]
      · have h1 : V.named m ≠ V.named n := by simp [h]
        have h2 : Occ.named m ≠ Occ.named n := by simp [h]
        simp only [toV]
        rw [count_cons_of_ne h1, count_cons_of_ne h2, ih]
    | anon =>
      have h1 : V.site (0 + k) ≠ V.named n := by simp
      have h2 : Occ.anon ≠ Occ.named n := by simp
      simp only [toV]
      rw [count_cons_of_ne h1, count_cons_of_ne h2, ih]

theorem count_varsOf_named (occs : List Occ) (n : String) :
    (varsOf occs).count (V.named n) = occs.count (Occ.named n) := by
  have := count_varsOf_named_aux n occs 0
  simpa [varsOf] using this

/-- `singletons/1`: exactly the names that occur once in the clause (whether or not they start
    with `_`), each with its variable; a sub-list of `variable_names/1`. -/
theorem C45_singletons (occs : List Occ) :
    (∀ e, e ∈ specSingletons occs ↔ ∃ n, e = (n, V.named n) ∧ occs.count (Occ.named n) = 1) ∧
    (specSingletons occs).Sublist (specVariableNames occs) := by
  refine ⟨?_, filter_sublist⟩
  intro e
  simp only [specSingletons, mem_filter, (C45_variable_names occs).1 e, beq_iff_eq]
  constructor
  · rintro ⟨⟨n, rfl, _⟩, hc⟩
    exact ⟨n, rfl, by rwa [count_varsOf_named] at hc⟩
  · rintro ⟨n, rfl, hc⟩
    refine ⟨⟨n, rfl, ?_⟩, by rwa [count_varsOf_named]⟩
    exact count_pos_iff.mp (by omega)

/-- an `_`-prefixed name that occurs once IS reported as a singleton (the statement's
    "including _-prefixed ones"), an anonymous variable never. -/
example : specSingletons (occsOf [.var "_A", .other, .var "_", .var "B", .var "B"]) = [("_A", .named "_A")] := by
  decide

/-! ## The mirrored mechanism computes the specification -/

/-- For every clause, every order in which the heap writer meets the occurrences and every
    injective key for anonymous variables: `variables` and `variable_names` are exactly the
    specified lists, `singletons` is the specified list up to order. -/
theorem C45_mechanism_eq_spec (akey : Nat → Nat) (hk : ∀ i j, akey i = akey j → i = j) (occs : List Occ)
    (order : List Nat) (hp : order ~ List.range occs.length) :
    (mechanism akey occs order).variables = specVariables occs ∧
    (mechanism akey occs order).variableNames = specVariableNames occs ∧
    (mechanism akey occs order).singletons ~ specSingletons occs := by
  obtain ⟨h1, h2, h3⟩ := mechanism_eq akey hk occs hp
  refine ⟨h1, h2, ?_⟩
  rw [h3, specSingletons_eq]
  exact (dictVars_perm occs hp).filterMap _

/-- … hence the same singletons, each exactly once. -/
theorem C45_mechanism_singletons_mem (akey : Nat → Nat) (hk : ∀ i j, akey i = akey j → i = j)
    (occs : List Occ) (order : List Nat) (hp : order ~ List.range occs.length) (e : String × V) :
    e ∈ (mechanism akey occs order).singletons ↔ ∃ n, e = (n, V.named n) ∧ occs.count (Occ.named n) = 1 := by
  rw [(C45_mechanism_eq_spec akey hk occs order hp).2.2.mem_iff]
  exact (C45_singletons occs).1 e

/-- When the dictionary is filled in left-to-right order the three lists are the specification
    exactly, order of the singletons included. -/
theorem C45_mechanism_eq_spec_preorder (akey : Nat → Nat) (hk : ∀ i j, akey i = akey j → i = j)
    (occs : List Occ) : mechanism akey occs (List.range occs.length) = spec occs := by
  obtain ⟨h1, h2, h3⟩ := mechanism_eq akey hk occs (Perm.refl _)
  have h4 : (mechanism akey occs (List.range occs.length)).singletons = specSingletons occs := by
    rw [h3, specSingletons_eq, ← length_varsOf, filterMap_getElem?_range]
  cases hm : mechanism akey occs (List.range occs.length)
  simp only [hm] at h1 h2 h4
  simp [spec, h1, h2, h4]

/-! ## Witnesses -/

/-- The pinned key (the heap length at the time the anonymous variable is met) is the same for
    neighbouring anonymous variables. With such a key the mechanism loses a variable:
    `f(_,_)` reports one variable instead of two. -/
theorem C45_pinned_key_collision :
    (mechanism (fun _ => 0) [.anon, .anon] [0, 1]).variables = [V.site 1] ∧
    specVariables [.anon, .anon] = [V.site 0, V.site 1] := by
  constructor <;> decide

/-- non-vacuity: a clause with repetition, `_`, `_A`; the heap writer's order differs from
    left-to-right (breadth-first on `f(g(A),B,_C,_,A,_)`: B,_C,_,A,_ before the nested A). -/
example :
    mechanism id (occsOf [.other, .var "A", .other, .var "B", .var "_C", .layout, .var "_", .var "A", .var "_"])
      [1, 2, 3, 4, 5, 0] =
    { variables := [.named "A", .named "B", .named "_C", .site 3, .site 5],
      variableNames := [("A", .named "A"), ("B", .named "B"), ("_C", .named "_C")],
      singletons := [("B", .named "B"), ("_C", .named "_C")] } := by decide

example : [1, 2, 3, 4, 5, 0] ~ List.range 6 := by decide

end Scryer.ReadVars
