import ScryerModel.Model.ReadVars
/-! # C45 — read_term/2 reports variables, names and singletons exactly (work in progress) -/
namespace Scryer.ReadVars

/-- Layout and comments between the tokens do not change the variable occurrences. -/
theorem C45_layout_irrelevant (toks : List Tok) :
    occsOf (toks.filter (· != .layout)) = occsOf toks := by
  induction toks with
  | nil => rfl
  | cons t r ih =>
    cases t <;> simp_all [List.filter, occsOf]

end Scryer.ReadVars
