import ScryerModel.Proofs.Cleanup
/-
C12 — Exceptions unwind precisely and leave the machine consistent.

The theorems are about `Scryer.Exc` (Model/Cleanup.lean): the shared reference interpreter
`Scryer.Solve` extended with observable side effects and `setup_call_cleanup/3`, and about
`Scryer.Exc.Proto`, the mirror of the machine's clean-up bookkeeping (`cont_pts`).  They hold for
every program, every goal, every nesting depth (`rec` is the interpreter one level down: any
function at all) and every fuel.  `drv_C12` runs exactly `Scryer.Exc.runTop`; vlib/props/C12.py
compares its traces with the implementation.
-/
namespace Scryer.Exc
open Scryer Scryer.Solve

/-! ## catch/3 and throw/1 -/

/-- `catch(G,C,R)` with `G` not raising a ball is `call(G)`: same side effects, same answers in the
    same order, same determinism, opaque to cut (the cut flag is `false`); `C` and `R` are not
    looked at. -/
theorem C12_catch_transparent_without_ball (rec : Term → XS → XRes) (n : Nat) (s : XS) (g c r : Term)
    (ho : (callInner rec n s g []).oof = false) (he : (callInner rec n s g []).exc = none) :
    catchRes rec n s g c r = callGoal rec n s g []
    ∧ (catchRes rec n s g c r).cut = false
    ∧ (catchRes rec n s g c r).items = joinItems s (callInner rec n s g []).items := by
  simp [catchRes, callGoal, leave, propagate, ho, he]

/-- A ball raised by `G` (after `G`'s earlier answers were delivered) that unifies with the catcher
    *under the substitution of the catch entry* `s.σ` is caught: the recovery goal runs like
    `call(R)` from `⟨σ', c'⟩`, where `σ'` is the entry substitution extended by the catcher
    unifier (so every binding `G` made before the throw is gone: `σ'` only has bindings in front of
    `s.σ`, none of them from `G`'s answers), and its result is the continuation of the trace. -/
theorem C12_catch_recovers_from_entry_substitution (rec : Term → XS → XRes) (n : Nat) (s : XS)
    (g c r ball : Term) (c' : Nat) (σ' : Subst)
    (ho : (callInner rec n s g []).oof = false)
    (he : (callInner rec n s g []).exc = some (ball, c'))
    (hu : unify n s.σ c ball = some (some σ')) :
    catchRes rec n s g c r =
      prepend (joinItems s (callInner rec n s g []).items)
        (leave (mkCall rec n) s (callInner rec n ⟨σ', c', s.det, s.pend⟩ r []))
    ∧ Extends σ' s.σ := by
  refine ⟨?_, unify_extends n s.σ c ball σ' hu⟩
  simp [catchRes, ho, he, hu]

/-- the recovery goal starts from a state that does not depend on what `G` did before the throw:
    two goals raising the same (copied) ball lead to the same recovery run. -/
theorem C12_recovery_state_independent_of_goal (rec : Term → XS → XRes) (n : Nat) (s : XS)
    (g1 g2 c r ball : Term) (c' : Nat) (σ' : Subst)
    (ho1 : (callInner rec n s g1 []).oof = false) (ho2 : (callInner rec n s g2 []).oof = false)
    (he1 : (callInner rec n s g1 []).exc = some (ball, c'))
    (he2 : (callInner rec n s g2 []).exc = some (ball, c'))
    (hu : unify n s.σ c ball = some (some σ')) :
    ∃ rR, catchRes rec n s g1 c r = prepend (joinItems s (callInner rec n s g1 []).items) rR
        ∧ catchRes rec n s g2 c r = prepend (joinItems s (callInner rec n s g2 []).items) rR := by
  refine ⟨leave (mkCall rec n) s (callInner rec n ⟨σ', c', s.det, s.pend⟩ r []), ?_, ?_⟩
  · exact (C12_catch_recovers_from_entry_substitution rec n s g1 c r ball c' σ' ho1 he1 hu).1
  · exact (C12_catch_recovers_from_entry_substitution rec n s g2 c r ball c' σ' ho2 he2 hu).1

/-- A ball that does not unify with the catcher passes through unchanged (same ball, same copy);
    the recovery goal is not run; the clean-up handlers pending in the scope run. -/
theorem C12_catch_nonmatching_ball_propagates (rec : Term → XS → XRes) (n : Nat) (s : XS)
    (g c r ball : Term) (c' : Nat)
    (ho : (callInner rec n s g []).oof = false)
    (he : (callInner rec n s g []).exc = some (ball, c'))
    (hu : unify n s.σ c ball = some none) :
    catchRes rec n s g c r =
      propagate (mkCall rec n) s ⟨joinItems s (callInner rec n s g []).items, false, some (ball, c'), false⟩ := by
  simp [catchRes, ho, he, hu]

/-- ... and the ball of the result is the same ball. -/
theorem C12_nonmatching_ball_is_unchanged (rec : Term → XS → XRes) (n : Nat) (s : XS)
    (g c r ball : Term) (c' : Nat)
    (ho : (callInner rec n s g []).oof = false)
    (he : (callInner rec n s g []).exc = some (ball, c'))
    (hu : unify n s.σ c ball = some none)
    (hr : (catchRes rec n s g c r).oof = false) :
    (catchRes rec n s g c r).exc = some (ball, c') := by
  rw [C12_catch_nonmatching_ball_propagates rec n s g c r ball c' ho he hu] at hr ⊢
  simp only [propagate] at hr ⊢
  split at hr
  · simp [XRes.oofR] at hr
  · simp only [if_false, Bool.false_eq_true]
    cases hf : fireExc (mkCall rec n) s.pend with
    | none => simp [hf, XRes.oofR] at hr
    | some its => simp

/-- Innermost catcher first: when the inner of two nested `catch/3` catches the ball and its recovery
    goal raises nothing, the outer `catch/3` never sees a ball — its catcher is not consulted and its
    recovery goal does not run, whatever they are.  (`rI` is the raw result of the inner catch goal
    run as the goal of the outer one.) -/
theorem C12_innermost_catcher_first (rec : Term → XS → XRes) (n : Nat) (s : XS)
    (inner c2 r2 c2' r2' : Term)
    (ho : (callInner rec n s inner []).oof = false) (he : (callInner rec n s inner []).exc = none) :
    catchRes rec n s inner c2 r2 = catchRes rec n s inner c2' r2' := by
  rw [(C12_catch_transparent_without_ball rec n s inner c2 r2 ho he).1,
      (C12_catch_transparent_without_ball rec n s inner c2' r2' ho he).1]

/-- A caught ball is gone: the result of a catch/3 whose catcher matched has exactly the ball of the
    recovery goal (if any), so an enclosing catch/3 only sees what the recovery raised (re-throw). -/
theorem C12_caught_ball_replaced_by_recovery_ball (rec : Term → XS → XRes) (n : Nat) (s : XS)
    (g c r ball : Term) (c' : Nat) (σ' : Subst)
    (ho : (callInner rec n s g []).oof = false)
    (he : (callInner rec n s g []).exc = some (ball, c'))
    (hu : unify n s.σ c ball = some (some σ'))
    (hr : (catchRes rec n s g c r).oof = false) :
    (catchRes rec n s g c r).exc = (callInner rec n ⟨σ', c', s.det, s.pend⟩ r []).exc := by
  rw [(C12_catch_recovers_from_entry_substitution rec n s g c r ball c' σ' ho he hu).1] at hr ⊢
  simp only [prepend] at hr ⊢
  split at hr
  · simp [XRes.oofR] at hr
  · rename_i h1
    simp only [h1, if_false, Bool.false_eq_true]
    simp only [leave] at h1 ⊢
    split at h1
    · simp [XRes.oofR] at h1
    · rename_i h2
      simp only [h2, if_false, Bool.false_eq_true] at h1 ⊢
      simp only [propagate] at h1 ⊢
      simp only [Bool.false_eq_true, if_false] at h1 ⊢
      cases hx : (callInner rec n ⟨σ', c', s.det, s.pend⟩ r []).exc with
      | none => simp
      | some e =>
        simp only [hx] at h1 ⊢
        cases hf : fireExc (mkCall rec n) s.pend with
        | none => simp [hf, XRes.oofR] at h1
        | some its => simp

/-- `throw(B)` raises a *copy* of `B`: resolved under the thrower's substitution and renamed apart
    with the branch counter, so later bindings of the variables of `B` (or their unbinding by the
    unwinding) do not affect the ball. -/
theorem C12_throw_copies_ball (n : Nat) (s : XS) (b b' : Term) (hr : resolve n s.σ b = some b')
    (hv : ∀ v, b' ≠ .var v) :
    throwX n s b = XRes.throw (rename (sfx s.ctr) b', s.ctr + 1) := by
  cases b' with
  | var v => exact absurd rfl (hv v)
  | _ => simp [throwX, hr]

/-- `throw(_)` with an unbound argument is an instantiation error. -/
theorem C12_throw_unbound (n : Nat) (s : XS) (b : Term) (v : String)
    (hr : resolve n s.σ b = some (.var v)) :
    throwX n s b = raiseX n s.σ s.ctr (mkError instErr) := by
  simp [throwX, hr]

/-! ## errors raised by builtins are `error(Formal, Context)` terms -/

theorem resolveList_length : ∀ (n : Nat) (σ : Subst) (as bs : List Term),
    resolveList n σ as = some bs → bs.length = as.length := by
  intro n
  induction n with
  | zero => intro σ as bs h; simp [resolveList] at h
  | succ n ih =>
    intro σ as bs h
    cases as with
    | nil => simp [resolveList] at h; subst h; rfl
    | cons a as =>
      simp only [resolveList] at h
      cases h1 : resolve n σ a with
      | none => simp [h1] at h
      | some a' =>
        rw [h1] at h
        cases h2 : resolveList n σ as with
        | none => simp [h2] at h
        | some as' =>
          rw [h2] at h
          simp at h
          subst h
          simp [ih σ as as' h2]

theorem renameList_length (sf : String) : ∀ (as : List Term), (renameList sf as).length = as.length := by
  intro as
  induction as with
  | nil => rfl
  | cons a as ih => simp [renameList, ih]

/-- every ball raised for a builtin error (type, instantiation, evaluation, existence, domain
    errors of the builtins, of `call/N`, of arithmetic, of unknown procedures) has the shape
    `error(Formal, Context)`. -/
theorem C12_builtin_errors_are_error_terms (n : Nat) (σ : Subst) (ctr : Nat) (formal : Term)
    (b : Term) (c' : Nat) (h : (raiseX n σ ctr (mkError formal)).exc = some (b, c')) :
    ∃ f ctx, b = .str "error" [f, ctx] := by
  simp only [raiseX, mkError] at h
  cases n with
  | zero => simp [resolve, XRes.oofR] at h
  | succ n =>
    simp only [resolve] at h
    cases hl : resolveList n σ [formal, ctxAtom] with
    | none => simp [hl, XRes.oofR] at h
    | some as =>
      have hlen := resolveList_length n σ _ as hl
      rw [hl] at h
      simp [XRes.throw, rename] at h
      obtain ⟨hb, _⟩ := h
      match as, hlen with
      | [x, y], _ => exact ⟨rename (sfx ctr) x, rename (sfx ctr) y, by rw [← hb]; simp [renameList]⟩

/-! ## setup_call_cleanup/3 in the interpreter -/

/-- whatever the goal of a `setup_call_cleanup/3` does — exits deterministically, exits leaving choice
    points any number of times and is then exhausted, fails, raises a ball after any number of
    answers — one complete traversal of its trace runs the handler exactly once (`items` is the
    goal's trace, `e` its final ball; handler and goal record no clean-up of their own). -/
theorem C12_cleanup_runs_exactly_once_per_traversal (call : Call) (s : XS) (p : Pending) :
    ∀ (items : List Item) (e : Option (Term × Nat)),
    Quiet call p.goal → cls items = 0 → (sccLoop call s p items e).oof = false →
    cls (sccLoop call s p items e).items = 1 := by
  intro items
  induction items with
  | nil =>
    intro e hq _ ho
    have h0 := hq p.σ0 p.ctr0
    cases e with
    | none =>
      simp only [sccLoop] at ho ⊢
      split at ho
      · simp [XRes.oofR] at ho
      · rename_i h1; simp [h1, h0]
    | some e =>
      simp only [sccLoop] at ho ⊢
      split at ho
      · simp [XRes.oofR] at ho
      · rename_i h1; simp [h1, h0]
  | cons it rest ih =>
    intro e hq hc ho
    cases it with
    | ans a =>
      simp only [sccLoop] at ho ⊢
      by_cases hd : a.det = true
      · simp only [hd, if_true] at ho ⊢
        have h0 := hq a.σ a.ctr
        by_cases h1 : (runClean call a.σ a.ctr p.goal).oof = true
        · simp [h1, XRes.oofR] at ho
        · simp only [h1, if_false, Bool.false_eq_true] at ho ⊢
          cases hx : (runClean call a.σ a.ctr p.goal).exc with
          | none => simp [h0]
          | some x => simp [h0]
      · simp only [hd, if_false, Bool.false_eq_true] at ho ⊢
        simp only [prepend] at ho ⊢
        by_cases h1 : (sccLoop call s p rest e).oof = true
        · simp [h1, XRes.oofR] at ho
        · simp only [h1, if_false, Bool.false_eq_true]
          have := ih e hq (by simpa using hc) (by simpa using h1)
          simp [this]
    | ev t =>
      simp only [sccLoop, prepend] at ho ⊢
      by_cases h1 : (sccLoop call s p rest e).oof = true
      · simp [h1, XRes.oofR] at ho
      · simp only [h1, if_false, Bool.false_eq_true]
        have := ih e hq (by simpa using hc) (by simpa using h1)
        simp [this]
    | su =>
      simp only [sccLoop, prepend] at ho ⊢
      by_cases h1 : (sccLoop call s p rest e).oof = true
      · simp [h1, XRes.oofR] at ho
      · simp only [h1, if_false, Bool.false_eq_true]
        have := ih e hq (by simpa using hc) (by simpa using h1)
        simp [this]
    | cl k => simp at hc

/-- an exit that leaves choice points does not run the handler: it hands it to whoever prunes or
    unwinds past the goal (newest handlers first: those of the goal itself, then this one, then the
    ones already pending in the scope), and the traversal goes on. -/
theorem C12_nondeterministic_exit_hands_over_handler (call : Call) (s : XS) (p : Pending) (a : XS)
    (rest : List Item) (e : Option (Term × Nat)) (hd : a.det = false) :
    sccLoop call s p (.ans a :: rest) e
      = prepend [.ans ⟨a.σ, a.ctr, false, a.pend ++ p :: s.pend⟩] (sccLoop call s p rest e) := by
  simp [sccLoop, hd]

/-- a deterministic exit runs the handler at once, keeps its bindings (or the goal's, if the handler
    fails), does not keep the handler pending, and ends the traversal: nothing that follows in the
    goal's trace is looked at. -/
theorem C12_deterministic_exit_runs_handler_now (call : Call) (s : XS) (p : Pending) (a : XS)
    (rest rest' : List Item) (e e' : Option (Term × Nat)) (hd : a.det = true) :
    sccLoop call s p (.ans a :: rest) e = sccLoop call s p (.ans a :: rest') e'
    ∧ ((runClean call a.σ a.ctr p.goal).oof = false → (runClean call a.σ a.ctr p.goal).exc = none →
        (sccLoop call s p (.ans a :: rest) e).items =
          .cl .exit :: (runClean call a.σ a.ctr p.goal).items ++
            [.ans ⟨((runClean call a.σ a.ctr p.goal).st.getD (a.σ, a.ctr)).1,
                   ((runClean call a.σ a.ctr p.goal).st.getD (a.σ, a.ctr)).2, s.det, a.pend ++ s.pend⟩]) := by
  constructor
  · simp [sccLoop, hd]
  · intro h1 h2
    simp [sccLoop, hd, h1, h2]

/-- failure of the goal: the handler runs from the state after the set-up goal; a ball of the goal:
    the same, and the ball is re-raised whatever the handler does. -/
theorem C12_failure_and_ball_run_handler_from_setup_state (call : Call) (s : XS) (p : Pending)
    (e : Term × Nat) (h : (runClean call p.σ0 p.ctr0 p.goal).oof = false) :
    sccLoop call s p [] none
      = ⟨.cl .fail :: (runClean call p.σ0 p.ctr0 p.goal).items, false,
          (runClean call p.σ0 p.ctr0 p.goal).exc, false⟩
    ∧ sccLoop call s p [] (some e)
      = ⟨.cl .exc :: (runClean call p.σ0 p.ctr0 p.goal).items, false, some e, false⟩ := by
  simp [sccLoop, h]

/-- a cut runs every handler pending in its cut scope exactly once (newest first) and leaves none
    pending; afterwards the scope is deterministic. -/
theorem C12_cut_runs_pending_handlers_once (call : Call) (s : XS)
    (hq : ∀ p ∈ s.pend, Quiet call p.goal) (ho : (cutRes call s).oof = false) :
    cls (cutRes call s).items = s.pend.length
    ∧ ∃ σ' c', answersOf (cutRes call s).items = [⟨σ', c', true, []⟩] := by
  simp only [cutRes] at ho ⊢
  by_cases h1 : (fireCut call s.pend s.σ s.ctr).oof = true
  · simp [h1, XRes.oofR] at ho
  · simp only [h1, if_false, Bool.false_eq_true]
    have := fireCut_cls call s.pend s.σ s.ctr hq (by simpa using h1)
    refine ⟨by simp [this], (fireCut call s.pend s.σ s.ctr).σ, (fireCut call s.pend s.σ s.ctr).ctr, ?_⟩
    simp [answersOf_append, fireCut_no_answers, answersOf]

/-- a ball leaving a cut scope runs every handler pending in that scope exactly once. -/
theorem C12_ball_runs_pending_handlers_once (call : Call) (s : XS) (r : XRes) (e : Term × Nat)
    (hq : ∀ p ∈ s.pend, Quiet call p.goal) (he : r.exc = some e)
    (ho : (propagate call s r).oof = false) :
    cls (propagate call s r).items = cls r.items + s.pend.length
    ∧ (propagate call s r).exc = some e := by
  simp only [propagate] at ho ⊢
  by_cases h1 : r.oof = true
  · simp [h1, XRes.oofR] at ho
  · simp only [h1, if_false, Bool.false_eq_true, he] at ho ⊢
    cases hf : fireExc call s.pend with
    | none => simp [hf, XRes.oofR] at ho
    | some its => simp [fireExc_cls call s.pend its hq hf]

/-! ## the machine's clean-up bookkeeping (`cont_pts`, `b_cutoff`, `run_cleaners`) -/

open Proto in
/-- For every sequence of operations (choice point pushes and pops, installations of handlers with
    distinct ids, exits, cuts to any level, failures into the helper's choice point, unwinding to any
    block): every installed handler is either still pending or has run, never both, and never ran
    twice; nothing else ever runs. -/
theorem C12_every_handler_runs_at_most_once_and_is_never_lost (ops : List Op)
    (hn : (installs ops).Nodup) (x : Nat) :
    ((run init ops).ran ++ ids (run init ops).cont).count x = if x ∈ installs ops then 1 else 0 := by
  rw [run_count x ops init]
  simp only [init, ids, List.map_nil, List.append_nil, List.count_nil, Nat.zero_add]
  split
  · rename_i hm; exact Proto.count_eq_one_of_nodup _ hn x hm
  · rename_i hm; exact List.count_eq_zero_of_not_mem hm

open Proto in
/-- ... and a handler is pending only while the choice point of its `scc_helper/3` exists: as soon
    as that choice point is gone — by a deterministic exit, a cut from outside, exhaustion, or a ball
    unwinding past it — the handler has run (by the previous theorem: exactly once). -/
theorem C12_handler_has_run_once_its_choice_point_is_gone (ops : List Op)
    (hn : (installs ops).Nodup) (id cutoff : Nat) (hi : id ∈ installs ops)
    (hgone : (id, cutoff) ∈ (run init ops).cont → False) (hid : ∀ c, (id, c) ∈ (run init ops).cont → c = cutoff) :
    (run init ops).ran.count id = 1 := by
  have h := C12_every_handler_runs_at_most_once_and_is_never_lost ops hn id
  simp only [hi, if_true, List.count_append] at h
  have : (ids (run init ops).cont).count id = 0 := by
    apply List.count_eq_zero_of_not_mem
    intro hm
    simp only [ids, List.mem_map] at hm
    obtain ⟨⟨i, c⟩, hm, rfl⟩ := hm
    exact hgone (by rw [← hid c hm]; exact hm)
  omega

open Proto in
/-- the pending entries always belong to live choice points, in stack order (the condition
    `b < b_cutoff` of `run_cleaners` is exactly what keeps this true: with `≤` the handler of a goal
    that is still running would be run by a cut *to* its own choice point). -/
theorem C12_pending_handlers_have_live_choice_points (ops : List Op) :
    ∀ p ∈ (run init ops).cont, 1 ≤ p.2 ∧ p.2 ≤ (run init ops).b :=
  (run_sorted ops init ⟨List.Pairwise.nil, by simp [init]⟩).2

open Proto in
/-- A cut (or a ball unwinding) to choice point level `k` runs only handlers whose `scc_helper/3`
    choice point has just been removed (`k < b_cutoff`), never the handler of a goal that is still
    running — for instance the enclosing `setup_call_cleanup/3` of a goal that prunes an inner one. -/
theorem C12_cut_runs_only_handlers_of_removed_choice_points (k : Nat) (c : List (Nat × Nat)) :
    ∃ ranEntries, (runCleaners k c).2 = ranEntries.map Prod.fst ∧ c = ranEntries ++ (runCleaners k c).1
      ∧ ∀ p ∈ ranEntries, k < p.2 := by
  refine ⟨c.takeWhile (fun p => decide (k < p.2)), (runCleaners_ran k c).1, ?_, ?_⟩
  · rw [(runCleaners_ran k c).2]; exact (List.takeWhile_append_dropWhile).symm
  · intro p hp
    have := Proto.mem_takeWhile_true _ _ p hp
    simpa using this

open Proto in
/-- Finding C12-2: the pinned loop (`<` to start, `<=` to continue) also runs handler 1, whose
    choice point (level 1) is still the top of the stack after the cut to level 1 — the handler of the
    still running outer goal in
    `setup_call_cleanup(true, (setup_call_cleanup(true,(X=1;X=2),ev(ci)) -> ev(then) ; true), ev(co))`;
    the repaired loop runs handler 2 only. -/
example : (runCleanersPinned 1 [(2, 2), (1, 1)]).2 = [2, 1] ∧ (runCleaners 1 [(2, 2), (1, 1)]).2 = [2] := by
  decide

/-! ## non-vacuity: the outcomes of the statement on the bookkeeping machine -/

open Proto in
/-- deterministic exit -/
example : (run init [.install 7, .exit]).ran = [7] ∧ (run init [.install 7, .exit]).cont = [] := by decide
open Proto in
/-- failure -/
example : (run init [.install 7, .push, .pop, .failInto]).ran = [7] := by decide
open Proto in
/-- exception (unwinding to the block below) -/
example : (run init [.push, .install 7, .push, .unwind 1]).ran = [7] := by decide
open Proto in
/-- non-deterministic exit, then a cut from outside -/
example : (run init [.push, .install 7, .push, .exit, .cut 1]).ran = [7]
    ∧ (run init [.push, .install 7, .push, .exit]).ran = [] := by decide
open Proto in
/-- non-deterministic exit, then exhaustion -/
example : (run init [.install 7, .push, .exit, .pop, .failInto]).ran = [7] := by decide
open Proto in
/-- nested: the inner handler runs before the outer one -/
example : (run init [.install 1, .install 2, .push, .exit, .cut 0]).ran = [2, 1] := by decide
open Proto in
/-- a cut *to* the helper's own choice point (the goal is still running) runs nothing -/
example : (run init [.install 7, .push, .cut 1]).ran = [] := by decide

/-! ## non-vacuity: the interpreter on concrete nested goals -/

mutual
/-- prefix token list of a term (only used to compare concrete traces by `decide`) -/
def toks : Term → List String
  | .var v => ["?" ++ v]
  | .int v => [if v < 0 then "-" ++ toString v.natAbs else toString v.natAbs]
  | .atom a => [a]
  | .str f args => (f ++ "/") :: toksList args
  | _ => ["#"]
def toksList : List Term → List String
  | [] => ["."]
  | t :: ts => toks t ++ toksList ts
end

def evsOf (r : XRes) : List (List String) := r.items.filterMap fun | .ev t => some (toks t) | _ => none
def mksOf (r : XRes) : List (Option CK) :=
  r.items.filterMap fun | .su => some none | .cl k => some (some k) | _ => none
private def ev' (t : Term) : Term := .str "ev" [t]
private def cj (a b : Term) : Term := .str "," [a, b]
private def dj (a b : Term) : Term := .str ";" [a, b]
private def eq' (a b : Term) : Term := .str "=" [a, b]
private def x12 : Term := dj (eq' (.var "X") (.int 1)) (eq' (.var "X") (.int 2))

/-- `catch((X = 1, throw(b(X,Y))), b(P,Q), ev(r(P,X)))`: the ball carries the binding of `X` (copy
    made at the throw), the recovery goal sees `X` unbound again. The hypotheses of
    `C12_catch_recovers_from_entry_substitution` hold for this goal. -/
example :
    let g := cj (eq' (.var "X") (.int 1)) (.str "throw" [.str "b" [.var "X", .var "Y"]])
    let c : Term := .str "b" [.var "P", .var "Q"]
    let s : XS := ⟨[], 0, true, []⟩
    (callInner (solve 12 []) 12 s g []).oof = false
    ∧ (match (callInner (solve 12 []) 12 s g []).exc with
        | some (ball, _) => (match unify 12 s.σ c ball with | some (some _) => true | _ => false)
        | none => false) = true
    ∧ evsOf (runTop 14 [] (.str "catch" [g, c, ev' (.str "r" [.var "P", .var "X"])]))
        = [["r/", "1", "?X", "."]] := by decide

/-- innermost matching catcher: the inner catcher `b` does not match `a`, the outer one does. -/
example :
    evsOf (runTop 14 [] (.str "catch" [.str "catch" [.str "throw" [.atom "a"], .atom "b", ev' (.atom "wrong")],
        .atom "a", ev' (.atom "outer")])) = [["outer"]] := by decide

/-- `setup_call_cleanup(ev(s), (X=1;X=2), ev(c(X))), ev(got(X)), !`: non-deterministic exit, the cut runs
    the handler (kind `cut`) with the current binding of `X`. -/
example :
    let g := cj (.str "setup_call_cleanup" [ev' (.atom "s"), x12, ev' (.str "c" [.var "X"])])
                (cj (ev' (.str "got" [.var "X"])) (.atom "!"))
    evsOf (runTop 14 [] g) = [["s"], ["got/", "1", "."], ["c/", "1", "."]]
    ∧ mksOf (runTop 14 [] g) = [none, some .cut] := by decide

/-- a ball passing a non-deterministically exited goal runs its handler (kind `exc`, bindings of the
    goal already undone), then the catcher gets the ball. -/
example :
    let g : Term := .str "catch" [cj (.str "setup_call_cleanup" [.atom "true", x12, ev' (.str "c" [.var "X"])])
                                     (.str "throw" [.atom "k"]), .atom "k", ev' (.atom "r")]
    evsOf (runTop 20 [] g) = [["c/", "?X", "."], ["r"]]
    ∧ mksOf (runTop 20 [] g) = [none, some .exc] := by decide

/-- deterministic exit (second answer of the goal) and exhaustion. -/
example :
    let g := cj (.str "setup_call_cleanup" [.atom "true", x12, ev' (.atom "c")]) (cj (ev' (.str "got" [.var "X"])) (.atom "fail"))
    evsOf (runTop 20 [] g) = [["got/", "1", "."], ["c"], ["got/", "2", "."]]
    ∧ mksOf (runTop 20 [] g) = [none, some .exit]
    ∧ mksOf (runTop 20 [] (.str "setup_call_cleanup" [.atom "true", .atom "fail", ev' (.atom "c")])) = [none, some .fail] := by
  decide

end Scryer.Exc
