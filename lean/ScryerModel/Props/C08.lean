import ScryerModel.Proofs.SolveLaws
import ScryerModel.Model.Load
/-!
# C08 — Static, dynamic and meta-called code give the same answers

In the reference semantics (`Scryer.Solve.solve`) a program is a clause list, so "loading mode" can
only enter through the way that list is built. The theorems say that the answers depend on nothing
but the sequence of clauses of each predicate: consulting static text, consulting discontiguous
pieces and `assertz`-ing the clauses one by one present the same predicates and therefore give the
same result for every goal and every fuel; and that `call/1` of a goal is the goal itself behind a
cut barrier. The implementation's four code paths (static code, incremental compilation of
discontiguous clauses, dynamic clauses, the call/N dispatcher) and a meta-interpreter over clause/2
are tied to this by the differential run of vlib/props/C08.py only.
-/
namespace Scryer.Solve
open Scryer Scryer.Load

/-- The answers depend only on the clause sequence of each predicate: two programs that present
the same predicates (`SamePreds`: for every name/arity the same clauses in the same order) give the
same result for every goal, state and fuel — however the clauses of different predicates are
interleaved. -/
theorem C08_presentation_invariant {p q : Prog} (h : SamePreds p q) (n : Nat) (g : Term) (s : St) :
    solve n p g s = solve n q g s := solve_samePreds h n g s

/-- Adding the clauses with `assertz/1`, in order, builds the same program as consulting them. -/
theorem C08_loadDynamic_eq (cs : List Clause) : loadDynamic cs = loadStatic cs := by
  have : ∀ (db : Prog), cs.foldl assertz db = db ++ cs := by
    induction cs with
    | nil => intro db; simp
    | cons c rest ih => intro db; simp [List.foldl, assertz, ih]
  simpa [loadDynamic, loadStatic] using this []

/-- Static code and dynamic code built by `assertz/1` give the same answers. -/
theorem C08_static_eq_dynamic (cs : List Clause) (n : Nat) (g : Term) (s : St) :
    solve n (loadDynamic cs) g s = solve n (loadStatic cs) g s := by
  rw [C08_loadDynamic_eq]

/-- Two pieces of program text that define different predicates can be consulted in either order
(hypothesis: no predicate has clauses in both). -/
theorem C08_pieces_commute (a b : Prog)
    (h : ∀ name arity, a.filter (clauseMatches name arity) = [] ∨ b.filter (clauseMatches name arity) = [])
    (n : Nat) (g : Term) (s : St) :
    solve n (loadPieces [a, b]) g s = solve n (loadPieces [b, a]) g s := by
  apply solve_samePreds
  intro name arity
  simp only [loadPieces, List.flatten_cons, List.flatten_nil, List.append_nil,
    filter_clauseMatches_append]
  rcases h name arity with h1 | h1 <;> simp [h1]

/-- A predicate spread over discontiguous pieces: clauses of other predicates between the pieces
are irrelevant (`o` has no clause for any predicate defined in `a` or `b` … stated for the
predicates of `o` being disjoint from those of `b`). -/
theorem C08_discontiguous (a o b : Prog)
    (h : ∀ name arity, o.filter (clauseMatches name arity) = [] ∨ b.filter (clauseMatches name arity) = [])
    (n : Nat) (g : Term) (s : St) :
    solve n (loadPieces [a, o, b]) g s = solve n (loadPieces [a, b, o]) g s := by
  apply solve_samePreds
  intro name arity
  simp only [loadPieces, List.flatten_cons, List.flatten_nil, List.append_nil,
    filter_clauseMatches_append]
  rcases h name arity with h1 | h1 <;> simp [h1]

/-- `call/1` of an instantiated goal is the goal behind a cut barrier: same answers, same ball,
no cut exported. (`g` is its own resolution under the current substitution — e.g. the goal is
ground or the state is initial — and passes the body check.) -/
theorem C08_call_is_barrier (rec : Term → St → Res) (n : Nat) (s : St) (f : String) (args : List Term)
    (hr : resolve n s.σ (.str f args) = some (.str f args))
    (hb : bodyOk n (.str f args) = some true) (ho : (rec (.str f args) s).oof = false) :
    callGoal rec n s (.str f args) [] =
      ⟨(rec (.str f args) s).sols, false, (rec (.str f args) s).exc, false⟩ := by
  simp [callGoal, hr, callResolved, callBody, addArgs, hb, ho]

/-- … hence a goal that exports no cut gives the same result written in a clause body or passed
to `call/1`: the documented opacity of cut is the only difference. -/
theorem C08_call_same_as_body (rec : Term → St → Res) (n : Nat) (s : St) (f : String) (args : List Term)
    (hr : resolve n s.σ (.str f args) = some (.str f args))
    (hb : bodyOk n (.str f args) = some true) (ho : (rec (.str f args) s).oof = false)
    (hc : (rec (.str f args) s).cut = false) :
    callGoal rec n s (.str f args) [] = rec (.str f args) s := by
  rw [C08_call_is_barrier rec n s f args hr hb ho]
  cases h : rec (.str f args) s with
  | mk sols cut exc oof =>
    rw [h] at ho hc
    simp only at ho hc
    simp [ho, hc]

/-! ## Non-vacuity -/

/-- the hypotheses of `C08_call_is_barrier` hold for a ground goal in the initial state. -/
example : resolve 5 [] (.str "t" [.int 1]) = some (.str "t" [.int 1]) ∧
    bodyOk 5 (.str "t" [.int 1]) = some true := ⟨rfl, rfl⟩

/-- a predicate in two pieces with another predicate in between: same answers as contiguous. -/
example : (solve 8 (loadPieces [[⟨.str "t" [.int 1], .atom "true"⟩], [⟨.str "u" [.int 7], .atom "true"⟩],
      [⟨.str "t" [.int 2], .atom "true"⟩]]) (.str "t" [.var "X"]) ⟨[], 0⟩).sols.length = 2 := by decide

end Scryer.Solve
