import ScryerModel.Proofs.PStr
/-!
# C20 — Strings behave exactly like the character lists they denote

Model: `Model/PStr.lean`. `Rep` = the heap representations of a list of characters (`Lis` cells,
`PStrLoc`s into string segments at any character offset, mixed, any tail); `denote` = the
characters and the final tail. Every string-specific mechanism is proved to COMMUTE with `denote`:
its result on representations is the list operation on the denoted lists — for every
representation, split point, offset, character content and tail. The byte-level theorems connect the
representation level with the bytes `push_pstr_segment` writes (UTF-8 text, sentinel zeros).
-/
namespace Scryer.PStr
open Scryer.Heap (pstrTailIdx)
open Scryer.Utf8 (encode lenUtf8 isScalar)

/-! ## representation level -/

/-- **Head/tail decomposition** (`get_list`/`unify_list` against a `PStrLoc`:
`last_str_char_and_tail`, `partial_string_to_pdl`): whenever it yields `(c, s)`, the denoted list is
`c :: denote s` with the same final tail; the successor is again well formed and smaller. -/
theorem C20_decompose_denote (r : Rep) (h : WF r) (c : Nat) (s : Rep) (e : step r = some (c, s)) :
    denote r = (c :: (denote s).1, (denote s).2) ∧ WF s ∧ size s < size r :=
  step_some h e

/-- … and it yields nothing exactly for the non-list tails, i.e. exactly when the denoted list has
no character left (a `PStrLoc` never denotes the empty list). -/
theorem C20_decompose_none (r : Rep) (h : WF r) : step r = none ↔ (denote r).1 = [] ∧ ∃ t, r = .tl t := by
  rw [step_none_iff h]
  constructor
  · rintro ⟨t, rfl⟩; exact ⟨rfl, t, rfl⟩
  · exact fun h => h.2

/-- **Iteration** (`HeapPStrIter`: a whole slice per `PStrLoc`, one character per `Lis` cell) yields
the denoted characters and stops at the denoted tail. -/
theorem C20_iter_denote (r : Rep) : walk r = denote r := walk_eq_denote r

/-- **`compare_pstr_segments`** (character level) is prefix stripping: `Continue(tail, tail)` iff
the remaining texts are equal; `Continue(tail, offset q)` iff the first is a proper prefix of the
second and `q` is its length; never two offsets; `Less`/`Greater` iff they differ at a first
position, ordered by the characters there. -/
theorem C20_cmp_segments (a b : List Nat) (pos : Nat) :
    match cmpSeg a b pos with
    | .cont .tail .tail => a = b
    | .cont .tail (.off q) => ∃ b', b' ≠ [] ∧ b = a ++ b' ∧ q = pos + a.length
    | .cont (.off q) .tail => ∃ a', a' ≠ [] ∧ a = b ++ a' ∧ q = pos + b.length
    | .cont (.off _) (.off _) => False
    | .less => ∃ p x y a' b', a = p ++ x :: a' ∧ b = p ++ y :: b' ∧ x < y
    | .greater => ∃ p x y a' b', a = p ++ x :: a' ∧ b = p ++ y :: b' ∧ y < x :=
  cmpSeg_spec a b pos

/-- **Unification commutes with `denote`**: for ALL representations of two character lists (any
mixture of list cells and string segments, any offsets, any tails), the mirrored unification loop
(`unify_list`, `unify_partial_string`, `compare_pstr_segments`) fails iff unification of the denoted
lists fails, and otherwise produces the same tail binding up to representation. It never runs out
of fuel. -/
theorem C20_unify_denote (r1 r2 : Rep) (h1 : WF r1) (h2 : WF r2) :
    (unify (size r1 + size r2) r1 r2).den =
      (unifyList (denote r1).1 (denote r1).2 (denote r2).1 (denote r2).2).den ∧
    (unify (size r1 + size r2) r1 r2).isStuck = false :=
  unify_denote _ r1 r2 h1 h2 (Nat.le_refl _)

/-- in particular a string and its explicit list (or any two representations of the same list with
the same tail) unify with each other exactly as the list unifies with itself. -/
theorem C20_unify_indistinguishable (r1 r1' r2 : Rep) (h1 : WF r1) (h1' : WF r1') (h2 : WF r2)
    (e : denote r1 = denote r1') :
    (unify (size r1 + size r2) r1 r2).den = (unify (size r1' + size r2) r1' r2).den := by
  rw [(C20_unify_denote r1 r2 h1 h2).1, (C20_unify_denote r1' r2 h1' h2).1, e]

/-- **Comparison commutes with `denote`** (`ParallelHeapIter` list arms + `compare_pstr_slices`):
the first differing character decides; if one list ends first or both end, the outcome is handed to
the comparison of the tails (C13). -/
theorem C20_compare_denote (r1 r2 : Rep) (h1 : WF r1) (h2 : WF r2) :
    compare (size r1 + size r2) r1 r2 =
      compareList (denote r1).1 (denote r1).2 (denote r2).1 (denote r2).2 :=
  compare_denote _ r1 r2 h1 h2 (Nat.le_refl _)

theorem C20_compare_indistinguishable (r1 r1' r2 : Rep) (h1 : WF r1) (h1' : WF r1') (h2 : WF r2)
    (e : denote r1 = denote r1') :
    compare (size r1 + size r2) r1 r2 = compare (size r1' + size r2) r1' r2 := by
  rw [C20_compare_denote r1 r2 h1 h2, C20_compare_denote r1' r2 h1' h2, e]

/-- **Copying** (`copy_partial_string` / `copy_pstr_within`: the copy of a `PStrLoc` with an offset
is a fresh segment holding only the suffix) preserves the denotation and well-formedness. -/
theorem C20_copy_denote (r : Rep) (h : WF r) : denote (copy r) = denote r ∧ WF (copy r) :=
  ⟨copy_denote r, copy_wf r h⟩

/-! ## byte level -/

/-- **Tail cell**: for a segment of `L` text bytes laid out at cell `c`, `scan_slice_to_str` entered
at ANY byte offset `o ≤ L` (including the last character and the sentinel itself) computes the cell
right behind the segment — the cell `pstr_tail_idx` names for the segment's zero byte — for every
length (L mod 8 = 7 takes the extra zero cell). -/
theorem C20_tail_cell (c o L : Nat) (text r : List Nat) (ho : o ≤ L) (hL : text.length = L)
    (hz : ∀ b ∈ text, b ≠ 0) :
    scanTailIdx (8 * c + o) (text.drop o ++ 0 :: r) = c + segCells L ∧
    c + segCells L = pstrTailIdx (8 * c + L) := by
  refine ⟨scanTailIdx_seg c o L _ ho ?_, segCells_eq_pstrTailIdx c L⟩
  rw [scanLen_append _ _ (fun b hb => hz b (List.mem_of_mem_drop hb)), List.length_drop, hL]

/-- **`last_str_char_and_tail`** on the bytes of a segment: at the character `c` followed by the
characters `post` (then the sentinel), it returns `c` and — if `post` is empty — the tail cell,
otherwise the `PStrLoc` of the next character (`loc + len_utf8(c)`), for every Unicode scalar value
(1–4 byte encodings) and every position. -/
theorem C20_last_char_and_tail (loc c : Nat) (post rest : List Nat) (hc : isScalar c = true)
    (hpost : ∀ d ∈ post, d ≠ 0) :
    lastCharAndTail loc (utf8 (c :: post) ++ 0 :: rest) =
      some (c, if post = [] then .tail (scanTailIdx loc (utf8 (c :: post) ++ 0 :: rest))
               else .pstr (loc + lenUtf8 c)) :=
  lastCharAndTail_cons loc c post rest hc hpost

/-- **`PStrSegmentIter`** reads back exactly the characters that were encoded, whatever follows the
sentinel. -/
theorem C20_segment_iter (cs rest : List Nat) (h : ∀ c ∈ cs, isScalar c = true ∧ c ≠ 0) :
    segChars (cs.length + 1) (utf8 cs ++ 0 :: rest) = cs :=
  segChars_seg cs _ rest h (Nat.lt_succ_self _)

/-- **`compare_pstr_slices` on bytes = prefix stripping on bytes**, for zero-free texts followed by
their sentinel (whatever lies behind). -/
theorem C20_cmp_bytes (u v r1 r2 : List Nat) (pos : Nat) (hu : ∀ b ∈ u, b ≠ 0) (hv : ∀ b ∈ v, b ≠ 0) :
    cmpBytes (u ++ 0 :: r1) (v ++ 0 :: r2) pos = cmpSeg u v pos :=
  cmpBytes_eq_cmpSeg u v r1 r2 pos hu hv

/-- … and on UTF-8 texts with a common character prefix `p` the byte position reported is the byte
length of `p`, i.e. a character boundary of both. -/
theorem C20_cmp_bytes_prefix (p a b r1 r2 : List Nat) (h : ∀ c ∈ p ++ a ++ b, c ≠ 0) :
    cmpBytes (utf8 (p ++ a) ++ 0 :: r1) (utf8 (p ++ b) ++ 0 :: r2) 0 =
      cmpSeg (utf8 a) (utf8 b) (utf8 p).length := by
  have h1 : ∀ c ∈ p ++ a, c ≠ 0 := fun c hc => h c (by
    simp only [List.mem_append] at hc ⊢; exact Or.inl hc)
  have h2 : ∀ c ∈ p ++ b, c ≠ 0 := fun c hc => h c (by
    simp only [List.mem_append] at hc ⊢
    rcases hc with hc | hc
    · exact Or.inl (Or.inl hc)
    · exact Or.inr hc)
  rw [C20_cmp_bytes _ _ _ _ _ (utf8_ne_zero _ h1) (utf8_ne_zero _ h2),
    utf8_append, utf8_append, cmpSeg_append, Nat.zero_add]

/-- two different characters never make the byte comparison answer `Continue` (UTF-8 is prefix
free), so segment unification fails exactly at the first differing character. (That the order of
the bytes there is the order of the code points is `C13_utf8_order`.) -/
theorem C20_cmp_bytes_mismatch (x y : Nat) (hx : isScalar x = true) (hy : isScalar y = true)
    (hxy : x ≠ y) (s t : List Nat) (pos : Nat) :
    cmpSeg (encode x ++ s) (encode y ++ t) pos = .less ∨
    cmpSeg (encode x ++ s) (encode y ++ t) pos = .greater :=
  cmpSeg_encode_ne hx hy hxy s t pos

/-! ## witnesses and non-vacuity -/

/-- "abc" as one segment, as list cells, as a suffix of "xyabc", and mixed. -/
def exSeg : Rep := .seg [97, 98, 99] 0 (.tl .nil)
def exLis : Rep := .lis 97 (.lis 98 (.lis 99 (.tl .nil)))
def exOff : Rep := .seg [120, 121, 97, 98, 99] 2 (.tl .nil)
def exMix : Rep := .seg [97] 0 (.lis 98 (.seg [122, 99] 1 (.tl .nil)))

example : denote exSeg = ([97, 98, 99], .nil) ∧ denote exLis = denote exSeg ∧
    denote exOff = denote exSeg ∧ denote exMix = denote exSeg := by decide

example : WF exSeg ∧ WF exLis ∧ WF exOff ∧ WF exMix := by
  simp only [exSeg, exLis, exOff, exMix, WF]; decide

/-- every arm of the unifier is reached: segment/segment with an offset continuation, segment/list,
list/list, binding of a variable tail to a string suffix, failure. -/
example : (unify 20 (.seg [97, 98] 0 (.tl (.var 1))) exOff).den = some (some (1, ([99], .nil))) := by
  decide
example : (unify 20 exMix exLis).den = some none := by decide
example : (unify 20 exSeg (.seg [97, 98, 100] 0 (.tl .nil))).den = none := by decide
example : compare 20 exOff (.seg [97, 98, 100] 0 (.tl .nil)) = .lt := by decide
example : compare 20 exMix exLis = .tails .nil .nil := by decide

/-- byte level: "a€" (1 + 3 bytes) followed by its sentinel: the decomposition at byte 0 yields `a`
and the PStrLoc of `€`; at `€` (the last character) the tail cell; a 7-byte text takes the extra cell. -/
example : lastCharAndTail 16 (utf8 [97, 0x20AC] ++ [0, 0, 0, 0]) = some (97, .pstr 17) := by decide
example : lastCharAndTail 17 (utf8 [0x20AC] ++ [0, 0, 0, 0]) = some (0x20AC, .tail 3) := by decide
example : segCells 7 = 2 ∧ segCells 8 = 2 ∧ segCells 6 = 1 := by decide

/-- **Witness for finding C20-3** (`get_partial_string` compares the heap string with a literal that
contains a NUL character): `compare_pstr_slices` reads the literal's embedded zero byte as the end of
the literal. Heap segment "ab", literal bytes "a\0b": the answer is `Continue(offset 1, tail)` — "the
literal is exhausted, the heap string continues at offset 1" — although the literal's next character
is NUL and the heap's is `b`: the head unification must fail. -/
theorem C20_witness_literal_nul :
    cmpBytes ([97, 98] ++ [0, 0, 0, 0, 0, 0]) [97, 0, 98] 0 = .cont (.off 1) .tail := by decide

end Scryer.PStr
