import ScryerModel.Proofs.NumLex
/-!
# C16 — Numeric literals and number/text conversions are exact

Theorems over `Model/NumLex.lean`, the branch-by-branch mirror of the lexer's number path
(`number_token`, `skip_underscore_in_number`, `scan_for_layout`, `hexadecimal/octal/binary_constant`,
the `0'c` readers, `next_number_token`, `parse_number_from_string`) with the reader modelled as the
remaining `List Char`. All statements are for texts of ANY length and integers of ANY size.

Vocabulary. `Cont s ds`: after the first digit, the spelled text `s` continues a decimal integer
and contributes the digits `ds` (`s` = digits and `_ layout* digit` groups). `horner r ds` is the
positional value. `NumTok.dec m e` is the exact decimal `m × 10^e` of a float token; `rneOK n d b`
says that the bit pattern `b` is the IEEE-754 binary64 round-to-nearest-even image of `n/d`
(`V b` = value of pattern `b` in units of `2^-1074`). The model is the REPAIRED lexer: correctly
rounded floats (finding C16-1: the pinned code parses with lexical's `lossy` option) and a digit
group separator must be followed by a digit (C16-3); `Pinned.numberFromText` keeps the pinned
behaviour of the latter and `C16_pinned_underscore_witness` shows it violates the statement.
-/
namespace Scryer.NumLex

/-! ## Positional value -/

/-- The value of a digit string in radix `r` is positional: prepending a digit adds
`digit · r^(length)`, appending one multiplies by `r` (Horner = Σ dᵢ·r^(n-1-i)). -/
theorem C16_value_positional (r : Nat) (c : Char) (ds : List Char) :
    horner r (c :: ds) = digitVal c * r ^ ds.length + horner r ds ∧
    horner r (ds ++ [c]) = horner r ds * r + digitVal c :=
  ⟨horner_cons r c ds, horner_snoc r ds c⟩

/-- Leading zeros are irrelevant, in every radix. -/
theorem C16_leading_zeros (r k : Nat) (ds : List Char) :
    horner r (List.replicate k '0' ++ ds) = horner r ds := by
  rw [horner_append, horner_replicate_zero]; simp

/-! ## Integer literals: value and maximal prefix -/

/-- A decimal integer literal (digits with `_` groups, layout allowed after `_`) followed by a
character that cannot continue it — not a digit, `_`, `.`, and after a lone `0` not `x o b '` —
is read as exactly its positional value, and the reader stops exactly in front of that character. -/
theorem C16_decimal_literal {d : Char} {s ds : List Char} (hd : isDigit d = true) (h : Cont s ds)
    (strict : Bool) (c : Char) (r : List Char) (hc : isDigit c = false) (hu : c ≠ '_')
    (hp : PlainStop (d :: ds) c) :
    numberToken strict (d :: (s ++ c :: r)) = .ok (.int (horner 10 (d :: ds)), c :: r) :=
  numberToken_int hd h strict c r hc hu hp

/-- A `.` that is not followed by a digit does not belong to the number: `X = 1.` reads the
integer and leaves the end token (trailing-dot look-ahead). -/
theorem C16_integer_before_dot {d : Char} {s ds : List Char} (hd : isDigit d = true)
    (h : Cont s ds) (strict : Bool) (r : List Char) (hr : ∀ c r', r = c :: r' → isDigit c = false) :
    numberToken strict (d :: (s ++ '.' :: r)) = .ok (.int (horner 10 (d :: ds)), '.' :: r) :=
  numberToken_int_dot hd h strict r hr

/-- `0x…`, `0o…`, `0b…`: the value is the positional value of the maximal run of digits of the
radix (hex digits in either case); the reader stops in front of the first non-digit. -/
theorem C16_radix_literal (strict : Bool) (p : Char) (isDig : Char → Bool) (radix : Nat)
    (hp : (p = 'x' ∧ isDig = isHex ∧ radix = 16) ∨ (p = 'o' ∧ isDig = isOct ∧ radix = 8) ∨
          (p = 'b' ∧ isDig = isBin ∧ radix = 2))
    (x : Char) (xs : List Char) (hx : isDig x = true) (hxs : ∀ c ∈ xs, isDig c = true)
    (rest : List Char) (hr : ∀ c r, rest = c :: r → isDig c = false) :
    numberToken strict ('0' :: p :: x :: (xs ++ rest)) = .ok (.int (horner radix (x :: xs)), rest) :=
  numberToken_radix strict p isDig radix hp x xs hx hxs rest hr

/-- A radix letter that is not followed by a digit of its radix is not part of the literal:
the number is `0` and the letter is read again as the next token. -/
theorem C16_radix_letter_alone (strict : Bool) (p c : Char) (r : List Char)
    (hp : (p = 'x' ∧ isHex c = false) ∨ (p = 'o' ∧ isOct c = false) ∨ (p = 'b' ∧ isBin c = false)) :
    numberToken strict ('0' :: p :: c :: r) = .ok (.int 0, p :: c :: r) :=
  numberToken_radix_fallback strict p c r hp

/-! ## Character literals -/

/-- `0'c` is the code point of `c` for every character that needs no escape (any character that
is not white space other than the space, not a control character, not `\ ' " ` `). -/
theorem C16_char_literal_plain (strict : Bool) (c : Char) (rest : List Char)
    (h : isPlainQuotedChar c = true) :
    numberToken strict ('0' :: '\'' :: c :: rest) = .ok (.int c.toNat, rest) :=
  numberToken_char_plain strict c rest h

/-- The quote must be doubled (`0'''` = 39); `"` and `` ` `` stand for themselves; a single quote
followed by anything else is not a character literal: the number is `0` and both quotes remain. -/
theorem C16_char_literal_quotes (strict : Bool) (rest : List Char) :
    numberToken strict ('0' :: '\'' :: '\'' :: '\'' :: rest) = .ok (.int 39, rest) ∧
    numberToken strict ('0' :: '\'' :: '"' :: rest) = .ok (.int 34, rest) ∧
    numberToken strict ('0' :: '\'' :: '`' :: rest) = .ok (.int 96, rest) ∧
    (∀ c, c ≠ '\'' → numberToken strict ('0' :: '\'' :: '\'' :: c :: rest) =
      .ok (.int 0, '\'' :: '\'' :: c :: rest)) :=
  ⟨(numberToken_char_quotes strict rest).1, (numberToken_char_quotes strict rest).2.1,
   (numberToken_char_quotes strict rest).2.2, fun c hc => numberToken_char_lone_quote strict c rest hc⟩

/-- Escapes: `\a \b \v \f \t \n \r` give 7 8 11 12 9 10 13; a backslash followed by a meta
character (`\\ \' \" \``) gives that character. -/
theorem C16_char_literal_escapes (strict : Bool) (e : Char) (rest : List Char) :
    (∀ n, controlEscape e = some n →
      numberToken strict ('0' :: '\'' :: '\\' :: e :: rest) = .ok (.int n, rest)) ∧
    (isMeta e = true →
      numberToken strict ('0' :: '\'' :: '\\' :: e :: rest) = .ok (.int e.toNat, rest)) :=
  ⟨fun n h => numberToken_char_control strict e n rest h, numberToken_char_meta strict e rest⟩

/-! ## Float literals: exact decimal value and maximal prefix -/

/-- `I.F` (at least one digit after the dot), followed by something that is neither a digit nor
an exponent marker: the token denotes exactly `digits(I F) × 10^(-|F|)`. -/
theorem C16_float_literal {d : Char} {s ds : List Char} (hd : isDigit d = true) (h : Cont s ds)
    (strict : Bool) (f : Char) (fs : List Char) (hf : isDigit f = true)
    (hfs : ∀ c ∈ fs, isDigit c = true) (c : Char) (r : List Char)
    (hc : isDigit c = false) (he : c ≠ 'e' ∧ c ≠ 'E') :
    numberToken strict (d :: (s ++ '.' :: f :: (fs ++ c :: r))) =
      .ok (.dec (horner 10 (d :: ds ++ f :: fs)) (- ((f :: fs).length : Int)), c :: r) :=
  numberToken_frac hd h strict f fs hf hfs c r hc he

/-- `I.F e [+-] X` with at least one exponent digit: exactly `digits(I F) × 10^(±X - |F|)`; the
reader stops in front of the first character after the exponent digits. -/
theorem C16_float_literal_exponent {d : Char} {s ds : List Char} (hd : isDigit d = true)
    (h : Cont s ds) (strict : Bool) (f : Char) (fs : List Char) (hf : isDigit f = true)
    (hfs : ∀ c ∈ fs, isDigit c = true) (ec : Char) (hec : ec = 'e' ∨ ec = 'E')
    (sg : List Char) (hsg : sg = [] ∨ sg = ['+'] ∨ sg = ['-'])
    (x : Char) (xs : List Char) (hx : isDigit x = true) (hxs : ∀ c ∈ xs, isDigit c = true)
    (c : Char) (r : List Char) (hc : isDigit c = false) :
    numberToken strict (d :: (s ++ '.' :: f :: (fs ++ ec :: (sg ++ x :: (xs ++ c :: r))))) =
      .ok (.dec (horner 10 (d :: ds ++ f :: fs))
            (expOfToken (sg ++ x :: xs) - ((f :: fs).length : Int)), c :: r) :=
  numberToken_exp hd h strict f fs hf hfs ec hec sg hsg x xs hx hxs c r hc

/-- Exponent back-out: an `e`/`E` that is not followed by `[+-]? digit` is not part of the float;
the token is `I.F` and the reader resumes AT the `e` (sign and marker are both returned). -/
theorem C16_float_exponent_backout (tok : List Char) (ec : Char) (r : List Char)
    (h : r = [] ∨ (∃ c r', r = c :: r' ∧ isDigit c = false ∧ c ≠ '+' ∧ c ≠ '-') ∨
         (∃ sg r', r = sg :: r' ∧ (sg = '+' ∨ sg = '-') ∧ ∀ c r'', r' = c :: r'' → isDigit c = false)) :
    exponentPart tok ec r = mkDec tok (ec :: r) :=
  exponentPart_backout tok ec r h

/-! ## Correct rounding -/

/-- The binary64 grid is strictly increasing in the bit pattern (so adjacent patterns are
adjacent values, across exponent boundaries, subnormal/normal and up to the overflow threshold). -/
theorem C16_grid_strictMono {a b : Nat} (h : a < b) : V a < V b := V_strictMono h

/-- The rounding specification determines the result: at most one pattern is the
round-to-nearest-even image of a given rational. -/
theorem C16_rne_unique {n d b b' : Nat} (hd : 0 < d) (h : rneOK n d b = true)
    (h' : rneOK n d b' = true) : b = b' := rneOK_unique hd h h'

/-- The executable rounding function meets the specification for every rational `n/d`: the float
value of a literal is the correctly rounded double of its exact decimal value. -/
theorem C16_rne_correct (n d : Nat) (hd : 0 < d) : rneOK n d (rne n d) = true := rne_sound n d hd

/-- Exactness: every representable value rounds to itself. -/
theorem C16_rne_exact (b : Nat) (hb : b ≤ infBits) : rne (V b) scale = b :=
  rneOK_unique (Nat.pow_pos (by decide)) (rne_sound _ _ (Nat.pow_pos (by decide))) (rneOK_exact b hb)

/-- Monotonicity: `n/d ≤ n'/d'` implies `rne (n/d) ≤ rne (n'/d')`. -/
theorem C16_rne_monotone {n d n' d' : Nat} (hd : 0 < d) (hd' : 0 < d') (h : n * d' ≤ n' * d) :
    rne n d ≤ rne n' d' :=
  rneOK_mono hd hd' h (rne_sound n d hd) (rne_sound n' d' hd')

/-- The bits the model gives to the exact decimal `m × 10^e` are its correctly rounded double —
proved inside the window `10^-330 ≤ m × 10^e < 10^310` (outside it the model answers 0 / overflow
without computing the power; that shortcut is compared with the implementation only). -/
theorem C16_decimal_correctly_rounded_partial (m : Nat) (e : Int) (hm : m ≠ 0)
    (h1 : ¬ ((numDigits (m + 1) m : Nat) : Int) + e > 310)
    (h2 : ¬ ((numDigits (m + 1) m : Nat) : Int) + e < -330) :
    decRoundsTo m e (decToBits m e) = true := decToBits_sound m e hm h1 h2

/-- Sign symmetry: a `-` in front of a literal negates the value exactly (integers of any size;
floats: the same magnitude pattern with the sign bit; zero stays the one zero of this system). -/
theorem C16_sign_symmetric (t : NumTok) :
    (∀ n, t = .int n → tokValue true t = .ok (.int (-(n : Int))) ∧ tokValue false t = .ok (.int n)) ∧
    (∀ m e b, t = .dec m e → tokValue false t = .ok (.flt b) →
      tokValue true t = .ok (.flt (if b = 0 then 0 else signBit + b))) := by
  constructor
  · rintro n rfl; simp [tokValue]
  · rintro m e b rfl h
    simp only [tokValue] at h ⊢
    split at h
    · cases h
    · rename_i hlt
      simp only [Bool.false_and, Bool.false_eq_true, if_false] at h
      cases h
      simp only [hlt, if_false, Bool.true_and]
      by_cases h0 : decToBits m e = 0 <;> simp [h0]

/-! ## number ↔ text -/

/-- Round trip, for every integer: printing in decimal and reading the text back through the
`number_chars`/`number_codes` entry gives the same integer. -/
theorem C16_integer_roundtrip (i : Int) : numberFromText (showInt i) = .ok (.int i) :=
  numberFromText_showInt i

/-- The printed text consists of decimal digits only (after the optional `-`), has no leading
zero issue for the value, and its positional value is the magnitude. -/
theorem C16_showNat_spec (n : Nat) :
    (∀ c ∈ showNat n, isDigit c = true) ∧ showNat n ≠ [] ∧ horner 10 (showNat n) = n :=
  ⟨showNat_digits n, showNat_ne_nil n, showNat_value n⟩

/-- `number_chars`/`number_codes` accept leading layout … -/
theorem C16_text_leading_layout (lay : List Char) (hl : ∀ x ∈ lay, isLayout x = true)
    {d : Char} (hd : isDigit d = true) (s : List Char) :
    numberFromText (lay ++ d :: s) = numberFromText (d :: s) := numberFromText_layout lay hl hd s

/-- … and `-` (optionally followed by layout) in front of a literal that fills the rest of the
text: the result is the negated value; without the sign it is the value itself. -/
theorem C16_text_sign (lay : List Char) (hl : ∀ x ∈ lay, isLayout x = true)
    {d : Char} (hd : isDigit d = true) (s : List Char) (t : NumTok)
    (h : numberToken true (d :: s) = .ok (t, [])) :
    numberFromText (d :: s) = tokValue false (completePartial t) ∧
    numberFromText ('-' :: (lay ++ d :: s)) = tokValue true (completePartial t) :=
  ⟨numberFromText_complete hd s t h, numberFromText_minus lay hl hd s t h⟩

/-- Anything after the literal (even layout) is a syntax error; so are a leading `+` and the
empty text. -/
theorem C16_text_rejects {d : Char} (hd : isDigit d = true) (s : List Char) :
    (∀ t c r, numberToken true (d :: s) = .ok (t, c :: r) →
      numberFromText (d :: s) = .error (.unexpChar c)) ∧
    numberFromText ('+' :: d :: s) = .error .other ∧
    numberFromText [] = .error .eof :=
  ⟨fun t c r h => numberFromText_trailing hd s t c r h, numberFromText_plus hd s, rfl⟩

/-- Witness for finding C16-3: the pinned commit accepts `1_` (a separator followed by nothing)
as the number 1, which the reader rejects; the repaired model rejects it. -/
theorem C16_pinned_underscore_witness :
    Pinned.numberFromText ['1', '_'] = .ok (.int 1) ∧
    numberFromText ['1', '_'] = .error .bigInt := by
  constructor <;> rfl

/-! ## Non-vacuity -/

example : Cont ['2', '_', ' ', '\n', '3'] ['2', '3'] :=
  .dig (by decide) (.sep [' ', '\n'] (by decide) (by decide) .nil)
example : numberToken true "1_000 ".toList = .ok (.int 1000, [' ']) := by decide
example : numberToken true "0xfF.".toList = .ok (.int 255, ['.']) := by decide
example : numberToken true "0'a)".toList = .ok (.int 97, [')']) := by decide
example : numberToken true "0'\\x41\\ ".toList = .ok (.int 65, [' ']) := by decide
example : numberToken true "12.5e-3,".toList = .ok (.dec 125 (-4), [',']) := by decide
example : numberToken true "1.0e+a".toList = .ok (.dec 10 (-1), ['e', '+', 'a']) := by decide
example : numberToken true "1.e5".toList = .ok (.int 1, ['.', 'e', '5']) := by decide
example : numberFromText " - 12".toList = .ok (.int (-12)) := by decide
example : numberFromText "12 ".toList = .error (.unexpChar ' ') := by decide
example : numberFromText "0'\\e".toList = .error (.unexpChar 'e') := by decide
example : rneOK 1 10 0x3FB999999999999A = true := by decide +kernel
example : rne 1 10 = 0x3FB999999999999A := by decide +kernel
/-- the midpoint between 2^53 and 2^53+2 goes to the even pattern -/
example : rne 9007199254740993 1 = 0x4340000000000000 := by decide +kernel
/-- overflow threshold: the midpoint between the largest double and 2^1024 is infinite -/
example : rne (2 ^ 1024 - 2 ^ 970) 1 = infBits := by decide +kernel
example : rne (2 ^ 1024 - 2 ^ 970 - 1) 1 = 0x7FEFFFFFFFFFFFFF := by decide +kernel

end Scryer.NumLex
