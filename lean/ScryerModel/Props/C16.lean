import ScryerModel.Proofs.NumLex
/-! # C16 — Numeric literals and number/text conversions are exact (theorems; in progress) -/
namespace Scryer.NumLex

/-- appending a digit multiplies by the radix and adds the digit (positional value). -/
theorem C16_horner_snoc (radix : Nat) (ds : List Char) (c : Char) :
    horner radix (ds ++ [c]) = horner radix ds * radix + digitVal c := by
  simp [horner, hornerFrom_append, hornerFrom]

end Scryer.NumLex
