import ScryerModel.Proofs.TermOps
/-
C23 — term construction and inspection builtins match a term model.

The model (`Model/TermOps.lean`) mirrors `try_functor`, `try_arg`, `univ_errors/3`+`univ_worker/3`,
`can_be_list/2`+`'$term_variables'`, `ground_test` and the body of `subsumes_term/2`; `copy_term/2`
is a renaming with fresh variables followed by a unification.  The theorems below are about ALL
terms (no size bound).  They are tied to the implementation by `vlib/props/C23.py`.
-/
namespace Scryer.C23
open Scryer Scryer.Term Scryer.Unify Scryer.TermOps

/-- principal functor name of a non-variable term (an atomic term is its own name). -/
def nameOf : Term → Term
  | .str f _ => .atom f
  | t => t

def arityOf : Term → Nat
  | .str _ args => args.length
  | _ => 0

def argsOf : Term → List Term
  | .str _ args => args
  | _ => []

/-- equal up to renaming: each is obtained from the other by a variable-for-variable substitution. -/
def Variant (a b : Term) : Prop :=
  ∃ ρ ρ' : String → Term, (∀ x, ∃ y, ρ x = .var y) ∧ (∀ x, ∃ y, ρ' x = .var y) ∧
    a.subst ρ = b ∧ b.subst ρ' = a

theorem subst_ground {u : Term} (h : u.vars = []) (ρ : String → Term) : u.subst ρ = u := by
  conv => rhs; rw [← Term.subst_id u]
  apply Term.subst_congr
  intro x hx; rw [h] at hx; cases hx

theorem applyS_ground {u : Term} (h : u.vars = []) (σ : Subst) : applyS σ u = u := by
  rw [applyS_eq_subst]; exact subst_ground h _

/-! ## functor/3 -/

/-- Inspection mode: `functor(T, N, A)` with `T` non-variable and `N`, `A` distinct unbound
    variables binds `N` to the name and `A` to the arity of `T` (for an atomic `T`: `T` and 0). -/
theorem C23_functor_inspect (avoid : List String) {t : Term} (ht : isVar t = false)
    {N A : String} (hne : N ≠ A) :
    functor3 avoid t (.var N) (.var A) = .ok [(A, .int (arityOf t)), (N, nameOf t)] := by
  have hne' : A ≠ N := fun e => hne e.symm
  cases t with
  | var x => simp [isVar] at ht
  | str f args =>
      simp only [functor3, unifyAll, nameOf, arityOf]
      rw [solve_bind (by simp [Term.vars])]
      simp only [substE, List.map_cons, List.map_nil, subst1, Term.subst, single, hne', if_false]
      rw [solve_bind (by simp [Term.vars])]
      simp [substE, solve, ofOutcome]
  | int v =>
      simp only [functor3, unifyAll, nameOf, arityOf]
      rw [solve_bind (by simp [Term.vars])]
      simp only [substE, List.map_cons, List.map_nil, subst1, Term.subst, single, hne', if_false]
      rw [solve_bind (by simp [Term.vars])]
      simp [substE, solve, ofOutcome]
  | rat n d =>
      simp only [functor3, unifyAll, nameOf, arityOf]
      rw [solve_bind (by simp [Term.vars])]
      simp only [substE, List.map_cons, List.map_nil, subst1, Term.subst, single, hne', if_false]
      rw [solve_bind (by simp [Term.vars])]
      simp [substE, solve, ofOutcome]
  | flt b =>
      simp only [functor3, unifyAll, nameOf, arityOf]
      rw [solve_bind (by simp [Term.vars])]
      simp only [substE, List.map_cons, List.map_nil, subst1, Term.subst, single, hne', if_false]
      rw [solve_bind (by simp [Term.vars])]
      simp [substE, solve, ofOutcome]
  | atom a =>
      simp only [functor3, unifyAll, nameOf, arityOf]
      rw [solve_bind (by simp [Term.vars])]
      simp only [substE, List.map_cons, List.map_nil, subst1, Term.subst, single, hne', if_false]
      rw [solve_bind (by simp [Term.vars])]
      simp [substE, solve, ofOutcome]

/-- Checking mode: for a non-variable `T` the call is exactly the unification of `N` with the name
    and then of `A` with the arity; no error is possible. -/
theorem C23_functor_nonvar (avoid : List String) {t : Term} (ht : isVar t = false) (n a : Term) :
    functor3 avoid t n a = unifyAll [(n, nameOf t), (a, .int (arityOf t))] := by
  cases t <;> simp_all [functor3, isVar, nameOf, arityOf]

/-- … so an answer makes `N` the name and `A` the arity. -/
theorem C23_functor_nonvar_sound (avoid : List String) {t : Term} (ht : isVar t = false)
    {n a : Term} {σ : Subst} (h : functor3 avoid t n a = .ok σ) :
    applyS σ n = nameOf t ∧ applyS σ a = .int (arityOf t) := by
  rw [C23_functor_nonvar avoid ht] at h
  unfold unifyAll at h
  cases hs : solve [(n, nameOf t), (a, .int (arityOf t))] [] with
  | ok τ =>
      rw [hs] at h
      simp only [ofOutcome, Res.ok.injEq] at h
      subst h
      have g := solve_nil_ok hs
      have h1 : applyS τ n = applyS τ (nameOf t) := g.solves (n, nameOf t) (by simp)
      have h2 : applyS τ a = applyS τ (.int (arityOf t)) := g.solves (a, .int (arityOf t)) (by simp)
      have gname : (nameOf t).vars = [] := by
        cases t <;> simp_all [nameOf, isVar]
      rw [applyS_ground gname] at h1
      rw [applyS_ground (u := .int (arityOf t)) (by simp [Term.vars])] at h2
      exact ⟨h1, h2⟩
  | clash => rw [hs] at h; simp [ofOutcome] at h
  | cyclic => rw [hs] at h; simp [ofOutcome] at h

/-- Construction mode: `functor(T, f, k)` with `T` unbound, `f` an atom and `0 < k ≤ max_arity`
    binds `T` to `f(F1,…,Fk)` whose arguments are `k` pairwise distinct variables that occur
    nowhere else (neither `T` nor any name to avoid). -/
theorem C23_functor_construct (avoid : List String) (x f : String) {k : Nat} (hk : 0 < k)
    (hmax : k ≤ maxArity) :
    ∃ fresh : List String, fresh.length = k ∧ fresh.Nodup ∧ (∀ y ∈ fresh, y ≠ x ∧ y ∉ avoid) ∧
      functor3 avoid (.var x) (.atom f) (.int k) = .ok [(x, .str f (fresh.map Term.var))] := by
  refine ⟨freshNames (x :: avoid) k, freshNames_length _ _, freshNames_nodup _ _, ?_, ?_⟩
  · intro y hy
    have := freshNames_not_mem hy
    simp only [List.mem_cons, not_or] at this
    exact this
  · have h1 : ¬ ((k : Int) > (maxArity : Int)) := by omega
    have h2 : ¬ ((k : Int) < 0) := by omega
    simp only [functor3, isVar, Bool.or_self, Bool.false_eq_true, if_false, h1, h2, Int.toNat_natCast]
    have : (freshNames (x :: avoid) k).map Term.var ≠ [] := by
      intro e
      have := congrArg List.length e
      simp [freshNames_length] at this
      omega
    cases hm : (freshNames (x :: avoid) k).map Term.var with
    | nil => exact absurd hm this
    | cons a l => simp [mkStr]

/-- Construction with arity 0: `T` is bound to the (atomic) name itself. -/
theorem C23_functor_construct_atomic (avoid : List String) (x : String) {c : Term}
    (hc : isAtomic c = true) :
    functor3 avoid (.var x) c (.int 0) = .ok [(x, c)] := by
  cases c <;> simp_all [functor3, isAtomic, isVar, maxArity, freshNames, freshFrom, mkStr]

/-- Round trip: constructing with `f`, `k` and then inspecting returns `f` and `k`. -/
theorem C23_functor_roundtrip (avoid avoid' : List String) (x f : String) {k : Nat} (hk : 0 < k)
    (hmax : k ≤ maxArity) {N A : String} (hne : N ≠ A) :
    ∃ t, functor3 avoid (.var x) (.atom f) (.int k) = .ok [(x, t)] ∧
      functor3 avoid' t (.var N) (.var A) = .ok [(A, .int k), (N, .atom f)] := by
  obtain ⟨fresh, hl, _, _, h⟩ := C23_functor_construct avoid x f hk hmax
  refine ⟨_, h, ?_⟩
  have := C23_functor_inspect avoid' (t := .str f (fresh.map Term.var)) rfl hne
  simpa [arityOf, nameOf, hl] using this

/-- 8.5.1.3 a), b): `T` and (`N` or `A`) unbound. -/
theorem C23_functor_err_inst (avoid : List String) (x : String) {n a : Term}
    (h : isVar n = true ∨ isVar a = true) :
    functor3 avoid (.var x) n a = .err instErr := by
  rcases h with h | h <;> simp [functor3, h]

/-- 8.5.1.3 d): the arity is neither a variable nor an integer (floats, rationals included). -/
theorem C23_functor_err_integer (avoid : List String) (x : String) {n a : Term}
    (hn : isVar n = false) (ha : isVar a = false) (hi : ∀ v, a ≠ .int v) :
    functor3 avoid (.var x) n a = .err (typeErr "integer" a) := by
  cases a <;> simp_all [functor3, isVar]

/-- 8.5.1.3 f): arity above `max_arity` (255), bignums included. -/
theorem C23_functor_err_max_arity (avoid : List String) (x : String) {n : Term} {v : Int}
    (hn : isVar n = false) (hv : v > (maxArity : Int)) :
    functor3 avoid (.var x) n (.int v) = .err (repErr "max_arity") := by
  have ha : isVar (Term.int v) = false := rfl
  simp [functor3, ha, hn, hv]

/-- 8.5.1.3 g): negative arity. -/
theorem C23_functor_err_negative (avoid : List String) (x : String) {n : Term} {v : Int}
    (hn : isVar n = false) (hv : v < 0) :
    functor3 avoid (.var x) n (.int v) = .err (domErr "not_less_than_zero" (.int v)) := by
  have h1 : ¬ v > (maxArity : Int) := by simp [maxArity]; omega
  have ha : isVar (Term.int v) = false := rfl
  simp [functor3, ha, hn, hv, h1]

/-- 8.5.1.3 c): a compound name (whatever the admissible arity). -/
theorem C23_functor_err_atomic (avoid : List String) (x g : String) (as : List Term) {v : Int}
    (h0 : 0 ≤ v) (hmax : v ≤ (maxArity : Int)) :
    functor3 avoid (.var x) (.str g as) (.int v) = .err (typeErr "atomic" (.str g as)) := by
  have h1 : ¬ v > (maxArity : Int) := by omega
  have h2 : ¬ v < 0 := by omega
  simp [functor3, isVar, h1, h2]

/-- 8.5.1.3 e): a number as the name of a term with arguments. -/
theorem C23_functor_err_atom (avoid : List String) (x : String) {n : Term} (hn : isNumber n = true)
    {v : Int} (h0 : 0 < v) (hmax : v ≤ (maxArity : Int)) :
    functor3 avoid (.var x) n (.int v) = .err (typeErr "atom" n) := by
  have h1 : ¬ (maxArity : Int) < v := by omega
  have h2 : ¬ v < 0 := by omega
  have h3 : v ≠ 0 := by omega
  cases n <;> simp [functor3, isVar, isNumber, h1, h2, h3] at hn ⊢

/-- functor/3 raises an error only when its first argument is unbound. -/
theorem C23_functor_err_only_if_var (avoid : List String) {t n a e : Term}
    (h : functor3 avoid t n a = .err e) : isVar t = true := by
  cases ht : isVar t with
  | true => rfl
  | false =>
      rw [C23_functor_nonvar avoid ht] at h
      unfold unifyAll at h
      cases hs : solve [(n, nameOf t), (a, .int (arityOf t))] [] <;> rw [hs] at h <;>
        simp [ofOutcome] at h

/-! ## arg/3 -/

/-- `arg(N, T, X)` with `T` compound and `1 ≤ N ≤ arity`: exactly the unification of `X` with the
    `N`-th argument. -/
theorem C23_arg_in_range (f : String) (args : List Term) (i : Nat) (h : i < args.length) (x : Term) :
    arg3 (.int ((i : Int) + 1)) (.str f args) x = unifyAll [(x, args[i])] :=
  arg3_str_some (by omega) ((nth1?_eq_some_iff ..).mpr ⟨i, rfl, h, rfl⟩) x

/-- selection: with `X` a variable not occurring in the selected argument, `X` is bound to it. -/
theorem C23_arg_select (f : String) (args : List Term) (i : Nat) (h : i < args.length) {X : String}
    (hX : X ∉ args[i].vars) :
    arg3 (.int ((i : Int) + 1)) (.str f args) (.var X) = .ok [(X, args[i])] := by
  rw [C23_arg_in_range f args i h]
  exact unifyAll_bind hX

/-- out of range (`N = 0` or `N > arity`, bignums included): failure, no error. -/
theorem C23_arg_out_of_range (f : String) (args : List Term) {v : Int} (hv : 0 ≤ v)
    (h : v = 0 ∨ (args.length : Int) < v) (x : Term) :
    arg3 (.int v) (.str f args) x = .fail :=
  arg3_str_none (by omega) ((nth1?_eq_none_iff ..).mpr (by omega)) x

/-- success characterised: `arg(N, T, X)` has an answer σ iff `T` is compound, `1 ≤ N ≤ arity`
    and σ is the result of unifying `X` with the `N`-th argument. -/
theorem C23_arg_ok_iff (n t x : Term) (σ : Subst) :
    arg3 n t x = .ok σ ↔
      ∃ (i : Nat) (f : String) (args : List Term) (h : i < args.length),
        n = .int ((i : Int) + 1) ∧ t = .str f args ∧ unifyAll [(x, args[i])] = .ok σ := by
  constructor
  · intro h
    cases n with
    | int v =>
        by_cases hv : v < 0
        · rw [arg3_neg hv] at h; cases h
        · cases t with
          | str f args =>
              cases hn : nth1? args v with
              | none => rw [arg3_str_none hv hn] at h; cases h
              | some u =>
                  rw [arg3_str_some hv hn] at h
                  obtain ⟨i, rfl, hlt, rfl⟩ := (nth1?_eq_some_iff ..).mp hn
                  exact ⟨i, f, args, hlt, rfl, rfl, h⟩
          | var y => rw [arg3_var_t hv] at h; cases h
          | int w => rw [arg3_noncompound hv rfl rfl] at h; cases h
          | rat a b => rw [arg3_noncompound hv rfl rfl] at h; cases h
          | flt b => rw [arg3_noncompound hv rfl rfl] at h; cases h
          | atom a => rw [arg3_noncompound hv rfl rfl] at h; cases h
    | var y => cases h
    | str f args => rw [arg3_nonint rfl (by intro v; simp)] at h; cases h
    | rat a b => rw [arg3_nonint rfl (by intro v; simp)] at h; cases h
    | flt b => rw [arg3_nonint rfl (by intro v; simp)] at h; cases h
    | atom a => rw [arg3_nonint rfl (by intro v; simp)] at h; cases h
  · rintro ⟨i, f, args, hlt, rfl, rfl, h⟩
    rw [C23_arg_in_range f args i hlt]; exact h

/-- the error conditions of ISO 8.5.2.3 a)–e). -/
def ArgIsoError (n t : Term) : Prop :=
  isVar n = true ∨ isVar t = true ∨ (isVar n = false ∧ ∀ v, n ≠ .int v) ∨
    (isVar t = false ∧ isCompound t = false) ∨ ∃ v, n = .int v ∧ v < 0

/-- the formal of an arg/3 error is the one ISO prescribes for a condition that holds. -/
theorem C23_arg_error_formal {n t x e : Term} (h : arg3 n t x = .err e) :
    (e = instErr ∧ (isVar n = true ∨ isVar t = true)) ∨
    (e = typeErr "integer" n ∧ isVar n = false ∧ ∀ v, n ≠ .int v) ∨
    (e = typeErr "compound" t ∧ isVar t = false ∧ isCompound t = false) ∨
    (e = domErr "not_less_than_zero" n ∧ ∃ v, n = .int v ∧ v < 0) := by
  have nonint : ∀ {n : Term}, isVar n = false → (∀ v, n ≠ .int v) → arg3 n t x = .err e →
      (e = typeErr "integer" n ∧ isVar n = false ∧ ∀ v, n ≠ .int v) := by
    intro n h1 h2 h
    rw [arg3_nonint h1 h2] at h
    injection h with h
    exact ⟨h.symm, h1, h2⟩
  have noncomp : ∀ {v : Int} {t : Term}, ¬ v < 0 → isVar t = false → isCompound t = false →
      arg3 (.int v) t x = .err e → (e = typeErr "compound" t ∧ isVar t = false ∧ isCompound t = false) := by
    intro v t hv h1 h2 h
    rw [arg3_noncompound hv h1 h2] at h
    injection h with h
    exact ⟨h.symm, h1, h2⟩
  cases n with
  | int v =>
      by_cases hv : v < 0
      · rw [arg3_neg hv] at h
        injection h with h
        exact Or.inr (Or.inr (Or.inr ⟨h.symm, v, rfl, hv⟩))
      · cases t with
        | str f args =>
            cases hn : nth1? args v with
            | none => rw [arg3_str_none hv hn] at h; cases h
            | some u => rw [arg3_str_some hv hn] at h; exact absurd h (unifyAll_ne_err _ _)
        | var y =>
            rw [arg3_var_t hv] at h
            injection h with h
            exact Or.inl ⟨h.symm, Or.inr rfl⟩
        | int w => exact Or.inr (Or.inr (Or.inl (noncomp hv rfl rfl h)))
        | rat a b => exact Or.inr (Or.inr (Or.inl (noncomp hv rfl rfl h)))
        | flt b => exact Or.inr (Or.inr (Or.inl (noncomp hv rfl rfl h)))
        | atom a => exact Or.inr (Or.inr (Or.inl (noncomp hv rfl rfl h)))
  | var y =>
      rw [arg3_var_n] at h
      injection h with h
      exact Or.inl ⟨h.symm, Or.inl rfl⟩
  | str f args => exact Or.inr (Or.inl (nonint rfl (by intro v; simp) h))
  | rat a b => exact Or.inr (Or.inl (nonint rfl (by intro v; simp) h))
  | flt b => exact Or.inr (Or.inl (nonint rfl (by intro v; simp) h))
  | atom a => exact Or.inr (Or.inl (nonint rfl (by intro v; simp) h))

/-- arg/3 raises an error exactly when one of the ISO error conditions holds (whatever the other
    arguments are: a huge `N` does not hide an unbound or non-compound `T`). -/
theorem C23_arg_error_iff (n t x : Term) : (∃ e, arg3 n t x = .err e) ↔ ArgIsoError n t := by
  constructor
  · rintro ⟨e, h⟩
    rcases C23_arg_error_formal h with ⟨_, h | h⟩ | ⟨_, h⟩ | ⟨_, h⟩ | ⟨_, h⟩
    · exact Or.inl h
    · exact Or.inr (Or.inl h)
    · exact Or.inr (Or.inr (Or.inl h))
    · exact Or.inr (Or.inr (Or.inr (Or.inl h)))
    · exact Or.inr (Or.inr (Or.inr (Or.inr h)))
  · intro h
    cases n with
    | int v =>
        by_cases hv : v < 0
        · exact ⟨_, arg3_neg hv t x⟩
        · cases t with
          | var y => exact ⟨_, arg3_var_t hv y x⟩
          | int w => exact ⟨_, arg3_noncompound hv rfl rfl x⟩
          | rat a b => exact ⟨_, arg3_noncompound hv rfl rfl x⟩
          | flt b => exact ⟨_, arg3_noncompound hv rfl rfl x⟩
          | atom a => exact ⟨_, arg3_noncompound hv rfl rfl x⟩
          | str f args =>
              exfalso
              rcases h with h | h | ⟨_, h⟩ | ⟨_, h⟩ | ⟨w, hw, hlt⟩
              · simp [isVar] at h
              · simp [isVar] at h
              · exact h v rfl
              · simp [isCompound] at h
              · injection hw with hw; subst hw; exact hv hlt
    | var y => exact ⟨_, rfl⟩
    | str f args => exact ⟨_, arg3_nonint rfl (by intro v; simp) t x⟩
    | rat a b => exact ⟨_, arg3_nonint rfl (by intro v; simp) t x⟩
    | flt b => exact ⟨_, arg3_nonint rfl (by intro v; simp) t x⟩
    | atom a => exact ⟨_, arg3_nonint rfl (by intro v; simp) t x⟩

/-- Finding C23-1 (pinned behaviour): with `N = 2^64` the pinned `try_arg` fails although `T` is
    unbound (ISO 8.5.2.3 b: instantiation_error) … -/
theorem C23_1_pinned_arg_hides_unbound_term :
    arg3Pinned (.int (2 ^ 64)) (.var "T") (.var "X") = .fail ∧
    ArgIsoError (.int (2 ^ 64)) (.var "T") ∧
    arg3 (.int (2 ^ 64)) (.var "T") (.var "X") = .err instErr := by
  refine ⟨by simp [arg3Pinned], Or.inr (Or.inl rfl), by simp [arg3]⟩

/-- … and although `T` is not compound (8.5.2.3 d: type_error(compound, T)). -/
theorem C23_1_pinned_arg_hides_noncompound_term :
    arg3Pinned (.int (2 ^ 64)) (.atom "a") (.var "X") = .fail ∧
    arg3 (.int (2 ^ 64)) (.atom "a") (.var "X") = .err (typeErr "compound" (.atom "a")) := by
  refine ⟨by simp [arg3Pinned], by simp [arg3]⟩

/-- below `2^64` the pinned code and the repaired model coincide. -/
theorem C23_arg_pinned_eq {n : Term} (h : ∀ v, n = .int v → v < 2 ^ 64) (t x : Term) :
    arg3Pinned n t x = arg3 n t x := by
  cases n with
  | int v =>
      have h1 := h v rfl
      simp only [arg3Pinned]
      rw [if_neg (by omega)]
  | _ => simp [arg3Pinned]

end Scryer.C23
