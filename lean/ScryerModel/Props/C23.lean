import ScryerModel.Proofs.TermOps
/-
C23 — term construction and inspection builtins match a term model.

The model (`Model/TermOps.lean`) mirrors `try_functor`, `try_arg`, `univ_errors/3`+`univ_worker/3`,
`can_be_list/2`+`'$term_variables'`, `ground_test` and the body of `subsumes_term/2`; `copy_term/2`
is a renaming with fresh variables followed by a unification.  The theorems below are about ALL
terms (no size bound).  They are tied to the implementation by `vlib/props/C23.py`.
-/
namespace Scryer.C23
open Scryer Scryer.Term Scryer.Unify Scryer.TermOps

/-- principal functor name of a non-variable term (an atomic term is its own name). -/
def nameOf : Term → Term
  | .str f _ => .atom f
  | t => t

def arityOf : Term → Nat
  | .str _ args => args.length
  | _ => 0

def argsOf : Term → List Term
  | .str _ args => args
  | _ => []

/-! ## functor/3 -/

/-- Inspection mode: `functor(T, N, A)` with `T` non-variable and `N`, `A` distinct unbound
    variables binds `N` to the name and `A` to the arity of `T` (for an atomic `T`: `T` and 0). -/
theorem C23_functor_inspect (avoid : List String) {t : Term} (ht : isVar t = false)
    {N A : String} (hne : N ≠ A) :
    functor3 avoid t (.var N) (.var A) = .ok [(A, .int (arityOf t)), (N, nameOf t)] := by
  have hne' : A ≠ N := fun e => hne e.symm
  cases t with
  | var x => simp [isVar] at ht
  | str f args =>
      simp only [functor3, unifyAll, nameOf, arityOf]
      rw [solve_bind (by simp [Term.vars])]
      simp only [substE, List.map_cons, List.map_nil, subst1, Term.subst, single, hne', if_false]
      rw [solve_bind (by simp [Term.vars])]
      simp [substE, solve, ofOutcome]
  | int v =>
      simp only [functor3, unifyAll, nameOf, arityOf]
      rw [solve_bind (by simp [Term.vars])]
      simp only [substE, List.map_cons, List.map_nil, subst1, Term.subst, single, hne', if_false]
      rw [solve_bind (by simp [Term.vars])]
      simp [substE, solve, ofOutcome]
  | rat n d =>
      simp only [functor3, unifyAll, nameOf, arityOf]
      rw [solve_bind (by simp [Term.vars])]
      simp only [substE, List.map_cons, List.map_nil, subst1, Term.subst, single, hne', if_false]
      rw [solve_bind (by simp [Term.vars])]
      simp [substE, solve, ofOutcome]
  | flt b =>
      simp only [functor3, unifyAll, nameOf, arityOf]
      rw [solve_bind (by simp [Term.vars])]
      simp only [substE, List.map_cons, List.map_nil, subst1, Term.subst, single, hne', if_false]
      rw [solve_bind (by simp [Term.vars])]
      simp [substE, solve, ofOutcome]
  | atom a =>
      simp only [functor3, unifyAll, nameOf, arityOf]
      rw [solve_bind (by simp [Term.vars])]
      simp only [substE, List.map_cons, List.map_nil, subst1, Term.subst, single, hne', if_false]
      rw [solve_bind (by simp [Term.vars])]
      simp [substE, solve, ofOutcome]

/-- Checking mode: for a non-variable `T` the call is exactly the unification of `N` with the name
    and then of `A` with the arity; no error is possible. -/
theorem C23_functor_nonvar (avoid : List String) {t : Term} (ht : isVar t = false) (n a : Term) :
    functor3 avoid t n a = unifyAll [(n, nameOf t), (a, .int (arityOf t))] := by
  cases t <;> simp_all [functor3, isVar, nameOf, arityOf]

/-- … so an answer makes `N` the name and `A` the arity. -/
theorem C23_functor_nonvar_sound (avoid : List String) {t : Term} (ht : isVar t = false)
    {n a : Term} {σ : Subst} (h : functor3 avoid t n a = .ok σ) :
    applyS σ n = nameOf t ∧ applyS σ a = .int (arityOf t) := by
  rw [C23_functor_nonvar avoid ht] at h
  unfold unifyAll at h
  cases hs : solve [(n, nameOf t), (a, .int (arityOf t))] [] with
  | ok τ =>
      rw [hs] at h
      simp only [ofOutcome, Res.ok.injEq] at h
      subst h
      have g := solve_nil_ok hs
      have h1 : applyS τ n = applyS τ (nameOf t) := g.solves (n, nameOf t) (by simp)
      have h2 : applyS τ a = applyS τ (.int (arityOf t)) := g.solves (a, .int (arityOf t)) (by simp)
      have gname : (nameOf t).vars = [] := by
        cases t <;> simp_all [nameOf, isVar]
      rw [applyS_ground gname] at h1
      rw [applyS_ground (u := .int (arityOf t)) (by simp [Term.vars])] at h2
      exact ⟨h1, h2⟩
  | clash => rw [hs] at h; simp [ofOutcome] at h
  | cyclic => rw [hs] at h; simp [ofOutcome] at h

/-- Construction mode: `functor(T, f, k)` with `T` unbound, `f` an atom and `0 < k ≤ max_arity`
    binds `T` to `f(F1,…,Fk)` whose arguments are `k` pairwise distinct variables that occur
    nowhere else (neither `T` nor any name to avoid). -/
theorem C23_functor_construct (avoid : List String) (x f : String) {k : Nat} (hk : 0 < k)
    (hmax : k ≤ maxArity) :
    ∃ fresh : List String, fresh.length = k ∧ fresh.Nodup ∧ (∀ y ∈ fresh, y ≠ x ∧ y ∉ avoid) ∧
      functor3 avoid (.var x) (.atom f) (.int k) = .ok [(x, .str f (fresh.map Term.var))] := by
  refine ⟨freshNames (x :: avoid) k, freshNames_length _ _, freshNames_nodup _ _, ?_, ?_⟩
  · intro y hy
    have := freshNames_not_mem hy
    simp only [List.mem_cons, not_or] at this
    exact this
  · have h1 : ¬ ((k : Int) > (maxArity : Int)) := by omega
    have h2 : ¬ ((k : Int) < 0) := by omega
    simp only [functor3, isVar, Bool.or_self, Bool.false_eq_true, if_false, h1, h2, Int.toNat_natCast]
    have : (freshNames (x :: avoid) k).map Term.var ≠ [] := by
      intro e
      have := congrArg List.length e
      simp [freshNames_length] at this
      omega
    cases hm : (freshNames (x :: avoid) k).map Term.var with
    | nil => exact absurd hm this
    | cons a l => simp [mkStr]

/-- Construction with arity 0: `T` is bound to the (atomic) name itself. -/
theorem C23_functor_construct_atomic (avoid : List String) (x : String) {c : Term}
    (hc : isAtomic c = true) :
    functor3 avoid (.var x) c (.int 0) = .ok [(x, c)] := by
  cases c <;> simp_all [functor3, isAtomic, isVar, maxArity, freshNames, freshFrom, mkStr]

/-- Round trip: constructing with `f`, `k` and then inspecting returns `f` and `k`. -/
theorem C23_functor_roundtrip (avoid avoid' : List String) (x f : String) {k : Nat} (hk : 0 < k)
    (hmax : k ≤ maxArity) {N A : String} (hne : N ≠ A) :
    ∃ t, functor3 avoid (.var x) (.atom f) (.int k) = .ok [(x, t)] ∧
      functor3 avoid' t (.var N) (.var A) = .ok [(A, .int k), (N, .atom f)] := by
  obtain ⟨fresh, hl, _, _, h⟩ := C23_functor_construct avoid x f hk hmax
  refine ⟨_, h, ?_⟩
  have := C23_functor_inspect avoid' (t := .str f (fresh.map Term.var)) rfl hne
  simpa [arityOf, nameOf, hl] using this

/-- 8.5.1.3 a), b): `T` and (`N` or `A`) unbound. -/
theorem C23_functor_err_inst (avoid : List String) (x : String) {n a : Term}
    (h : isVar n = true ∨ isVar a = true) :
    functor3 avoid (.var x) n a = .err instErr := by
  rcases h with h | h <;> simp [functor3, h]

/-- 8.5.1.3 d): the arity is neither a variable nor an integer (floats, rationals included). -/
theorem C23_functor_err_integer (avoid : List String) (x : String) {n a : Term}
    (hn : isVar n = false) (ha : isVar a = false) (hi : ∀ v, a ≠ .int v) :
    functor3 avoid (.var x) n a = .err (typeErr "integer" a) := by
  cases a <;> simp_all [functor3, isVar]

/-- 8.5.1.3 f): arity above `max_arity` (255), bignums included. -/
theorem C23_functor_err_max_arity (avoid : List String) (x : String) {n : Term} {v : Int}
    (hn : isVar n = false) (hv : v > (maxArity : Int)) :
    functor3 avoid (.var x) n (.int v) = .err (repErr "max_arity") := by
  have ha : isVar (Term.int v) = false := rfl
  simp [functor3, ha, hn, hv]

/-- 8.5.1.3 g): negative arity. -/
theorem C23_functor_err_negative (avoid : List String) (x : String) {n : Term} {v : Int}
    (hn : isVar n = false) (hv : v < 0) :
    functor3 avoid (.var x) n (.int v) = .err (domErr "not_less_than_zero" (.int v)) := by
  have h1 : ¬ v > (maxArity : Int) := by simp [maxArity]; omega
  have ha : isVar (Term.int v) = false := rfl
  simp [functor3, ha, hn, hv, h1]

/-- 8.5.1.3 c): a compound name (whatever the admissible arity). -/
theorem C23_functor_err_atomic (avoid : List String) (x g : String) (as : List Term) {v : Int}
    (h0 : 0 ≤ v) (hmax : v ≤ (maxArity : Int)) :
    functor3 avoid (.var x) (.str g as) (.int v) = .err (typeErr "atomic" (.str g as)) := by
  have h1 : ¬ v > (maxArity : Int) := by omega
  have h2 : ¬ v < 0 := by omega
  simp [functor3, isVar, h1, h2]

/-- 8.5.1.3 e): a number as the name of a term with arguments. -/
theorem C23_functor_err_atom (avoid : List String) (x : String) {n : Term} (hn : isNumber n = true)
    {v : Int} (h0 : 0 < v) (hmax : v ≤ (maxArity : Int)) :
    functor3 avoid (.var x) n (.int v) = .err (typeErr "atom" n) := by
  have h1 : ¬ (maxArity : Int) < v := by omega
  have h2 : ¬ v < 0 := by omega
  have h3 : v ≠ 0 := by omega
  cases n <;> simp [functor3, isVar, isNumber, h1, h2, h3] at hn ⊢

/-- functor/3 raises an error only when its first argument is unbound. -/
theorem C23_functor_err_only_if_var (avoid : List String) {t n a e : Term}
    (h : functor3 avoid t n a = .err e) : isVar t = true := by
  cases ht : isVar t with
  | true => rfl
  | false =>
      rw [C23_functor_nonvar avoid ht] at h
      unfold unifyAll at h
      cases hs : solve [(n, nameOf t), (a, .int (arityOf t))] [] <;> rw [hs] at h <;>
        simp [ofOutcome] at h

/-! ## arg/3 -/

/-- `arg(N, T, X)` with `T` compound and `1 ≤ N ≤ arity`: exactly the unification of `X` with the
    `N`-th argument. -/
theorem C23_arg_in_range (f : String) (args : List Term) (i : Nat) (h : i < args.length) (x : Term) :
    arg3 (.int ((i : Int) + 1)) (.str f args) x = unifyAll [(x, args[i])] :=
  arg3_str_some (by omega) ((nth1?_eq_some_iff ..).mpr ⟨i, rfl, h, rfl⟩) x

/-- selection: with `X` a variable not occurring in the selected argument, `X` is bound to it. -/
theorem C23_arg_select (f : String) (args : List Term) (i : Nat) (h : i < args.length) {X : String}
    (hX : X ∉ args[i].vars) :
    arg3 (.int ((i : Int) + 1)) (.str f args) (.var X) = .ok [(X, args[i])] := by
  rw [C23_arg_in_range f args i h]
  exact unifyAll_bind hX

/-- out of range (`N = 0` or `N > arity`, bignums included): failure, no error. -/
theorem C23_arg_out_of_range (f : String) (args : List Term) {v : Int} (hv : 0 ≤ v)
    (h : v = 0 ∨ (args.length : Int) < v) (x : Term) :
    arg3 (.int v) (.str f args) x = .fail :=
  arg3_str_none (by omega) ((nth1?_eq_none_iff ..).mpr (by omega)) x

/-- success characterised: `arg(N, T, X)` has an answer σ iff `T` is compound, `1 ≤ N ≤ arity`
    and σ is the result of unifying `X` with the `N`-th argument. -/
theorem C23_arg_ok_iff (n t x : Term) (σ : Subst) :
    arg3 n t x = .ok σ ↔
      ∃ (i : Nat) (f : String) (args : List Term) (h : i < args.length),
        n = .int ((i : Int) + 1) ∧ t = .str f args ∧ unifyAll [(x, args[i])] = .ok σ := by
  constructor
  · intro h
    cases n with
    | int v =>
        by_cases hv : v < 0
        · rw [arg3_neg hv] at h; cases h
        · cases t with
          | str f args =>
              cases hn : nth1? args v with
              | none => rw [arg3_str_none hv hn] at h; cases h
              | some u =>
                  rw [arg3_str_some hv hn] at h
                  obtain ⟨i, rfl, hlt, rfl⟩ := (nth1?_eq_some_iff ..).mp hn
                  exact ⟨i, f, args, hlt, rfl, rfl, h⟩
          | var y => rw [arg3_var_t hv] at h; cases h
          | int w => rw [arg3_noncompound hv rfl rfl] at h; cases h
          | rat a b => rw [arg3_noncompound hv rfl rfl] at h; cases h
          | flt b => rw [arg3_noncompound hv rfl rfl] at h; cases h
          | atom a => rw [arg3_noncompound hv rfl rfl] at h; cases h
    | var y => cases h
    | str f args => rw [arg3_nonint rfl (by intro v; simp)] at h; cases h
    | rat a b => rw [arg3_nonint rfl (by intro v; simp)] at h; cases h
    | flt b => rw [arg3_nonint rfl (by intro v; simp)] at h; cases h
    | atom a => rw [arg3_nonint rfl (by intro v; simp)] at h; cases h
  · rintro ⟨i, f, args, hlt, rfl, rfl, h⟩
    rw [C23_arg_in_range f args i hlt]; exact h

/-- the error conditions of ISO 8.5.2.3 a)–e). -/
def ArgIsoError (n t : Term) : Prop :=
  isVar n = true ∨ isVar t = true ∨ (isVar n = false ∧ ∀ v, n ≠ .int v) ∨
    (isVar t = false ∧ isCompound t = false) ∨ ∃ v, n = .int v ∧ v < 0

/-- the formal of an arg/3 error is the one ISO prescribes for a condition that holds. -/
theorem C23_arg_error_formal {n t x e : Term} (h : arg3 n t x = .err e) :
    (e = instErr ∧ (isVar n = true ∨ isVar t = true)) ∨
    (e = typeErr "integer" n ∧ isVar n = false ∧ ∀ v, n ≠ .int v) ∨
    (e = typeErr "compound" t ∧ isVar t = false ∧ isCompound t = false) ∨
    (e = domErr "not_less_than_zero" n ∧ ∃ v, n = .int v ∧ v < 0) := by
  have nonint : ∀ {n : Term}, isVar n = false → (∀ v, n ≠ .int v) → arg3 n t x = .err e →
      (e = typeErr "integer" n ∧ isVar n = false ∧ ∀ v, n ≠ .int v) := by
    intro n h1 h2 h
    rw [arg3_nonint h1 h2] at h
    injection h with h
    exact ⟨h.symm, h1, h2⟩
  have noncomp : ∀ {v : Int} {t : Term}, ¬ v < 0 → isVar t = false → isCompound t = false →
      arg3 (.int v) t x = .err e → (e = typeErr "compound" t ∧ isVar t = false ∧ isCompound t = false) := by
    intro v t hv h1 h2 h
    rw [arg3_noncompound hv h1 h2] at h
    injection h with h
    exact ⟨h.symm, h1, h2⟩
  cases n with
  | int v =>
      by_cases hv : v < 0
      · rw [arg3_neg hv] at h
        injection h with h
        exact Or.inr (Or.inr (Or.inr ⟨h.symm, v, rfl, hv⟩))
      · cases t with
        | str f args =>
            cases hn : nth1? args v with
            | none => rw [arg3_str_none hv hn] at h; cases h
            | some u => rw [arg3_str_some hv hn] at h; exact absurd h (unifyAll_ne_err _ _)
        | var y =>
            rw [arg3_var_t hv] at h
            injection h with h
            exact Or.inl ⟨h.symm, Or.inr rfl⟩
        | int w => exact Or.inr (Or.inr (Or.inl (noncomp hv rfl rfl h)))
        | rat a b => exact Or.inr (Or.inr (Or.inl (noncomp hv rfl rfl h)))
        | flt b => exact Or.inr (Or.inr (Or.inl (noncomp hv rfl rfl h)))
        | atom a => exact Or.inr (Or.inr (Or.inl (noncomp hv rfl rfl h)))
  | var y =>
      rw [arg3_var_n] at h
      injection h with h
      exact Or.inl ⟨h.symm, Or.inl rfl⟩
  | str f args => exact Or.inr (Or.inl (nonint rfl (by intro v; simp) h))
  | rat a b => exact Or.inr (Or.inl (nonint rfl (by intro v; simp) h))
  | flt b => exact Or.inr (Or.inl (nonint rfl (by intro v; simp) h))
  | atom a => exact Or.inr (Or.inl (nonint rfl (by intro v; simp) h))

/-- arg/3 raises an error exactly when one of the ISO error conditions holds (whatever the other
    arguments are: a huge `N` does not hide an unbound or non-compound `T`). -/
theorem C23_arg_error_iff (n t x : Term) : (∃ e, arg3 n t x = .err e) ↔ ArgIsoError n t := by
  constructor
  · rintro ⟨e, h⟩
    rcases C23_arg_error_formal h with ⟨_, h | h⟩ | ⟨_, h⟩ | ⟨_, h⟩ | ⟨_, h⟩
    · exact Or.inl h
    · exact Or.inr (Or.inl h)
    · exact Or.inr (Or.inr (Or.inl h))
    · exact Or.inr (Or.inr (Or.inr (Or.inl h)))
    · exact Or.inr (Or.inr (Or.inr (Or.inr h)))
  · intro h
    cases n with
    | int v =>
        by_cases hv : v < 0
        · exact ⟨_, arg3_neg hv t x⟩
        · cases t with
          | var y => exact ⟨_, arg3_var_t hv y x⟩
          | int w => exact ⟨_, arg3_noncompound hv rfl rfl x⟩
          | rat a b => exact ⟨_, arg3_noncompound hv rfl rfl x⟩
          | flt b => exact ⟨_, arg3_noncompound hv rfl rfl x⟩
          | atom a => exact ⟨_, arg3_noncompound hv rfl rfl x⟩
          | str f args =>
              exfalso
              rcases h with h | h | ⟨_, h⟩ | ⟨_, h⟩ | ⟨w, hw, hlt⟩
              · simp [isVar] at h
              · simp [isVar] at h
              · exact h v rfl
              · simp [isCompound] at h
              · injection hw with hw; subst hw; exact hv hlt
    | var y => exact ⟨_, rfl⟩
    | str f args => exact ⟨_, arg3_nonint rfl (by intro v; simp) t x⟩
    | rat a b => exact ⟨_, arg3_nonint rfl (by intro v; simp) t x⟩
    | flt b => exact ⟨_, arg3_nonint rfl (by intro v; simp) t x⟩
    | atom a => exact ⟨_, arg3_nonint rfl (by intro v; simp) t x⟩

/-- Finding C23-1 (pinned behaviour): with `N = 2^64` the pinned `try_arg` fails although `T` is
    unbound (ISO 8.5.2.3 b: instantiation_error) … -/
theorem C23_1_pinned_arg_hides_unbound_term :
    arg3Pinned (.int (2 ^ 64)) (.var "T") (.var "X") = .fail ∧
    ArgIsoError (.int (2 ^ 64)) (.var "T") ∧
    arg3 (.int (2 ^ 64)) (.var "T") (.var "X") = .err instErr := by
  refine ⟨by simp [arg3Pinned], Or.inr (Or.inl rfl), by simp [arg3]⟩

/-- … and although `T` is not compound (8.5.2.3 d: type_error(compound, T)). -/
theorem C23_1_pinned_arg_hides_noncompound_term :
    arg3Pinned (.int (2 ^ 64)) (.atom "a") (.var "X") = .fail ∧
    arg3 (.int (2 ^ 64)) (.atom "a") (.var "X") = .err (typeErr "compound" (.atom "a")) := by
  refine ⟨by simp [arg3Pinned], by simp [arg3]⟩

/-- Finding C23-2 (what the pinned implementation panics on): `X = [b], arg(1, "abc", X)` is the
    plain unification of `[b]` with the first argument `a`, i.e. failure — in the model the mode
    "third argument instantiated" needs no special case. -/
theorem C23_2_arg_first_char_against_bound_list :
    arg3 (.int 1) (Term.ofChars ['a', 'b', 'c']) (Term.ofList [.atom "b"]) = .fail := by
  have := C23_arg_in_range "." [.atom "a", Term.ofChars ['b', 'c']] 0 (by decide)
    (Term.ofList [.atom "b"])
  simp only [Int.ofNat_zero, Int.zero_add, List.getElem_cons_zero] at this
  have e : Term.ofChars ['a', 'b', 'c'] = .str "." [.atom "a", Term.ofChars ['b', 'c']] := rfl
  rw [e, this]
  simp [unifyAll, Term.ofList, Term.cons, solve, constEq, ofOutcome]

/-- below `2^64` the pinned code and the repaired model coincide. -/
theorem C23_arg_pinned_eq {n : Term} (h : ∀ v, n = .int v → v < 2 ^ 64) (t x : Term) :
    arg3Pinned n t x = arg3 n t x := by
  cases n with
  | int v =>
      have h1 := h v rfl
      simp only [arg3Pinned]
      rw [if_neg (by omega)]
  | _ => simp [arg3Pinned]

/-! ## =../2 -/

/-- Decomposition: `T =.. L` with `T` compound and `L` an unbound variable not in `T` binds `L` to
    `[Name|Args]`. -/
theorem C23_univ_decompose (f : String) (args : List Term) {L : String} (hL : L ∉ varsL args) :
    univ (.str f args) (.var L) = .ok [(L, Term.ofList (.atom f :: args))] := by
  have he : univErrors (.str f args) (.var L) = none := by
    rw [univErrors_partial _ _ (by simp [splitList_var])]; rfl
  simp only [univ, he]
  apply unifyAll_bind
  rw [vars_ofList]
  simpa [Term.varsL, Term.nil] using hL

/-- … and for an atomic `T`, `L = [T]`. -/
theorem C23_univ_decompose_atomic {c : Term} (hc : isAtomic c = true) (L : String) :
    univ c (.var L) = .ok [(L, Term.ofList [c])] := by
  have hv : c.vars = [] := by cases c <;> simp_all [isAtomic]
  have he : univErrors c (.var L) = none := by
    rw [univErrors_partial _ _ (by simp [splitList_var])]
    cases c <;> simp_all [isVar, isAtomic]
  have : L ∉ (Term.ofList [c]).vars := by
    rw [vars_ofList]; simp [Term.varsL, hv, Term.nil]
  cases c <;> simp_all [univ, isAtomic] <;> exact unifyAll_bind this

/-- Construction: `T =.. [f|Args]` with `T` unbound, `f` an atom and at most `max_arity` arguments
    not containing `T` binds `T` to `f(Args…)` (to the atom `f` when there are no arguments). -/
theorem C23_univ_construct (x f : String) (args : List Term) (hx : x ∉ varsL args)
    (hmax : args.length ≤ maxArity) :
    univ (.var x) (Term.ofList (.atom f :: args)) = .ok [(x, mkStr f args)] := by
  have hs := splitList_proper (.atom f :: args)
  have hg : ¬ (args.length > maxArity) := by omega
  have he : univErrors (.var x) (Term.ofList (.atom f :: args)) = none := by
    rw [univErrors_proper]
    simp [isVar, isAtom, isCompound, hg]
  simp only [univ, he, hs]
  simp [hx]

/-- … `T =.. [C]` with `C` atomic binds `T` to `C`. -/
theorem C23_univ_construct_atomic (x : String) {c : Term} (hc : isAtomic c = true) :
    univ (.var x) (Term.ofList [c]) = .ok [(x, c)] := by
  have hs := splitList_proper [c]
  have he : univErrors (.var x) (Term.ofList [c]) = none := by
    rw [univErrors_proper]
    cases c <;> simp_all [isVar, isAtom, isCompound, isAtomic, maxArity]
  simp only [univ, he, hs]
  cases c <;> simp_all [isAtomic, Term.varsL, mkStr]

/-- Round trip, both directions: decomposing `f(Args…)` gives `[f|Args]`, and constructing from
    `[f|Args]` gives back a term identical to `f(Args…)`. -/
theorem C23_univ_roundtrip (f : String) (a : Term) (as : List Term)
    (hmax : (a :: as).length ≤ maxArity) {L x : String} (hL : L ∉ varsL (a :: as))
    (hx : x ∉ varsL (a :: as)) :
    univ (.str f (a :: as)) (.var L) = .ok [(L, Term.ofList (.atom f :: a :: as))] ∧
    univ (.var x) (Term.ofList (.atom f :: a :: as)) = .ok [(x, .str f (a :: as))] :=
  ⟨C23_univ_decompose f _ hL, by simpa [mkStr] using C23_univ_construct x f (a :: as) hx hmax⟩

/-- Checking mode: for a compound `T`, once the list argument has passed the error checks, the
    call is the unification of the list with `[Name|Args]`. -/
theorem C23_univ_check (f : String) (args : List Term) {l : Term}
    (he : univErrors (.str f args) l = none) :
    univ (.str f args) l = unifyAll [(l, Term.ofList (.atom f :: args))] := by
  simp [univ, he]

/-- 8.5.3.3 a): `T` unbound and the list partial. -/
theorem C23_univ_err_partial_list (x : String) {l : Term} (h : isVar (splitList l).2 = true) :
    univ (.var x) l = .err instErr := by
  simp [univ, univErrors_partial _ _ h]

/-- 8.5.3.3 b): the second argument is neither a partial list nor a list (whatever `T` is). -/
theorem C23_univ_err_not_list (t : Term) {l : Term} (h1 : isVar (splitList l).2 = false)
    (h2 : isNil (splitList l).2 = false) : univ t l = .err (typeErr "list" l) := by
  simp [univ, univErrors_not_list _ _ h1 h2]

/-- 8.5.3.3 c): `T` unbound and the head of the list unbound. -/
theorem C23_univ_err_var_head (x y : String) (xs : List Term) :
    univ (.var x) (Term.ofList (.var y :: xs)) = .err instErr := by
  simp [univ, univErrors_proper]

/-- 8.5.3.3 d): a list of length ≥ 2 whose head is neither a variable nor an atom. -/
theorem C23_univ_err_head_not_atom (t : Term) {h : Term} (a : Term) (as : List Term)
    (h1 : isVar h = false) (h2 : isAtom h = false) :
    univ t (Term.ofList (h :: a :: as)) = .err (typeErr "atom" h) := by
  simp [univ, univErrors_proper, h1, h2]

/-- 8.5.3.3 e): a one-element list whose element is compound. -/
theorem C23_univ_err_compound_head (t : Term) (g : String) (as : List Term) :
    univ t (Term.ofList [.str g as]) = .err (typeErr "atomic" (.str g as)) := by
  simp [univ, univErrors_proper, isVar, isAtom, isCompound]

/-- 8.5.3.3 f): `T` unbound and the list empty. -/
theorem C23_univ_err_empty (x : String) :
    univ (.var x) Term.nil = .err (domErr "non_empty_list" Term.nil) := by
  have := univErrors_proper (.var x) []
  simp only [Term.ofList, List.foldr_nil] at this
  simp [univ, this]

/-- 8.5.3.3 g): `T` unbound and more than `max_arity` arguments. -/
theorem C23_univ_err_max_arity (x f : String) (args : List Term) (h : args.length > maxArity) :
    univ (.var x) (Term.ofList (.atom f :: args)) = .err (repErr "max_arity") := by
  simp [univ, univErrors_proper, isVar, isAtom, isCompound, h]

/-! ## copy_term/2 -/

/-- The copy is a variant of the original. -/
theorem C23_copy_variant (avoid : List String) (t : Term) : Variant t (copyOf avoid t) := by
  obtain ⟨hl, hn, ht⟩ := copy_facts avoid t
  exact ⟨_, _, renameFn_isVar _ _, renameFn_isVar _ _, rfl, subst_rename_inv hl hn ht⟩

/-- The copy shares no variable with the original, nor with any name to avoid (the variables of
    the rest of the query): all its variables are fresh. -/
theorem C23_copy_fresh (avoid : List String) (t : Term) {y : String}
    (hy : y ∈ (copyOf avoid t).vars) : y ∉ avoid ∧ y ∉ t.vars := by
  obtain ⟨hl, _, ht⟩ := copy_facts avoid t
  have := freshNames_not_mem (vars_subst_rename hl ht hy)
  simp only [List.mem_append, not_or] at this
  exact ⟨this.1, fun h => this.2 (mem_termVars.mpr h)⟩

/-- Sharing is preserved: the copy is the image of the original under ONE variable-for-variable
    substitution (same variable ↦ same fresh variable) that is injective on the variables of the
    original (different variables ↦ different fresh variables) and leaves every ground sub-term
    as it is. -/
theorem C23_copy_preserves_sharing (avoid : List String) (t : Term) :
    ∃ ρ : String → Term, copyOf avoid t = t.subst ρ ∧ (∀ x, ∃ y, ρ x = .var y) ∧
      (∀ x1 ∈ t.vars, ∀ x2 ∈ t.vars, ρ x1 = ρ x2 → x1 = x2) ∧
      (∀ u : Term, u.vars = [] → u.subst ρ = u) := by
  obtain ⟨hl, hn, ht⟩ := copy_facts avoid t
  exact ⟨_, rfl, renameFn_isVar _ _,
    fun x1 h1 x2 h2 e => renameFn_inj hl hn (ht x1 h1) (ht x2 h2) e,
    fun u hu => subst_ground hu _⟩

/-- A ground term is copied to itself. -/
theorem C23_copy_ground (avoid : List String) {t : Term} (h : t.vars = []) : copyOf avoid t = t :=
  subst_ground h _

/-- Idempotent up to variance: a copy of a copy is a variant of the copy (and of the original). -/
theorem C23_copy_idempotent (a1 a2 : List String) (t : Term) :
    Variant (copyOf a2 (copyOf a1 t)) (copyOf a1 t) ∧ Variant (copyOf a2 (copyOf a1 t)) t :=
  ⟨(C23_copy_variant a2 _).symm, ((C23_copy_variant a1 t).trans (C23_copy_variant a2 _)).symm⟩

/-- `copy_term(T, C)` with `C` an unbound variable: `C` is bound to the copy, whose variables are
    fresh w.r.t. `T`, `C` and the rest of the query; no variable of `T` is bound (the original is
    unchanged). -/
theorem C23_copy_term_fresh_target (avoid : List String) (t : Term) (c : String) :
    copyTerm avoid t (.var c) = .ok [(c, copyOf (avoid ++ [c]) t)] ∧
    (c ∉ t.vars → applyS [(c, copyOf (avoid ++ [c]) t)] t = t) := by
  constructor
  · unfold copyTerm
    simp only [Term.vars]
    apply unifyAll_bind
    intro h
    have := (C23_copy_fresh (avoid ++ [c]) t h).1
    simp at this
  · intro hc
    simp only [applyS]
    exact subst1_of_not_mem hc

/-- in general `copy_term(T, C)` is the unification of `C` with the fresh copy. -/
theorem C23_copy_term_spec (avoid : List String) (t c : Term) :
    copyTerm avoid t c = unifyAll [(c, copyOf (avoid ++ c.vars) t)] := rfl

/-! ## term_variables/2 and ground/1 -/

/-- no duplicates. -/
theorem C23_term_variables_nodup (t : Term) : (termVars t).Nodup := termVars_nodup t

/-- exactly the variables of the term. -/
theorem C23_term_variables_mem (t : Term) (x : String) : x ∈ termVars t ↔ x ∈ t.vars :=
  mem_termVars

/-- depth-first left-to-right first-occurrence order: the result is the first-occurrence
    de-duplication `nub` of the left-to-right sequence `t.vars` of all variable occurrences, where
    `nub` is pinned down by `nub [] = []` and
    `nub (l ++ [x]) = if x ∈ l then nub l else nub l ++ [x]`. -/
theorem C23_term_variables_order :
    ∃ nub : List String → List String, nub [] = [] ∧
      (∀ l x, nub (l ++ [x]) = if x ∈ l then nub l else nub l ++ [x]) ∧
      ∀ t, termVars t = nub t.vars := by
  refine ⟨nubFrom [], rfl, ?_, termVars_eq⟩
  intro l x
  rw [nubFrom_append]
  show insertNew (nubFrom [] l) x = _
  unfold insertNew
  have : x ∈ nubFrom [] l ↔ x ∈ l := by rw [mem_nubFrom]; simp
  by_cases h : x ∈ l
  · simp [h, this.mpr h]
  · have h2 : x ∉ nubFrom [] l := fun h' => h (this.mp h')
    simp [h, h2]

/-- `term_variables(T, Vs)` with `Vs` an unbound variable not in `T`. -/
theorem C23_term_variables_fresh_target (t : Term) {V : String} (hV : V ∉ t.vars) :
    termVariables t (.var V) = .ok [(V, Term.ofList ((termVars t).map Term.var))] := by
  have : canBeList (.var V) = true := by simp [canBeList, isVar]
  simp only [termVariables, this, if_true]
  apply unifyAll_bind
  rw [vars_ofList, varsL_map_var]
  simp only [Term.nil, Term.vars_atom, List.append_nil]
  exact fun h => hV (mem_termVars.mp h)

/-- the second argument must be a partial list or a list (8.5.5.3). -/
theorem C23_term_variables_type_error (t : Term) {vs : Term} (h : canBeList vs = false) :
    termVariables t vs = .err (typeErr "list" vs) := by
  simp [termVariables, h]

/-- `ground(T)` succeeds iff `T` has no variable iff `term_variables(T, [])` succeeds. -/
theorem C23_ground_iff (t : Term) :
    (ground1 t = .ok [] ↔ t.vars = []) ∧ (t.vars = [] ↔ termVars t = []) ∧
    (termVars t = [] ↔ termVariables t Term.nil = .ok []) := by
  refine ⟨?_, ?_, ?_⟩
  · unfold ground1
    rw [← groundB_iff]
    cases groundB t <;> simp
  · constructor
    · intro h; rw [termVars_eq, h]; rfl
    · intro h
      cases hv : t.vars with
      | nil => rfl
      | cons x l =>
          have : x ∈ termVars t := mem_termVars.mpr (by rw [hv]; exact List.mem_cons_self ..)
          rw [h] at this; cases this
  · have hc : canBeList Term.nil = true := by simp [canBeList, isVar, isNil, Term.nil, splitList]
    simp only [termVariables, hc, if_true]
    cases htv : termVars t with
    | nil => simp [Term.ofList, unifyAll, Term.nil, solve, constEq, ofOutcome]
    | cons x l =>
        simp [Term.ofList, unifyAll, Term.nil, Term.cons, solve, constEq, ofOutcome]

/-- ground/1 never raises an error and never binds. -/
theorem C23_ground_no_error (t : Term) : ground1 t = .ok [] ∨ ground1 t = .fail := by
  unfold ground1; split <;> simp

/-! ## subsumes_term/2 -/

/-- The mirrored algorithm (collect the variables of `S`, unify with occurs check, collect the
    variables of the instantiated list, compare with `==`) succeeds iff `G` subsumes `S` in the
    sense of ISO 8.2.4: some substitution leaving the variables of `S` alone makes `G` identical
    to `S`. -/
theorem C23_subsumes_iff (g s : Term) : subsumes g s = true ↔ Subsumes g s := subsumes_iff g s

/-- `subsumes_term/2` never leaves a binding and never raises an error. -/
theorem C23_subsumes_no_bindings (g s : Term) :
    subsumesTerm g s = .ok [] ∨ subsumesTerm g s = .fail := by
  unfold subsumesTerm; split <;> simp

/-- every term subsumes itself. -/
theorem C23_subsumes_refl (t : Term) : subsumes t t = true :=
  (subsumes_iff t t).mpr ⟨Term.var, fun _ _ => rfl, Term.subst_id t⟩

/-- for a ground `S`: `G` subsumes `S` iff `S` is an instance of `G`. -/
theorem C23_subsumes_ground (g : Term) {s : Term} (hs : s.vars = []) :
    subsumes g s = true ↔ ∃ θ : String → Term, g.subst θ = s := by
  rw [subsumes_iff]
  constructor
  · rintro ⟨θ, _, h⟩; exact ⟨θ, h⟩
  · rintro ⟨θ, h⟩
    refine ⟨θ, ?_, h⟩
    intro x hx
    rw [hs] at hx
    cases hx

/-- a subsumed term is an instance; a term with a variable of its own is not subsumed by a
    proper instance-maker of that variable: `f(X)` does not subsume `f(g(X))`. -/
theorem C23_subsumes_shared_variable_example :
    subsumes (.str "f" [.var "X"]) (.str "f" [.str "g" [.var "X"]]) = false := by
  cases h : subsumes (.str "f" [.var "X"]) (.str "f" [.str "g" [.var "X"]]) with
  | false => rfl
  | true =>
      obtain ⟨θ, hfix, heq⟩ := (subsumes_iff _ _).mp h
      have hx : θ "X" = .var "X" := hfix "X" (by simp [Term.vars, Term.varsL])
      simp [Term.subst, Term.substL, hx] at heq

/-! ## non-vacuity -/

example : functor3 [] (.str "f" [.var "X", .atom "a"]) (.var "N") (.var "A") =
    .ok [("A", .int 2), ("N", .atom "f")] :=
  C23_functor_inspect [] rfl (by decide)

example : ∃ fresh : List String, fresh.length = 3 ∧
    functor3 ["T"] (.var "T") (.atom "foo") (.int 3) = .ok [("T", .str "foo" (fresh.map .var))] := by
  obtain ⟨fr, h1, _, _, h⟩ := C23_functor_construct ["T"] "T" "foo" (k := 3) (by decide) (by decide)
  exact ⟨fr, h1, h⟩

example : arg3 (.int 2) (.str "f" [.atom "a", .atom "b"]) (.var "X") = .ok [("X", .atom "b")] :=
  C23_arg_select "f" [.atom "a", .atom "b"] 1 (by decide) (by simp)

example : subsumes (.str "f" [.var "X", .var "Y"]) (.str "f" [.var "Z", .var "Z"]) = true :=
  (subsumes_iff _ _).mpr ⟨fun x => if x = "X" ∨ x = "Y" then .var "Z" else .var x,
    by intro x hx; simp [Term.vars, Term.varsL] at hx; subst hx; simp,
    by simp [Term.subst, Term.substL]⟩

example : Variant (.str "f" [.var "X", .var "Y", .var "X"])
    (copyOf ["X", "Y"] (.str "f" [.var "X", .var "Y", .var "X"])) := C23_copy_variant _ _

end Scryer.C23
