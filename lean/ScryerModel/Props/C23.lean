import ScryerModel.Model.TermOps
namespace Scryer.C23
open Scryer Scryer.Term Scryer.Unify Scryer.TermOps

/-- `subsumes_term/2` never leaves a binding. -/
theorem C23_subsumes_no_bindings (g s : Term) :
    subsumesTerm g s = .ok [] ∨ subsumesTerm g s = .fail := by
  unfold subsumesTerm; split <;> simp

end Scryer.C23
