import ScryerModel.Model.Resync
/-!
# C17 — Malformed input never crashes or desynchronises the reader
-/
namespace Scryer.C17
open Scryer.Resync Scryer.CharClass

/-- placeholder while the pipeline is brought up -/
theorem C17_skipQ_nil (q : Char) : skipQ q [] = [] := rfl

end Scryer.C17
