import ScryerModel.Proofs.Resync
import ScryerModel.Model.Quote
/-!
# C17 — Malformed input never crashes or desynchronises the reader

`Model/Resync.lean` mirrors `Lexer::next_token` and everything below it (`lexer.rs`), `read_tokens`
(`parser.rs`), `MachineState::read` (`read.rs`) and the loop "read until end_of_file", keeping only
positions: a token / a lexical error is its kind and the remaining input. `fixed = true` (and the
functions `skipToEnd`, `readClause`, `reads`) is the REPAIRED reader (findings C17-1, C17-2, C17-3);
`fixed = false`, `readClausePinned`, `readsPinned` is the pinned code. `u : UC` = Rust's Unicode
predicates (parameters). All theorems hold for every character list (no length bound) and every `u`.

What is NOT proved here: the shift/reduce parser proper is not modelled (a parser error is raised
after the whole clause has been consumed, so it cannot desynchronise the reader; that it does not
panic is only tested), and `reads (c ++ rest) = outcome c :: reads rest` is proved in the form
"`reads s` = first outcome :: `reads` (what that read left)" (`C17_reads_compositional`), not for
an arbitrary textual concatenation (the tie checks that form on the model and the implementation).
-/
namespace Scryer.C17
open Scryer.Resync Scryer.CharClass

/-- Tokenizer totality and progress: on ANY input `next_token` returns a token or a lexical error,
    never panics (`token.pop().unwrap()` is never reached with an empty token); a token consumes at
    least one character, so does every error except "end of input", which is only reported with the
    input exhausted. (The definitions themselves are structural recursions: Lean accepted them as
    terminating without fuel.) -/
theorem C17_tokenizer_total_progress (u : UC) (s : List Char) :
    nextTok u true s ≠ .panic ∧
    (∀ k rest, nextTok u true s = .tok k rest → rest.length < s.length) ∧
    (∀ e rest, nextTok u true s = .err e rest → e ≠ .eof → rest.length < s.length) ∧
    (∀ rest, nextTok u true s = .err .eof rest → rest = []) :=
  ⟨nextTok_no_panic u s, nextTok_tok_lt u s, nextTok_err_lt u s, nextTok_eof_nil u s⟩

/-- Maximal munch for the run tokens (variables, letter-digit names, graphic names — `runTok` with
    the class `p`): the token is the longest prefix of class characters; it stops at a character
    outside the class, and the kind is the one asked for. -/
theorem C17_maximal_munch (p : Char → Bool) (k k' : Kind) (s rest : List Char)
    (h : runTok p k s = .tok k' rest) :
    k' = k ∧ ∃ pre d r, s = pre ++ rest ∧ rest = d :: r ∧ p d = false ∧ ∀ c ∈ pre, p c = true :=
  runTok_munch p k s k' rest h

/-- End-token detector, soundness: whenever `next_token` reports `End`, the text after the layout
    stands at a `.` that is followed by layout, `%` or the end of input, and the reader is left
    just behind the `.` (behind the new line, if that is what follows). -/
theorem C17_end_detector_sound (u : UC) (f : Bool) (s rest : List Char)
    (h : nextTok u f s = .tok .endT rest) :
    ∃ ins t, scanLayout u s = .ok ins t ∧ atEnd u t = true ∧ (rest = t.drop 1 ∨ rest = t.drop 2) :=
  nextTok_end u f s rest h

/-- End-token detector, completeness: at a token start, `.` followed by layout, `%` or the end of
    input IS the end token. -/
theorem C17_end_detector_complete (u : UC) (hu : u.is_uppercase '.' = false) (f ins : Bool) (r : List Char)
    (h : atEnd u ('.' :: r) = true) :
    ∃ rest, tokAt u f ins ('.' :: r) = .tok .endT rest ∧ (rest = r ∨ rest = r.drop 1) :=
  tokAt_dot_end u hu f ins r h

/-- The detector never fires inside a token: whatever follows the opening quote of a quoted atom /
    string / `0'c` literal, the first digit of a number, the back quote of a back-quoted string, or
    the first character of a graphic token (`=..`, `.(`, `a.b`'s `.b`), these scanners never yield `End`. -/
theorem C17_no_end_inside_tokens (u : UC) (s : List Char) :
    (∀ m st rest, qGo u m st s ≠ .tok .endT rest) ∧
    (∀ st z n rest, intGo u st z n s ≠ .tok .endT rest) ∧
    (∀ rest, bqGo u s ≠ .tok .endT rest) ∧
    (∀ rest, runTok (graphic_token_char u) .name s ≠ .tok .endT rest) := by
  refine ⟨?_, ?_, ?_, ?_⟩
  · intro m st rest h; have := qGo_noEnd u m st s; rw [h] at this; exact this
  · intro st z n rest h; have := intGo_noEnd u st z n s; rw [h] at this; exact this
  · intro rest h; have := bqGo_noEnd u s; rw [h] at this; exact this
  · intro rest h; have := runTok_noEnd (graphic_token_char u) .name s Kind.noConfusion; rw [h] at this; exact this

/-- Skip mode (`Lexer::skip_to_end_token`, the repair) terminates on every input and stops exactly
    behind an end token, or at the end of the input. -/
theorem C17_skip_total (u : UC) (s : List Char) :
    ∃ r, skipToEnd u s = some r ∧ r.length ≤ s.length ∧
      (r = [] ∨ ∃ s', nextTok u true s' = .tok .endT r) := by
  obtain ⟨r, hr, hle⟩ := skipToEnd_some u s
  exact ⟨r, hr, hle, skipGo_end u _ _ _ hr⟩

/-- One `read_term` call on any text: it returns (no fuel exhaustion, no panic), never lengthens
    the input, consumes at least one character unless it reports end_of_file, and — term, parser
    error or lexical error alike — leaves the reader exactly behind an end token or at the end of
    the input. -/
theorem C17_read_resynchronises (u : UC) (s : List Char) :
    ∃ o rest, readClause u s = some (o, rest) ∧ rest.length ≤ s.length ∧
      (o ≠ .eof → rest.length < s.length) ∧
      (rest = [] ∨ ∃ s', nextTok u true s' = .tok .endT rest) := by
  obtain ⟨o, r, h, hle, hlt⟩ := readClause_spec u s
  exact ⟨o, r, h, hle, hlt, readClause_end u s o r h⟩

/-- Reading a text until end_of_file terminates for every text. -/
theorem C17_reads_total (u : UC) (s : List Char) : ∃ l, reads u s = some l :=
  readsGo_some u _ s (by simp)

/-- Compositionality of the clause stream: the reads of a text are the outcome of the first read
    followed by the reads of exactly what that read left — whether the first read delivered a
    clause or a syntax error; and nothing follows end_of_file. -/
theorem C17_reads_compositional (u : UC) (s : List Char) :
    (∀ o rest, readClause u s = some (o, rest) → o ≠ .eof →
      reads u s = (reads u rest).map fun l => (o, s.length - rest.length) :: l) ∧
    (∀ rest, readClause u s = some (.eof, rest) → reads u s = some []) :=
  ⟨reads_step u s, reads_eof u s⟩

/-! ## non-vacuity and witnesses (ASCII instance of the Unicode parameters) -/

abbrev ua : UC := Scryer.Quote.asciiUC

/-- `a 'b\qc' d. good.` (newline): the repaired reader reports the illegal escape, skips through the end token of that
    clause — the `.` is found although the quoted atom was broken — and then reads `good.` -/
example : reads ua ['a', ' ', '\'', 'b', '\\', 'q', 'c', '\'', ' ', 'd', '.', ' ', 'g', 'o', 'o', 'd', '.', '\n'] =
    some [(.error .invalidSingleQuoted, 11), (.clause 1, 7)] := by decide

/-- the pinned reader continues in the middle of the offending clause: `qc`, then a quoted atom
    opened by the old closing quote swallows `good.`: `good` is never read -/
example : readsPinned ua 4 ['a', ' ', '\'', 'b', '\\', 'q', 'c', '\'', ' ', 'd', '.', ' ', 'g', 'o', 'o', 'd', '.', '\n'] =
    [(.error .invalidSingleQuoted, 5), (.error .invalidSingleQuoted, 12)] := by decide

/-- a `.` inside a quoted atom, a graphic token, a number and a `0'.` literal is not an end token -/
example : reads ua ['\'', 'a', '.', ' ', 'b', '\'', ' ', '=', '.', '.', ' ', '1', '.', '5', ' ', '0', '\'', '.', ' ', '.', '\n', 'x', '.'] =
    some [(.clause 4, 21), (.clause 1, 2)] := by decide

/-- a character that cannot start a token: the pinned reader never consumes it (the same error for
    ever), the repaired reader consumes it, skips through `.` and goes on -/
example : readsPinned ua 3 ['\x01', ' ', 'b', '.', ' ', 'c', '.'] =
    [(.error .unexpectedChar, 0), (.error .unexpectedChar, 0), (.error .unexpectedChar, 0)] := by decide
example : reads ua ['\x01', ' ', 'b', '.', ' ', 'c', '.'] = some [(.error .unexpectedChar, 4), (.clause 1, 3)] := by decide

/-- the hypothesis of `C17_end_detector_complete` holds for the ASCII instance -/
example : ua.is_uppercase '.' = false := by decide

/-- layout and comments after the last clause are end_of_file, not a clause (C17-3) -/
example : reads ua ['a', '.', '\n', '\n', '%', ' ', 'c', '\n'] = some [(.clause 1, 3)] := by decide

end Scryer.C17
