import ScryerModel.Proofs.Loader
namespace Scryer.Loader

theorem C35_placeholder : (1:Nat) = 1 := rfl

end Scryer.Loader
