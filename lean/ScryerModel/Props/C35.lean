import ScryerModel.Proofs.Loader
/-!
C35 — Reloading a program is idempotent (theorems about `Scryer.Loader`, the model of the reload
protocol of loader.pl / loader.rs / load_state.rs / compile.rs).

`load fm src items s` is the consult/load of the text `items` as source `src` (`fm`: the source
path is a real file, so that the loader keeps a per-file record). The hypotheses used below:
* `Canon items`: in the text, the declarations of a predicate precede its clauses;
* `s.wf`: in every predicate record flags and tracking imply a global skeleton (an invariant of
  `load` and `assertz`, theorems `C35_load_wf`, and true of the initial state).
-/
namespace Scryer.Loader

/-- in the text, the declarations of every predicate precede its clauses. -/
def Canon (items : List Item) : Prop := ∀ k, canonK (evsOf k (events items none))

/-- every predicate record is well formed. -/
def State.wf (s : State) : Prop := ∀ k, (s.preds k).wf2

theorem State.eq_of {s t : State} (h1 : s.preds = t.preds) (h2 : s.sdef = t.sdef)
    (h3 : s.ops = t.ops) (h4 : s.opOwn = t.opOwn) (h5 : s.flags = t.flags) : s = t := by
  cases s; cases t; simp_all

theorem any_isGroup (l : List KEv) : l.any isGroup = !(groupsOf l).isEmpty := by
  induction l with
  | nil => rfl
  | cons e l ih => cases e <;> simp [isGroup, groupsOf, ih]

/-- The load of a canonical text is its closed form: the flags declared are added, the clauses of
    other sources are kept (in their order, first) exactly when the predicate is tracked and
    discontiguous or multifile, and the source contributes all its clauses (discontiguous) or its
    last group (otherwise). -/
theorem C35_loadKey_closed_form (fm : Bool) (src : Src) (inS : Bool) (evs : List KEv) (p : Pred)
    (hc : canonK evs) (h : p.wf2) : loadKey fm src inS evs p = specKey fm src inS evs p :=
  loadKey_eq_specKey fm src inS evs p hc h

/-- Per predicate: loading a file a second time gives the state after the first load. -/
theorem C35_loadKey_idem (src : Src) (inS : Bool) (evs : List KEv) (p : Pred)
    (hc : canonK evs) (h : p.wf2) :
    loadKey true src (if (groupsOf evs).isEmpty then inS else true) evs (loadKey true src inS evs p)
      = loadKey true src inS evs p := by
  rw [loadKey_eq_specKey _ _ _ _ _ hc (loadKey_wf2 true src inS evs p h),
      loadKey_eq_specKey _ _ _ _ _ hc h]
  simp only [specKey_eq, if_true]
  exact spec_idem_file src inS (declsOf evs) (groupsOf evs) (wipeK src inS p)
    (wipeK_wf2 src inS p h) (wipeK_clean src inS p h) (wipeK_idem src inS p)

/-- well-formedness is an invariant of loading. -/
theorem C35_load_wf (fm : Bool) (src : Src) (items : List Item) (s : State) (h : s.wf) :
    (load fm src items s).wf := fun k => loadKey_wf2 fm src _ _ _ (h k)

/-- **Idempotence.** Consulting the same file text again leaves the whole loader state (every
    predicate's clauses and flags, the operator table, the flags, the per-file records) exactly as
    after the first load — for every prior state. -/
theorem C35_load_idem (src : Src) (items : List Item) (s : State) (hc : Canon items) (h : s.wf) :
    load true src items (load true src items s) = load true src items s := by
  apply State.eq_of
  · funext k
    have := C35_loadKey_idem src (s.sdef src k) (evsOf k (events items none)) (s.preds k) (hc k) (h k)
    simp only [load, Bool.true_and, beq_self_eq_true, hasGroup, any_isGroup]
    cases hg : (groupsOf (evsOf k (events items none))).isEmpty <;> simp_all
  · funext a k
    simp only [load]
    split <;> simp_all
  · simp only [load, Bool.true_and, beq_self_eq_true, if_true]
    exact assigns_idem (opAssigns items) (s.opOwn src) s.ops
  · funext a o
    simp only [load]
    split <;> simp_all
  · simp only [load]
    exact assigns_twice _ _

/-- Any number of repeated loads gives the state after the first one. -/
theorem C35_loadN_idem (src : Src) (items : List Item) (s : State) (hc : Canon items) (h : s.wf)
    (n : Nat) : loadN true src items (n + 1) s = load true src items s := by
  induction n with
  | zero => rfl
  | succ n ih =>
    show load true src items (loadN true src items (n + 1) s) = _
    rw [ih]
    exact C35_load_idem src items s hc h

/-- The answers of every query are the same after 1 and after n loads. -/
theorem C35_answers_stable (src : Src) (items : List Item) (s : State) (hc : Canon items)
    (h : s.wf) (n : Nat) (k : Key) :
    answers (loadN true src items (n + 1) s) k = answers (load true src items s) k := by
  rw [C35_loadN_idem src items s hc h n]

/-- The model's size measure (clauses and operators) is the same after 1 and after n loads. -/
theorem C35_size_stable (src : Src) (items : List Item) (s : State) (hc : Canon items)
    (h : s.wf) (n : Nat) (keys ops : List Nat) :
    size (loadN true src items (n + 1) s) keys ops = size (load true src items s) keys ops := by
  rw [C35_loadN_idem src items s hc h n]

/-- Frame: a predicate the text does not mention, that has no clause of this source and that the
    file did not define statically before, is untouched by the load. -/
theorem C35_frame (fm : Bool) (src : Src) (items : List Item) (s : State) (k : Key)
    (hno : evsOf k (events items none) = [])
    (hown : foreign src (s.preds k).cls = (s.preds k).cls)
    (hs : s.sdef src k = false ∨ (s.preds k).ext = true) :
    (load fm src items s).preds k = s.preds k := by
  simp only [load, hno, loadKey, List.foldl_nil]
  cases fm
  · rfl
  · generalize s.preds k = p at hown hs
    cases p with
    | mk ext dyn disc multi defined tracked cls =>
    simp only at hown hs
    cases ext <;> cases tracked <;> rcases hs with hs | hs <;> simp_all [wipeK]

/-- Reloading a file keeps the clauses other sources (other files, assert) contributed to a
    tracked discontiguous or multifile predicate, in their order. -/
theorem C35_other_sources_kept (src : Src) (inS : Bool) (evs : List KEv) (p : Pred)
    (hc : canonK evs) (h : p.wf2) (ht : p.tracked = true) (hk : p.disc = true ∨ p.multi = true) :
    foreign src (loadKey true src inS evs p).cls = foreign src p.cls := by
  rw [loadKey_eq_specKey _ _ _ _ _ hc h, specKey_eq]
  obtain ⟨⟨h1, h2, h3⟩, h4⟩ := h
  cases p with
  | mk ext dyn disc multi defined tracked cls =>
  simp only at h1 h2 h3 h4 ht hk
  subst ht
  have hext : ext = true := h1 rfl
  subst hext
  rcases List.eq_nil_or_concat (groupsOf evs) with hg | ⟨init, last, hg⟩
  · rw [hg]
    simp only [closed_nil, declsFold_eq, if_true, wipeK]
    by_cases hd : Fl.disc ∈ declsOf evs <;> simp [hd, foreign_idem]
  · rw [hg]
    simp only [List.concat_eq_append, closed_snoc, declsFold_eq, if_true, wipeK]
    by_cases hd : Fl.disc ∈ declsOf evs <;> by_cases hm : Fl.multi ∈ declsOf evs <;>
      cases disc <;> cases multi <;>
      simp_all [foreign_idem, foreign_append, foreign_ownCls]

/-- A predicate that is neither discontiguous nor multifile after the text's declarations
    (static, or dynamic only) consists, after the load, of exactly the source's last clause group:
    clauses asserted at run time or loaded from elsewhere are gone. -/
theorem C35_plain_predicate_replaced (fm : Bool) (src : Src) (inS : Bool) (evs : List KEv) (p : Pred)
    (hc : canonK evs) (h : p.wf2) (init : List (List Nat)) (last : List Nat)
    (hg : groupsOf evs = init ++ [last])
    (hd : p.disc = false ∧ Fl.disc ∉ declsOf evs) (hm : p.multi = false ∧ Fl.multi ∉ declsOf evs) :
    (loadKey fm src inS evs p).cls = ownCls src last := by
  rw [loadKey_eq_specKey _ _ _ _ _ hc h, specKey_eq, hg, closed_snoc, declsFold_eq]
  cases p with
  | mk ext dyn disc multi defined tracked cls =>
  simp only at hd hm
  cases fm <;> cases ext <;> cases tracked <;> cases inS <;> simp_all [wipeK]

/-! ## Witnesses (non-vacuity, the pinned defect, the limits of the statement) -/

/-- a file: `:- dynamic(p/1). :- discontiguous(p/1). p(1). q(0). p(2).` -/
def exText : List Item :=
  [.decl 1 .dyn, .decl 1 .disc, .clause 1 1, .clause 2 0, .clause 1 2]

instance (evs : List KEv) : Decidable (canonK evs) := by unfold canonK; infer_instance

example : Canon exText := by
  intro k
  have he : events exText none = [(1, .decl .dyn), (1, .decl .disc), (1, .group [1]),
      (2, .group [0]), (1, .group [2])] := by decide
  rw [he]
  by_cases h1 : k = 1
  · subst h1; decide
  · by_cases h2 : k = 2
    · subst h2; decide
    · have e1 : ¬ (1 = k) := fun h => h1 h.symm
      have e2 : ¬ (2 = k) := fun h => h2 h.symm
      simp [evsOf, canonK, declsOf, groupsOf, e1, e2]

example : State.init.wf := fun _ => by simp [State.init, Pred.wf2, Pred.wf]

/-- load, assertz(p(9)), reload: the asserted clause of the dynamic discontiguous predicate is
    kept (before the file's clauses), and a further reload changes nothing. -/
example :
    let s1 := load true 1 exText State.init
    let s2 := load true 1 exText (assertz 1 9 s1)
    answers s1 1 = some [1, 2] ∧ answers s2 1 = some [9, 1, 2] ∧
    answers (load true 1 exText s2) 1 = some [9, 1, 2] := by decide

/-- The pinned implementation (finding C35-1): after the same history the predicate answers
    nothing, and stays so on further reloads and asserts. -/
example :
    let evs := evsOf 1 (events exText none)
    let q1 : PredP := loadKeyPinned 1 false evs { p := {} }
    let q2 : PredP := { q1 with p := (assertz 1 9 { State.init with preds := fun _ => q1.p }).preds 1 }
    let q3 := loadKeyPinned 1 true evs q2
    answersP q1 = some [1, 2] ∧ answersP q3 = some [] ∧
    answersP (loadKeyPinned 1 true evs q3) = some [] := by decide

/-- A non-file source keeps no per-file record: a text that adds a clause to a predicate declared
    discontiguous by another text is NOT idempotent there (finding C35-5); as a file it is. -/
example :
    let s0 := load false 0 [.decl 1 .disc] State.init
    answers (load false 0 [.clause 1 7] s0) 1 = some [7] ∧
    answers (loadN false 0 [.clause 1 7] 2 s0) 1 = some [7, 7] ∧
    answers (loadN true 2 [.clause 1 7] 2 s0) 1 = some [7] := by decide

/-- two files contribute to a multifile predicate; reloading the first keeps the second's
    clauses (they move in front), and is idempotent. -/
example :
    let a : List Item := [.decl 1 .multi, .clause 1 1]
    let b : List Item := [.decl 1 .multi, .clause 1 2, .clause 1 3]
    let s := load true 2 b (load true 1 a State.init)
    answers s 1 = some [1, 2, 3] ∧ answers (load true 1 a s) 1 = some [2, 3, 1] ∧
    answers (loadN true 1 a 5 s) 1 = some [2, 3, 1] := by decide

end Scryer.Loader
